"""C19 - far-separated closed-shell neutral fragments are additive; the pair cutoff acts as documented.

Oracle (relational + invariant at a hook):
 * frag cases: fragments A, B (, C) in generic orientation, centroid separation R in {8..500} A along a generic
   direction.  E(AB..) - sum E(fragment at the very same coordinates, alone) must be bounded by the largest
   dipole-dipole interaction the fragments can have (independent dipoles computed here from the returned
   charges, density and the shipped zeta tables), i.e. decay at least like R^-3; fragment forces / charges
   (field ~ R^-3) and orbital energies (potential ~ R^-2) must approach the isolated values accordingly.
 * wrapper on `Parser.forward`: with the default cutoff the pair list has N(N-1)/2 entries at every distance;
   with a finite `pair_outer_cutoff` it equals an independent plain-loop enumeration of the pairs closer than
   the cutoff (index maps, block positions, distances, unit vectors included); once every inter-fragment pair
   is beyond the cutoff, E(AB) - E(A) - E(B) <= 1e-9 eV.
 * parser cases: padded random batches, Molecule construction only, same comparison of everything
   Parser.forward returns."""
import numpy as np

from vlib import gen

PROPERTY = "C19"
RULE = ("frag case = (2 or 3 neutral closed-shell library fragments, orientation/direction seed, method, list of "
        "separations and finite cutoffs); parser case = (padded batch of 2-4 fragment systems, cutoff); a frag case is "
        "non-trivial when the dimer converged at >= 4 separations >= 50 A and all isolated fragments converged; "
        "distinct by SHA-1 of the case")
ASSUMPTIONS = ["float64 CPU, scf_eps 1e-11, Pulay", "fragments: neutral closed-shell library molecules whose isolated "
               "energy is the same under two solver paths (multi-stable SCF cases are ineligible: C04's domain)",
               "leading-multipole bounds use dipoles computed independently from the returned charges/density and the "
               "shipped zeta_s/zeta_p tables; allowances: factor 5 on the largest possible dipole-dipole term, "
               "(1 + 10 A / R) for dipole-quadrupole, quadrupoles up to 3 e A^2, noise floors 2e-11 eV / 2e-9 eV/A",
               "generic orientations only (no pair vector within 5 degrees of a Cartesian axis)"]
REQUIRED_MONITORS = ["parser_calls_default_cutoff", "parser_calls_finite_cutoff", "separations_judged",
                     "cut_dimers_judged", "parser_batches_judged", "pm6_d_fragment_cases", "direction_sets_compared"]
# thorough tier: cases not started after this many seconds are skipped and reported (env override for smoke tests)
BUDGET_S = {"thorough": float(__import__("os").environ.get("VERIF_C19_BUDGET", "1500"))}
CASE_TIMEOUT = 900.0

K_E = 14.399645          # e^2/(4 pi eps0) in eV A
A0 = 0.529167
EPS = 1e-11
ALLOW = 5.0              # factor on the largest possible leading term  (=> worst possible margin 0.2)
L_HIGHER = 10.0          # A, relative allowance (1 + L/R) for the next multipole order
THETA_MAX = 3.0          # e A^2, quadrupole allowance
Q_APT = 4.0              # e, largest atomic polar tensor norm allowed
KAPPA_Q = 1.0            # e per (V/A): charge response to a uniform field (measured 0.05 for H2O..NH3)
FLOOR_E, FLOOR_F, FLOOR_Q, FLOOR_EMO = 2e-11, 2e-9, 2e-10, 2e-9
TOL_CUT = 1e-9
MECH_COLD = "far-fragments-cold-start-pulay-lands-on-other-stationary-point"
R_ALL = [8, 12, 20, 30, 50, 100, 200, 500]
R_MIN_JUDGED = 8         # every generated separation is judged; the allowances (1 + 10 A / R_eff, quadrupole terms) cover the near range
FRAGS = ["H2O", "NH3", "CH4", "HF", "CO", "CO2", "N2", "HCN", "C2H2", "C2H4", "CH2O", "CH3OH", "CH3F", "LiH", "HCl",
         "H2S", "CH3Cl", "SO2", "HNO", "N2O", "LiF", "NaCl", "PH3", "SiH4", "BF3", "HOOH", "H2", "F2", "CH3NH2", "HCOOH"]


def gen_cases(tier, seed):
    g = gen.rng("C19", tier)
    cases = []
    if tier == "quick":
        plan = [("AM1", 2), ("PM3", 2), ("MNDO", 2), ("PM6_SP", 2), ("AM1", 3), ("PM3", 2), ("MNDO", 3), ("AM1", 2),
                ("PM6_SP", 3), ("PM3", 3), ("MNDO", 2), ("AM1", 2), ("PM3", 2), ("PM6_SP", 2)]
        nparser = 40
        Rs = R_ALL
    else:
        plan = [(["AM1", "PM3", "MNDO", "PM6_SP"][i % 4], 3 if i % 4 == 3 or i % 7 == 0 else 2) for i in range(84)]
        nparser = 400
        Rs = R_ALL
    for method, n in plan:
        names = [x for x in FRAGS if gen.available(x, method)]
        pick = [names[int(i)] for i in g.permutation(len(names))[:n]]
        cases.append({"kind": "frag", "method": method, "frags": pick, "seed": int(g.integers(0, 2**31)), "Rs": Rs,
                      "cutoffs": [10.0, 15.0, 25.0] if tier == "thorough" else [[10.0, 25.0], [15.0], [10.0], [25.0, 15.0]][len(cases) % 4]})
    cases.sort(key=lambda c: -sum(len(gen.molecule(f)[0]) for f in c["frags"]))
    # PM6 (d orbitals): exactly ONE d-bearing atom in the whole system (PM6 pairs of two d atoms are an open rotation-invariance
    # finding of C02), next to an H-bearing sp fragment: drives the d-element - hydrogen integral branch at long range.
    # Drawn from a generator of their own so that the cases above are unchanged.
    gp = gen.rng("C19", tier, "pm6")
    dfr, hfr = ["H2S", "HCl", "PH3", "SiH4"], ["CH4", "H2O", "NH3", "HF"]
    npm6 = 2 if tier == "quick" else 12
    off = int(gp.integers(0, 4))
    pm6 = [{"kind": "frag", "method": "PM6", "frags": [dfr[(i + off) % 4], hfr[(i * 3 + i // 4 + off) % 4] if i else "CH4"],
            "seed": int(gp.integers(0, 2**31)), "Rs": [20, 50, 100, 200, 500] if tier == "quick" else R_ALL,
            "cutoffs": [15.0]} for i in range(npm6)]
    cases = pm6 + cases
    # direction independence: the same rigid supersystem with its separation vector put along +-x, +-y, +-z
    gd = gen.rng("C19", tier, "direction")
    dnames = ["CH2O", "H2O", "NH3", "HCN", "CH3OH", "HF", "CO2", "C2H4", "CH3F", "HNO"]
    ndir = 6 if tier == "quick" else 40
    dirs = []
    for i in range(ndir):
        method = ["AM1", "PM3", "MNDO", "PM6_SP"][i % 4]
        av = [x for x in dnames if gen.available(x, method)]
        pick = [av[int(j)] for j in gd.permutation(len(av))[:2]]
        dirs.append({"kind": "dir", "method": method, "frags": pick, "R": float([20.0, 15.0, 30.0, 40.0][i % 4]), "seed": int(gd.integers(0, 2**31))})
    cases = dirs + cases
    frag_cases, cases = cases, []
    for i in range(nparser):
        method = ["AM1", "PM3", "MNDO", "PM6_SP"][i % 4]
        names = [x for x in FRAGS if gen.available(x, method)]
        nsys = int(g.integers(1, 5))
        systems = []
        for _ in range(nsys):
            nf = int(g.integers(1, 4))
            systems.append({"frags": [names[int(j)] for j in g.integers(0, len(names), nf)],
                            "R": float(g.choice([3.0, 5.0, 8.0, 12.0, 20.0, 30.0, 50.0, 200.0])), "seed": int(g.integers(0, 2**31))})
        cases.append({"kind": "parser", "method": method, "systems": systems, "pad": int(g.integers(0, 3)),
                      "padval": [0.0, "random", 1e6, "coincident"][int(g.integers(0, 4))],
                      "cutoff": [None, 4.0, 6.0, 10.0, 15.0, 25.0, 1e3][int(g.integers(0, 7))], "seed": int(g.integers(0, 2**31))})
    # the three largest fragment systems first (long poles), then the cheap parser cases, then the rest
    return frag_cases[:3] + cases + frag_cases[3:]


# ---------------------------------------------------------------------------------------------
def _frag(name, g):
    Z, X, q, m = gen.molecule(name)
    X = gen.distort(X, g, sigma=0.03)
    X = X - X.mean(axis=0)
    return list(Z), X @ gen.haar(g).T


def _place(frag_names, seed, Rs):
    """-> list over R of list of (Z, X) per fragment, all pair vectors generic at every R."""
    g = np.random.default_rng(seed)
    for _ in range(400):
        frs = [_frag(n, g) for n in frag_names]
        d = g.normal(size=3)
        d /= np.linalg.norm(d)
        if len(frs) == 3:
            e = g.normal(size=3)
            e -= (e @ d) * d
            e /= np.linalg.norm(e)
            offs = [np.zeros(3), d, 0.5 * d + (3 ** 0.5 / 2) * e]     # equilateral triangle of side R
        else:
            offs = [np.zeros(3), d]
        ok = True
        placed = []
        for R in Rs:
            cur = [(Z, X + R * o) for (Z, X), o in zip(frs, offs)]
            allX = np.vstack([x for _, x in cur])
            if gen.min_axis_angle_deg(allX) < 5.0:
                ok = False
                break
            placed.append(cur)
        if ok:
            return placed
    raise RuntimeError("no generic placement found")


def _merge(frs):
    Z = [z for zs, _ in frs for z in zs]
    X = np.vstack([x for _, x in frs])
    fid = [k for k, (zs, _) in enumerate(frs) for _ in zs]
    lid = [i for zs, _ in frs for i in range(len(zs))]
    order = sorted(range(len(Z)), key=lambda i: -Z[i])
    return [Z[i] for i in order], X[order], np.array([fid[i] for i in order]), [lid[i] for i in order]


def _block_density(fid, lid, iso, nao=4):
    """superposition of the isolated fragment densities in the AO order of the merged system (4 AOs per atom)."""
    N = len(fid)
    P = np.zeros((nao * N, nao * N))
    for a in range(N):
        for b in range(N):
            if fid[a] == fid[b]:
                Pf = iso[fid[a]]["dm"][0]
                P[nao * a:nao * a + nao, nao * b:nao * b + nao] = Pf[nao * lid[a]:nao * lid[a] + nao, nao * lid[b]:nao * lid[b] + nao]
    return P[None, :, :]


def _nao(method):
    return 9 if method == "PM6" else 4


def _norb_of(Z, method):
    return sum(1 if z == 1 else (9 if (method == "PM6" and 13 <= z <= 17) else 4) for z in Z)


D_ATOM_MU = 0.5          # e A: allowance per d-bearing atom (PM6) for the p-d hybridisation dipole the independent estimate omits


def _qn(z):
    return 1 if z <= 2 else (2 if z <= 10 else 3)


def _dipole_indep(Z, X, out, mol, nao=4):
    """dipole (e A) = sum_A q_A r_A - 2 sum_A D1_A P_{s,p}(A), D1 from the closed form with the shipped zetas."""
    q = out["q"][0][:len(Z)]
    P = out["dm"][0]
    zs = mol.parameters["zeta_s"].detach().numpy()
    zp = mol.parameters["zeta_p"].detach().numpy()
    mu = (q[:, None] * X).sum(axis=0)
    for a, z in enumerate(Z):
        if z > 1:
            n = _qn(z)
            d1 = (2 * n + 1) * (4 * zs[a] * zp[a]) ** (n + 0.5) / ((zs[a] + zp[a]) ** (2 * n + 2) * 3 ** 0.5) * A0
            mu -= 2.0 * d1 * P[nao * a, nao * a + 1:nao * a + 4]
    return mu


def _settings(method, cutoff=None, conv=(2,)):
    from vlib import run

    extra = {"pair_outer_cutoff": float(cutoff)} if cutoff is not None else None
    return run.settings(method, eps=EPS, converger=conv, extra=extra)


class _ParserTap:
    """wrapper on Parser.forward: keeps what the last call returned and counts calls."""

    def __init__(self):
        self.calls = 0
        self.last = None

    def __enter__(self):
        import seqm.basics as basics

        from vlib.mon_c05 import MethodWrap

        def hook(orig, obj, *a, **k):
            out = orig(obj, *a, **k)
            self.calls += 1
            self.last = (out, float(obj.outercutoff))
            return out

        self._w = MethodWrap(basics.Parser, "forward", hook)
        self._w.__enter__()
        return self

    def __exit__(self, *a):
        self._w.__exit__()
        return False


def _run_frag(case):
    from vlib import run
    from vlib.mon_c05 import parser_compare, parser_reference

    method = case["method"]
    Rs = case["Rs"]
    placed = _place(case["frags"], case["seed"], Rs)
    nfr = len(case["frags"])
    viol, margins, mon, cells = [], {}, {}, set()

    def cnt(k, n=1):
        mon[k] = mon.get(k, 0) + n

    def upd(name, val, bound):
        r = float(val) / bound if bound > 0 else float("inf")
        if not (r == r):
            r = float("inf")
        margins[name] = max(margins.get(name, 0.0), r)
        return r > 1.0

    sett = _settings(method)
    nao = _nao(method)
    cells.add("%s/%d-fragments" % (method, nfr))
    if method == "PM6":
        cells.add("PM6/d-fragment=%s/partner=%s" % (case["frags"][0], "+".join(case["frags"][1:])))
        cnt("pm6_d_fragment_cases")
    # --- isolated fragments at the smallest separation: eligibility + independent dipoles -------------------
    mus, kos, rhomax = [], [], 0.0
    for (Z, X) in placed[0]:
        o2 = run.single_point(Z, X, sett, keep=True)
        o1 = run.single_point(Z, X, _settings(method, conv=(1,)))
        if bool(o2["notconverged"][0]) or bool(o1["notconverged"][0]):
            return {"ineligible": "isolated fragment not converged"}
        if abs(float(o2["Etot"][0]) - float(o1["Etot"][0])) > 1e-6:
            return {"ineligible": "isolated fragment has solver-dependent SCF solutions (C04 domain)"}
        nocc, no = int(o2["nocc"][0]), _norb_of(Z, method)
        if nocc >= no or o2["e_mo"][0][nocc] - o2["e_mo"][0][nocc - 1] < 2.0:
            return {"ineligible": "fragment gap < 2 eV"}
        mu = _dipole_indep(Z, X - X.mean(axis=0), o2, o2["_mol"], nao)
        rep = o2.get("dipole")
        if rep is not None:
            # auxiliary evidence only: agreement of the independent dipole with the reported one (a.u. -> e A)
            upd("aux_dipole_indep_vs_reported", np.abs(mu - rep[0] * A0).max(), 1e-3 * max(0.05, float(np.linalg.norm(mu))))
        mus.append(float(np.linalg.norm(mu)) + (D_ATOM_MU * sum(1 for z in Z if 13 <= z <= 17) if method == "PM6" else 0.0))
        # Klopman-Ohno monopole damping: k/sqrt(R^2+(rho_A+rho_B)^2) = k/R - k (rho_A+rho_B)^2/(2R^3) + ...; summed over the
        # atom pairs of two neutral fragments the R^-3 part is  -k (sum_A q_A rho_A)(sum_B q_B rho_B)/R^3  (isotropic):
        # a genuine R^-3 term of the NDDO model on top of the dipole-dipole one.  rho0 = e^2/(2 g_ss) in A.
        gss = o2["_mol"].parameters["g_ss"].detach().numpy()
        rho0 = K_E / (2.0 * gss)
        kos.append(abs(float((o2["q"][0][:len(Z)] * rho0).sum())))
        rhomax = max(rhomax, float(rho0.max()))
    homo = []
    obs_rows = []
    njudged = 0
    with _ParserTap() as tap:
        for R, cur in zip(Rs, placed):
            iso = []
            for (Z, X) in cur:
                iso.append(run.single_point(Z, X, sett))
            Z, X, fid, lid = _merge(cur)
            calls0 = tap.calls
            ab = run.single_point(Z, X, sett)
            N = len(Z)
            # ---- pair list with the default cutoff --------------------------------------------------------
            if tap.calls > calls0 and tap.last is not None:
                out, cut = tap.last
                cnt("parser_calls_default_cutoff", tap.calls - calls0)
                npairs = int(out[-4].numel()) if out[-4] is not None else -1     # idxi
                upd("pairs_default_cutoff_complete", abs(npairs - N * (N - 1) // 2) * 2.0, 1.0)
                ref = parser_reference([Z], [X], cutoff=None)
                probs = parser_compare(out, ref)
                if npairs != N * (N - 1) // 2 or probs:
                    viol.append({"clause": "default-cutoff-pair-list-incomplete", "mech": None,
                                 "detail": {"R": R, "pairs": npairs, "expected": N * (N - 1) // 2, "problems": probs,
                                            "cutoff_in_force": cut, "case": case}})
            if bool(ab["notconverged"][0]) or any(bool(o["notconverged"][0]) for o in iso):
                cnt("separations_not_converged")
                continue
            # effective distance: smallest inter-fragment atom distance
            Dm = np.linalg.norm(X[:, None, :] - X[None, :, :], axis=-1)
            inter = fid[:, None] != fid[None, :]
            Reff = float(Dm[inter].min())
            hi = 1.0 + L_HIGHER / Reff
            # bounds -----------------------------------------------------------------------------------------
            sum_mumu = sum(mus[a] * mus[b] for a in range(nfr) for b in range(a + 1, nfr))
            npair = nfr * (nfr - 1) // 2
            sum_ko = sum(kos[a] * kos[b] for a in range(nfr) for b in range(a + 1, nfr))
            bE = ALLOW * ((2 * K_E * sum_mumu + K_E * sum_ko) * hi / Reff ** 3 + npair * 6 * K_E * THETA_MAX ** 2 / Reff ** 5
                          + npair * 3 * K_E * max(mus) * THETA_MAX / Reff ** 4) + FLOOR_E
            pot = K_E * max(mus) * hi / Reff ** 2 + K_E * (THETA_MAX + rhomax * max(kos)) / Reff ** 3
            bemo = ALLOW * (nfr - 1) * pot + FLOOR_EMO
            bFs, bqs = [], []
            for f in range(nfr):
                mu_o = sum(mus[o] for o in range(nfr) if o != f)
                field = 2 * K_E * mu_o * hi / Reff ** 3 + (nfr - 1) * 3 * K_E * THETA_MAX / Reff ** 4     # V/A
                # force change of atom i in a field E: (d mu / d x_i) E, i.e. the atomic polar tensor (|APT| <= Q_APT e allowed;
                # semiempirical values reach 2-3 e for the central atoms of CO2 / N2O), plus 3 A / R for the field gradient
                ko_field = 3 * K_E * rhomax * sum(kos[o] for o in range(nfr) if o != f) / Reff ** 4
                field += ko_field
                bFs.append(ALLOW * Q_APT * (field * (1.0 + 3.0 / Reff)) + FLOOR_F)
                bqs.append(ALLOW * KAPPA_Q * field + FLOOR_Q)

            def deviations(out):
                """-> dict name -> (value, bound) of the worst ratio per quantity"""
                d = {"dE": (abs(float(out["Etot"][0]) - sum(float(o["Etot"][0]) for o in iso)), bE)}
                wF = wq = (0.0, 1.0)
                for f in range(nfr):
                    sel = fid == f
                    dF_f = float(np.abs(out["force"][0][sel] - iso[f]["force"][0]).max())
                    dq_f = float(np.abs(out["q"][0][sel] - iso[f]["q"][0]).max())
                    # `not (x < y)`: a NaN deviation always becomes the worst one
                    if not (dF_f / bFs[f] < wF[0] / wF[1]):
                        wF = (dF_f, bFs[f])
                    if not (dq_f / bqs[f] < wq[0] / wq[1]):
                        wq = (dq_f, bqs[f])
                d["dF"], d["dq"] = wF, wq
                eu = np.sort(np.concatenate([o["e_mo"][0][:_norb_of(zz, method)] for o, (zz, _) in zip(iso, cur)]))
                ed = np.sort(out["e_mo"][0][:len(eu)])
                d["de_mo"] = (float(np.abs(eu - ed).max()), bemo)
                return d

            dev = deviations(ab)
            dE = float(ab["Etot"][0]) - sum(float(o["Etot"][0]) for o in iso)
            row = {"R": R, "Reff": Reff, "dE": dE, "dE_R3": dE * R ** 3, "bound_dE": bE, "dF": dev["dF"][0], "dq": dev["dq"][0],
                   "de_mo": dev["de_mo"][0]}
            obs_rows.append(row)
            cells.add("R=%d" % R)
            if R < R_MIN_JUDGED:
                cnt("separations_recorded_only")
                continue
            cnt("separations_judged")
            names = {"dE": "dE_vs_leading_multipole", "dF": "dF_vs_dipole_field", "dq": "dq_vs_dipole_field",
                     "de_mo": "de_mo_vs_dipole_potential"}
            bad = {k: [v, b] for k, (v, b) in dev.items() if not (v <= b)}          # NaN violates
            mech = None
            if bad:
                # same dimer started from the superposition of the isolated fragment densities: decides whether the
                # Hamiltonian is non-additive (mech None) or the cold-start SCF landed on another stationary state
                warm = run.single_point(Z, X, sett, P0=_block_density(fid, lid, iso, nao))
                cnt("warm_start_reruns")
                if not bool(warm["notconverged"][0]):
                    wdev = deviations(warm)
                    if all(v <= b for v, b in wdev.values()):
                        # listed mechanism only if it is specific to the cold-start Pulay path: the same dimer
                        # started cold with the adaptive solver must be additive too (or truthfully flagged)
                        alt = run.single_point(Z, X, _settings(method, conv=(1,)))
                        cnt("cold_adaptive_reruns")
                        if bool(alt["notconverged"][0]) or all(v <= b for v, b in deviations(alt).values()):
                            mech = MECH_COLD
                        dev_for_margin = wdev
                    else:
                        dev_for_margin = dev
                else:
                    dev_for_margin = dev
                qfrag = [float(ab["q"][0][fid == f].sum()) for f in range(nfr)]
                viol.append({"clause": "far-fragments-not-additive", "mech": mech,
                             "detail": {"R": R, "Reff": Reff, "observed_vs_bound": bad, "dipoles_eA": mus, "ko_pseudo_dipoles_eA": kos,
                                        "fragment_net_charges_in_the_returned_state": qfrag,
                                        "warm_start_holds": mech is not None, "case": case}})
            else:
                dev_for_margin = dev
            if not (bad and mech is None):
                njudged += 1 if R >= 50 else 0
            for k, (v, b) in dev_for_margin.items():
                upd(names[k], v, b)
        # ---- finite cutoffs ------------------------------------------------------------------------------------
        for c in case["cutoffs"]:
            settc = _settings(method, cutoff=c)
            done_energy = 0
            for R, cur in zip(Rs, placed):
                Z, X, fid, lid = _merge(cur)
                Dm = np.linalg.norm(X[:, None, :] - X[None, :, :], axis=-1)
                inter = fid[:, None] != fid[None, :]
                if np.abs(Dm[np.triu_indices(len(Z), 1)] - c).min() < 1e-6:
                    continue                                    # tie with the cutoff: not judged
                all_cut = bool(Dm[inter].min() > c)
                intra_ok = bool((Dm[~inter]).max() < c)
                calls0 = tap.calls
                if all_cut and intra_ok and done_energy < 2:
                    ab = run.single_point(Z, X, settc)
                    iso = [run.single_point(zz, xx, settc) for zz, xx in cur]
                    if not (bool(ab["notconverged"][0]) or any(bool(o["notconverged"][0]) for o in iso)):
                        dE = float(ab["Etot"][0]) - sum(float(o["Etot"][0]) for o in iso)
                        cnt("cut_dimers_judged")
                        done_energy += 1
                        cells.add("cutoff=%g/all-inter-pairs-cut" % c)
                        mech = None
                        dE_m = dE
                        if not (abs(dE) <= TOL_CUT):
                            warm = run.single_point(Z, X, settc, P0=_block_density(fid, lid, iso, nao))
                            cnt("warm_start_reruns")
                            dE_w = float(warm["Etot"][0]) - sum(float(o["Etot"][0]) for o in iso)
                            if not bool(warm["notconverged"][0]) and abs(dE_w) <= TOL_CUT:
                                mech, dE_m = MECH_COLD, dE_w
                            viol.append({"clause": "energy-not-additive-with-all-inter-fragment-pairs-cut", "mech": mech,
                                         "detail": {"R": R, "cutoff": c, "dE": dE, "dE_warm_start": dE_w, "case": case}})
                        upd("dE_all_inter_pairs_cut", abs(dE_m), TOL_CUT)
                    # parser output of the dimer construction (first Parser call after calls0 is the dimer's)
                    with run.quiet():
                        run.build(Z, X, settc)
                else:
                    with run.quiet():
                        run.build(Z, X, settc)               # Molecule construction only: Parser.forward runs
                if tap.calls > calls0 and tap.last is not None:
                    out, cut = tap.last
                    cnt("parser_calls_finite_cutoff", tap.calls - calls0)
                    ref_all = parser_reference([Z], [X], cutoff=None)
                    ref = parser_reference([Z], [X], cutoff=c)
                    ref["all_pairs"] = ref_all["pairs"]
                    probs = parser_compare(out, ref, near_cutoff=(c, 1e-6))
                    if abs(cut - c) > 0:
                        probs.append("cutoff in force %r != requested %r" % (cut, c))
                    upd("finite_cutoff_pair_list_exact", 2.0 if probs else 0.0, 1.0)
                    cells.add("cutoff=%g/%s" % (c, "all-cut" if all_cut else ("none-cut" if len(ref["pairs"]) == len(ref_all["pairs"]) else "partly-cut")))
                    if probs:
                        viol.append({"clause": "finite-cutoff-pair-list-wrong", "mech": None,
                                     "detail": {"R": R, "cutoff": c, "problems": probs, "pairs_listed": int(out[-4].numel()),
                                                "pairs_expected": len(ref["pairs"]), "case": case}})
    nontrivial = njudged >= 4
    return {"nontrivial": nontrivial, "violations": viol, "margins": margins, "monitors": mon, "cells": sorted(cells),
            "obs": {"fragments": case["frags"], "dipoles_eA": mus, "ko_pseudo_dipoles_eA": kos, "rows": obs_rows[:8], "worst": margins}}


def _run_parser(case):
    from vlib import run
    from vlib.mon_c05 import parser_compare, parser_reference

    mols = []
    for s in case["systems"]:
        placed = _place(s["frags"], s["seed"], [s["R"]])[0] if len(s["frags"]) <= 3 else None
        Z, X, fid, lid = _merge(placed)
        mols.append((Z, X))
    g = np.random.default_rng(case["seed"])
    S, C = gen.pad_batch(mols, extra_pad=case["pad"], pad_value=case["padval"], g=g)
    c = case["cutoff"]
    sett = _settings(case["method"], cutoff=c)
    viol, mon, margins = [], {}, {}
    with _ParserTap() as tap:
        with run.quiet():
            run.build(S, C, sett)
        if tap.calls == 0 or tap.last is None:
            return {"inconclusive": "Parser.forward was not reached by Molecule construction"}
        out, cut = tap.last
    ref_all = parser_reference(S, C, cutoff=None)
    ref = parser_reference(S, C, cutoff=c)
    ref["all_pairs"] = ref_all["pairs"]
    probs = parser_compare(out, ref, near_cutoff=(c, 1e-6) if c is not None else None)
    mon["parser_batches_judged"] = 1
    mon["parser_pairs_judged"] = len(ref["pairs"])
    if c is None:
        n_expected = sum(len(z) * (len(z) - 1) // 2 for z, _ in mols)
        if int(out[-4].numel()) != n_expected:
            probs.append("default cutoff: %d pairs listed, N(N-1)/2 summed over molecules = %d" % (int(out[-4].numel()), n_expected))
        if cut < 1e9:
            probs.append("default cutoff in force is finite: %r" % cut)
    margins["parser_output_exact"] = 2.0 if probs else 0.0
    if probs:
        viol.append({"clause": "parser-output-differs-from-independent-enumeration", "mech": None,
                     "detail": {"problems": probs, "cutoff": c, "cutoff_in_force": cut, "case": case}})
    cells = ["parser/cutoff=%s" % c, "parser/pad=+%d" % case["pad"], "parser/padval=%s" % case["padval"], "parser/nsys=%d" % len(mols)]
    return {"nontrivial": True, "violations": viol, "margins": margins, "monitors": mon, "cells": cells,
            "obs": {"systems": [s["frags"] for s in case["systems"]], "pairs": len(ref["pairs"]), "all_pairs": len(ref_all["pairs"]),
                    "cutoff": c}}


TOL_DIR_E = 2e-8         # eV: spread of E_int over the six lab directions (main shows <= 1e-12)
TOL_DIR_F = 1e-7         # eV/A: spread of the net force on a fragment (magnitude) over the six directions
XPOLE_CONE = 4.6e-4      # rad: open finding pair-on-x-pole (heavy-atom pair this close to +-x): such a direction set is skipped


def _run_dir(case):
    """E_int = E(AB) - E(A) - E(B) and |net force on each fragment| of one rigid supersystem whose separation vector is put
    along +-x, +-y, +-z (random spin about the axis each time): both are scalars of the rigid body, so they must not depend
    on the lab direction."""
    from vlib import run

    method = case["method"]
    g = np.random.default_rng(case["seed"])
    frs = [_frag(n, g) for n in case["frags"]]
    d0 = g.normal(size=3)
    d0 /= np.linalg.norm(d0)
    base = [(frs[0][0], frs[0][1]), (frs[1][0], frs[1][1] + case["R"] * d0)]
    sett = run.settings(method, eps=1e-10, converger=(2,))
    mon, viol, margins, cells = {}, [], {}, ["dir/%s/R=%g" % (method, case["R"])]
    Es, Fs, used = [], [], []
    for ax, t in gen.AXES.items():
        Rm = gen.rot_a_to_b(d0, np.array(t, float))
        ang = g.uniform(0, 2 * np.pi)
        tt = np.array(t, float)
        K = np.array([[0, -tt[2], tt[1]], [tt[2], 0, -tt[0]], [-tt[1], tt[0], 0]])
        Rm = (np.eye(3) + np.sin(ang) * K + (1 - np.cos(ang)) * K @ K) @ Rm
        cur = [(Z, X @ Rm.T) for Z, X in base]
        Z, X, fid, lid = _merge(cur)
        # stay outside the open x-pole finding: no heavy-atom pair within its cone of +-x
        near = False
        for i in range(len(Z)):
            for j in range(i + 1, len(Z)):
                if Z[i] > 1 and Z[j] > 1:
                    v = X[j] - X[i]
                    c = abs(v[0]) / np.linalg.norm(v)
                    if np.arccos(min(1.0, c)) < 2 * XPOLE_CONE:
                        near = True
        if near:
            mon["direction_skipped_pair_in_x_pole_cone"] = mon.get("direction_skipped_pair_in_x_pole_cone", 0) + 1
            continue
        ab = run.single_point(Z, X, sett)
        iso = [run.single_point(zz, xx, sett) for zz, xx in cur]
        if bool(ab["notconverged"][0]) or any(bool(o["notconverged"][0]) for o in iso):
            mon["direction_not_converged"] = mon.get("direction_not_converged", 0) + 1
            continue
        Es.append(float(ab["Etot"][0]) - sum(float(o["Etot"][0]) for o in iso))
        Fs.append([float(np.linalg.norm(ab["force"][0][fid == f].sum(axis=0))) for f in range(2)])
        used.append(ax)
    if len(Es) < 4 or not any(a in used for a in ("+x", "-x")):
        return {"ineligible": "fewer than 4 usable directions or no x direction", "monitors": mon}
    mon["direction_sets_compared"] = 1
    Es, Fs = np.array(Es), np.array(Fs)
    # a solver-path flip to another SCF stationary point is C04's matter: E_int of that size is not a direction effect
    spreadE = float(np.max(Es) - np.min(Es)) if np.all(np.isfinite(Es)) else float("nan")
    spreadF = float(np.max(Fs.max(axis=0) - Fs.min(axis=0))) if np.all(np.isfinite(Fs)) else float("nan")
    margins["dir_Eint_spread"] = spreadE / TOL_DIR_E if spreadE == spreadE else float("inf")
    margins["dir_net_force_spread"] = spreadF / TOL_DIR_F if spreadF == spreadF else float("inf")
    bad = {}
    if not (spreadE <= TOL_DIR_E):
        bad["E_int"] = dict(zip(used, Es.tolist()))
    if not (spreadF <= TOL_DIR_F):
        bad["net_fragment_force"] = dict(zip(used, Fs.tolist()))
    if bad and np.all(np.isfinite(Es)) and spreadE > 1e-3:
        return {"ineligible": "E_int differs by > 1e-3 eV between directions: another SCF stationary point (C04 domain)", "monitors": mon}
    if bad:
        viol.append({"clause": "interaction-depends-on-lab-direction", "mech": None,
                     "detail": {"spread_E_int": spreadE, "spread_net_force": spreadF, "values": bad, "case": case}})
    return {"nontrivial": True, "violations": viol, "margins": margins, "monitors": mon, "cells": cells,
            "obs": {"frags": case["frags"], "R": case["R"], "directions": used, "E_int": Es.tolist(), "spread_E": spreadE, "spread_F": spreadF}}


def run_case(case):
    if case.get("kind") == "parser":
        return _run_parser(case)
    if case.get("kind") == "dir":
        return _run_dir(case)
    return _run_frag(case)


def summarize(cases, results, report):
    return {"bounds": {"dE": "5*((2k sum mu_a mu_b + k sum S_a S_b) (1+10/Reff)/Reff^3 + 6k Theta^2/Reff^5 + 3k mu Theta/Reff^4) + 2e-11 eV",
                       "dF": "5*Q_APT*field*(1+3/Reff) + 2e-9, field = 2k mu_other (1+10/Reff)/Reff^3 + 3k (Theta + rho S)/Reff^4",
                       "KO": "S_F = |sum_A q_A rho0_A|, rho0 = e^2/(2 g_ss): the dE bound carries k S_a S_b (1+10/Reff)/Reff^3 in addition",
                       "dq": "5*kappa_q*field + 2e-10", "de_mo": "5*(k mu (1+10/Reff)/Reff^2 + k Theta/Reff^3) + 2e-9",
                       "k": K_E, "Theta_max": THETA_MAX, "kappa_q": KAPPA_Q, "judged_from_R": R_MIN_JUDGED},
            "case_kinds": {k: sum(1 for c in cases if c.get("kind") == k) for k in ("frag", "parser")}}
