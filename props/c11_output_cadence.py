"""C11 — every output stream is written at exactly its own requested cadence.

Workload: real MD engines (BOMD on a zero-padded batch with molecule-id subsets, Langevin, XL-BOMD,
surface hopping) run in forked child processes under cadence tuples for the eight streams
(data, coordinates, velocities, forces, xyz, nonadiabatic, print, checkpoint): a pairwise covering
array over the lattice {0,1,2,3,4,5,7,N,N+3} plus named hostile tuples, fresh runs and runs that
are hard-killed once and resumed.  Oracle: offline checker over the artefacts of the run (HDF5 files,
XYZ file, captured stdout, event log of a wrapper on save_checkpoint) against (i) the arithmetic
definition [0] + multiples of the stream's own cadence <= N and (ii) a cadence-1 reference run with the
same seed."""
import itertools
import os

import numpy as np

from vlib import env, gen

PROPERTY = "C11"
RULE = ("case = (engine, molecules, molecule-id subset, run length N, seed) with a shard of cadence tuples "
        "(data, coordinates, velocities, forces, xyz, nonadiabatic, print, checkpoint) taken from a pairwise covering "
        "array over {0,1,2,3,4,5,7,N,N+3}^8 plus named hostile tuples, each run fresh or hard-killed once and resumed; "
        "a case is non-trivial when at least one tuple with >= 2 distinct positive cadences ran to completion and "
        "was compared stream by stream with the cadence-1 reference run; distinct by SHA-1 of the case")
ASSUMPTIONS = [
    "float64 CPU, one thread; run and reference execute the same operation sequence, so stored values are compared "
    "to 1e-9 (bitwise equality is measured and reported, not demanded)",
    "the screen stream and the checkpoint stream have no step-0 snapshot (a checkpoint of step 0 or a thermo line "
    "before the first step is not meaningful): they must appear exactly at the positive multiples of their cadence",
    "the nonadiabatic stream exists only for the surface-hopping engine; for the other engines its cadence is not "
    "passed to the engine",
    "screen values are compared at the precision they are printed with (T %8.2f, energies %e)",
    "XYZ coordinates are compared at their printed precision (5 decimals)",
]
REQUIRED_MONITORS = ["h5_streams_checked", "h5_rows_compared", "xyz_frames_checked", "thermo_lines_checked",
                     "checkpoint_events_checked", "absent_streams_checked", "resumed_runs_checked",
                     "static_metadata_checked", "fssh_invariant_rows_checked", "tdm_streams_checked",
                     "kinetic_crosscheck_steps_with_velocity_control"]
CASE_TIMEOUT = 900.0
# budgets are sized for 16 workers; with fewer workers (VERIF_NCPU) the same work needs proportionally longer
_SCALE = max(1.0, 16.0 / max(1, env.NCPU)) * float(os.environ.get("VERIF_BUDGET_SCALE", "1"))   # >1 on a loaded machine
BUDGET_S = {"quick": 900 * _SCALE, "thorough": 1700 * _SCALE}
MIN_NONTRIVIAL = 4

STREAMS = ("data", "coordinates", "velocities", "forces", "xyz", "nonadiabatic", "print", "checkpoint", "tdm")
EXCITED = ("fssh", "fssh_damped", "cis_bomd", "cis_xl")     # engines that have a transition-density stream
VEC = ("coordinates", "velocities", "forces")
TOL = 1e-9

ENGINE_SETUPS = {
    # name: (engine, mols, molid choices)
    "bomd_batch": ("bomd", ["H2O", "H2"], [[0, 1], [1], [0], [1, 0]]),
    "langevin": ("langevin", ["H2O"], [[0]]),
    "xl": ("xl", ["H2O"], [[0]]),
    "fssh": ("fssh", ["H2O"], [[0]]),
    "langevin_batch": ("langevin", ["H2", "H2O"], [[0, 1], [1]]),
    "xl_batch": ("xl", ["H2O", "H2"], [[0, 1], [0]]),
    "ksa": ("ksa", ["H2O"], [[0]]),
    "cis_bomd": ("cis_bomd", ["H2O"], [[0]]),
    # velocity-control options of run(): the values written for a step must be those AFTER that step's correction
    "bomd_eshift": ("bomd", ["H2O"], [[0]]),
    "bomd_scalevel": ("bomd", ["H2O", "H2"], [[0, 1]]),
}
RUN_OPTS = {"bomd_eshift": {"control_energy_shift": True}, "bomd_scalevel": {"scale_vel": [2, 450.0]}}


# ---------------------------------------------------------------------------------------
# workload
# ---------------------------------------------------------------------------------------
def lattice(N):
    return [0, 1, 2, 3, 4, 5, 7, "N", "N+3"]


def _val(v, N):
    return N if v == "N" else (N + 3 if v == "N+3" else int(v))


def covering_array(g, nfac=9, values=9):
    """Greedy pairwise covering array over value *indices*.  Every ordered pair of values of every two
    factors appears together in at least one row."""
    unc = set()
    for f1, f2 in itertools.combinations(range(nfac), 2):
        for a in range(values):
            for b in range(values):
                unc.add((f1, a, f2, b))
    rows = []
    while unc:
        best, best_cov = None, -1
        pool = sorted(unc)
        for _ in range(30):
            # seed the candidate with one uncovered pair, fill the rest greedily in random factor order
            f1, a, f2, b = pool[int(g.integers(0, len(pool)))]
            row = [None] * nfac
            row[f1], row[f2] = a, b
            order = [f for f in g.permutation(nfac) if row[f] is None]
            for f in order:
                scores = []
                for v in g.permutation(values):
                    sc = 0
                    for f0 in range(nfac):
                        if row[f0] is None or f0 == f:
                            continue
                        key = (f0, row[f0], f, v) if f0 < f else (f, v, f0, row[f0])
                        sc += key in unc
                    scores.append((sc, int(v)))
                row[f] = max(scores)[1]
            cov = sum(1 for x, y in itertools.combinations(range(nfac), 2) if (x, row[x], y, row[y]) in unc)
            if cov > best_cov:
                best, best_cov = row, cov
        rows.append(best)
        for x, y in itertools.combinations(range(nfac), 2):
            unc.discard((x, best[x], y, best[y]))
    return rows


def hostile_tuples(N):
    """name -> dict(stream -> cadence)"""
    def t(**kw):
        d = dict(data=1, coordinates=1, velocities=1, forces=1, xyz=1, nonadiabatic=1, print=1, checkpoint=0, tdm=1)
        d.update(kw)
        return d
    nd = [c for c in (2, 3, 4, 5, 7) if N % c]          # non-divisors of N
    nd = (nd + [N - 1, N - 2])[:3]
    out = {
        "coprime-2-3-5": t(data=7, coordinates=2, velocities=3, forces=5, xyz=3, nonadiabatic=2, print=5, checkpoint=2, tdm=3),
        "coprime-5-3-2": t(data=3, coordinates=5, velocities=3, forces=2, xyz=7, nonadiabatic=3, print=2, checkpoint=3, tdm=2),
        "coprime-3-2-7": t(data=2, coordinates=3, velocities=2, forces=7, xyz=5, nonadiabatic=5, print=3, checkpoint=5, tdm=3),
        "non-divisors": t(data=nd[0], coordinates=nd[1], velocities=nd[2], forces=nd[0], xyz=nd[1], nonadiabatic=nd[2],
                          print=nd[0], checkpoint=nd[1], tdm=nd[2]),
        "larger-than-run": t(data=N + 3, coordinates=N + 1, velocities=2 * N, forces=N + 3, xyz=N + 1,
                             nonadiabatic=N + 2, print=N + 3, checkpoint=N + 1, tdm=N + 2),
        "equal-to-run": t(data=N, coordinates=N, velocities=N, forces=N, xyz=N, nonadiabatic=N, print=N, checkpoint=N, tdm=N),
        "one-larger-two-small": t(coordinates=N + 3, velocities=1, forces=2, data=N - 1, xyz=N - 1, checkpoint=N - 1),
        "all-zero": {s: 0 for s in STREAMS},
        "only-checkpoint": dict({s: 0 for s in STREAMS}, checkpoint=2),
        "multiples-4-2-1": t(data=4, coordinates=4, velocities=2, forces=1, xyz=4, nonadiabatic=4, print=2, checkpoint=4, tdm=2),
        # orbital output switched on (mo/homo_lumo_gap rows in the data stream)
        "write-mo": dict(t(data=2, xyz=0, print=0), write_mo=True),
    }
    for s in STREAMS:   # a zero in every position, everything else pairwise different small values
        base = dict(data=2, coordinates=3, velocities=1, forces=2, xyz=3, nonadiabatic=2, print=3, checkpoint=2, tdm=3)
        base[s] = 0
        out["zero-in-" + s] = base
    return out


def gen_cases(tier, seed):
    g = gen.rng("C11", tier)
    arr = covering_array(g)
    lat = lattice(0)
    cases = []

    def mk(setup, N, molid, tuples, tag):
        eng, mols, _ = ENGINE_SETUPS[setup]
        return {"setup": setup, "engine": eng, "mols": mols, "molid": molid, "N": N, "seed": int(g.integers(0, 1000)),
                "geom_seed": int(g.integers(0, 10 ** 6)), "tuples": tuples, "tag": tag,
                "run_opts": RUN_OPTS.get(setup, {})}

    if tier == "quick":
        setups = ["bomd_batch", "langevin", "xl", "fssh"]
        Ns = [7, 12]
        shard = 5
        n_resumed = 1
    else:
        setups = ["bomd_batch", "langevin", "xl", "fssh", "langevin_batch", "xl_batch", "ksa", "cis_bomd"]
        Ns = [7, 12, 30]
        shard = 6
        n_resumed = 3
    # --- covering array: quick = each row on one engine (round robin); thorough = every row on the four
    #     main engines, plus round robin on the others
    buckets = {}
    skip = int(g.integers(0, 3))
    for i, row in enumerate(arr):
        if tier == "quick":
            # quick plays two thirds of the array (which third is left out rotates with the seed), one engine per
            # row, N = 12 for every fourth group of rows; the complete array on every engine is the thorough tier
            if (i + skip) % 3 == 0:
                continue
            targets = [(setups[i % len(setups)], 12 if (i // len(setups)) % 4 == 0 else 7)]
        else:
            targets = [(s, Ns[(i + j) % 2]) for j, s in enumerate(setups[:4])]
            targets.append((setups[4 + i % 4], Ns[i % 2]))
            if i % 12 == 0:
                targets.append((setups[i // 12 % 3], 30))
        for setup, N in targets:
            tup = {s: _val(lat[row[k]], N) for k, s in enumerate(STREAMS)}
            buckets.setdefault((setup, N), []).append({"name": "ca%03d" % i, "cad": tup, "resume": None})
    # --- hostile tuples on every engine
    for setup in setups:
        for N in (Ns[:1] if tier == "quick" else Ns[:2]):
            for name, tup in hostile_tuples(N).items():
                if tier == "quick":
                    if name == "coprime-2-3-5":
                        continue           # runs first, in the sentinel case of this engine (below)
                    core = ("non-divisors", "larger-than-run", "all-zero", "equal-to-run", "one-larger-two-small")
                    if setup == "fssh" and name not in core + ("zero-in-nonadiabatic", "zero-in-data", "zero-in-tdm",
                                                               "write-mo"):
                        continue
                    if setup in ("langevin", "xl") and name not in core:
                        continue
                tup = dict(tup)
                wm = bool(tup.pop("write_mo", False))
                ent = {"name": name, "cad": tup, "resume": None}
                if wm:
                    ent["write_mo"] = True
                buckets.setdefault((setup, N), []).append(ent)
    # --- thorough: random fill-up over the whole range 0..N+3 (values outside the covering-array lattice)
    if tier == "thorough":
        for setup in setups[:4]:
            for N in Ns[:2]:
                for j in range(12):
                    tup = {s: int(g.integers(0, N + 4)) for s in STREAMS}
                    buckets.setdefault((setup, N), []).append({"name": "rnd%02d" % j, "cad": tup, "resume": None})
    # --- resumed variants: tuples with a checkpoint cadence in 1..N-1 are also hard-killed once after a step
    #     that is not a checkpoint step (when possible) and resumed
    for (setup, N), lst in sorted(buckets.items()):
        elig = [t for t in lst if 0 < t["cad"]["checkpoint"] < N]
        idx = g.permutation(len(elig))[: n_resumed + (2 if setup in ("bomd_batch", "fssh") and tier != "quick" else 0)]
        for j in idx:
            t = elig[int(j)]
            c = t["cad"]["checkpoint"]
            # kill after integrator step s returned (none of step s's output written yet); prefer an s whose
            # predecessor is not a checkpoint step, so that rows written after the checkpoint must be overwritten
            cands = [s for s in range(c + 1, N + 1) if (s - 1) % c] or list(range(c + 1, N + 1))
            kill_after = int(cands[int(g.integers(0, len(cands)))])
            lst.append({"name": t["name"] + "+resume", "cad": dict(t["cad"]), "resume": {"after_step": kill_after}})
        # the row-11 witness of DESIGN section 7, resumed as well
        if setup == "bomd_batch" and not (tier == "quick" and N == 7):
            lst.append({"name": "coprime-2-3-5+resume", "cad": hostile_tuples(N)["coprime-2-3-5"],
                        "resume": {"after_step": 4}})
    # --- shard
    for (setup, N), lst in sorted(buckets.items()):
        _, _, molids = ENGINE_SETUPS[setup]
        order = [int(x) for x in g.permutation(len(lst))]
        for k in range(0, len(order), shard):
            tuples = [lst[j] for j in order[k:k + shard]]
            molid = molids[(k // shard) % len(molids)]
            cases.append(mk(setup, N, molid, tuples, "%s/N%d/%d" % (setup, N, k // shard)))
    cost = {"fssh": 3.0, "cis_bomd": 1.6, "ksa": 1.3, "xl": 1.2, "xl_batch": 1.4, "langevin_batch": 1.3}
    cases.sort(key=lambda c: -cost.get(c["setup"], 1.0) * c["N"] * len(c["tuples"]))
    # --- sentinels: one small case per engine with the DESIGN section 7 row 11 witness, fresh and killed + resumed
    #     (kill after integrator step 4: the checkpoint of step 2 is resumed and the rows of step 3 are overwritten).
    #     They run first, so every REQUIRED_MONITOR has seen events even if a time budget cuts the run short.
    first = []
    for setup in (setups[:4] if tier == "quick" else []):
        _, _, molids = ENGINE_SETUPS[setup]
        cad = hostile_tuples(7)["coprime-2-3-5"]
        first.append(mk(setup, 7, molids[0], [{"name": "coprime-2-3-5", "cad": dict(cad), "resume": None},
                                              {"name": "coprime-2-3-5+resume", "cad": dict(cad),
                                               "resume": {"after_step": 4}}], "%s/N7/sentinel" % setup))
    # --- resume residues: enumerate, rather than sample, the relation between (xyz cadence, checkpoint cadence, number
    #     of steps the first process completed past its last checkpoint): xyz in {1,2}, checkpoint in {2,3}, resumed
    #     checkpoint = first or second one, 1..c-1 completed steps past it - such that the frames labelled checkpoint+1
    #     and checkpoint+2 are (or are not) due.  Crash by exception (frames past the checkpoint are on disk) in
    #     quick; both crash styles and all four engines in thorough.
    combos = []
    for xyz in (1, 2):
        for c in (2, 3):
            for r in (c, 2 * c):
                for off in range(1, c):
                    combos.append((xyz, c, r, off))
    if tier == "quick":
        keep = {(1, 3, 3, 2), (1, 3, 6, 1), (1, 2, 2, 1), (2, 3, 3, 1), (2, 3, 3, 2), (2, 3, 6, 2)}
        combos = [x for x in combos if x in keep]
    res_cases = []
    for setup in (["bomd_batch"] if tier == "quick" else setups[:4]):
        _, _, molids = ENGINE_SETUPS[setup]
        tuples = []
        for xyz, c, r, off in combos:
            cad = dict(data=2, coordinates=3, velocities=1, forces=2, xyz=xyz, nonadiabatic=2, print=2, checkpoint=c,
                       tdm=2)
            for mode in (("raise",) if tier == "quick" else ("raise", "exit")):
                tuples.append({"name": "residue-xyz%d-ck%d-r%d+%d-%s" % (xyz, c, r, off, mode), "cad": cad,
                               "resume": {"after_step": r + off + 1, "mode": mode}})
        for k in range(0, len(tuples), 6):
            res_cases.append(mk(setup, 9, molids[0], tuples[k:k + 6], "%s/N9/resume-residues/%d" % (setup, k // 6)))
    # --- velocity-control cells (both tiers): streams that meet at every step, and only occasionally
    vc = []
    for setup in ("bomd_eshift", "bomd_scalevel"):
        _, _, molids = ENGINE_SETUPS[setup]
        tl = [{"name": "vc-all-1", "cad": dict(data=1, coordinates=1, velocities=1, forces=0, xyz=1, nonadiabatic=0,
                                                print=1, checkpoint=0, tdm=0), "resume": None},
              {"name": "vc-meet-2-3", "cad": dict(data=2, coordinates=0, velocities=3, forces=0, xyz=2, nonadiabatic=0,
                                                   print=2, checkpoint=0, tdm=0), "resume": None},
              {"name": "vc-meet-3-2+resume", "cad": dict(data=3, coordinates=5, velocities=2, forces=0, xyz=3,
                                                          nonadiabatic=0, print=1, checkpoint=2, tdm=0),
               "resume": {"after_step": 4}}]
        vc.append(mk(setup, 7, molids[0], tl, "%s/N7/velocity-control" % setup))
    return first + vc + res_cases[:1] + cases[:8] + res_cases[1:] + cases[8:]


# ---------------------------------------------------------------------------------------
# worker side
# ---------------------------------------------------------------------------------------
def setup_worker():
    # import everything the forked children need; the worker itself never runs an engine
    import h5py  # noqa: F401
    import torch  # noqa: F401
    import seqm.MolecularDynamics  # noqa: F401
    import seqm.NonadiabaticDynamics  # noqa: F401


def _cfg(case, cad, prefix, molid=None, write_mo=False):
    from vlib import mdio
    return mdio.default_cfg(write_mo=bool(write_mo), **case.get("run_opts", {}), engine=case["engine"], mols=case["mols"], geom_seed=case["geom_seed"],
                            steps=case["N"], seed=case["seed"], molid=list(case["molid"] if molid is None else molid),
                            cad=dict(cad), prefix=prefix, k=3, dt=0.4, scf_eps=1e-8)


def gate_model(cad, N, upto=None, resumed_from=None):
    """What the run loop's outer min-cadence gate on append_vectors leaves in a vector stream of cadence c:
    rows only at the common multiples of c and the smallest positive vector cadence m, stored back to back,
    followed by unwritten rows (label 0).  For a killed + resumed run: rows of steps <= upto from the first
    process, then the resumed process starts at row resumed_from // c + 1 and again stores the gated steps
    back to back.  -> {stream: (labels per row, {step: row})}"""
    pos = [cad[k] for k in VEC if cad[k] > 0]
    if not pos:
        return {}
    m = min(pos)
    out = {}
    for k in VEC:
        c = cad[k]
        if c <= 0:
            continue
        n = N // c + 1
        arr, where = [0] * n, {}
        i = 0
        for s in range(0, (N if upto is None else upto) + 1):
            if s % c == 0 and s % m == 0 and i < n:
                arr[i], where[s] = s, i
                i += 1
        if resumed_from is not None:
            i = resumed_from // c + 1
            for s in range(resumed_from + 1, N + 1):
                if s % c == 0 and s % m == 0 and i < n:
                    arr[i], where[s] = s, i
                    i += 1
        out[k] = (arr, where)
    return out


def _gated_rows(c, m, N, upto=None, resumed_from=None):
    """Row labels of a stream of cadence c that is only written when another cadence m is due as well."""
    n = N // c + 1
    arr, i = [0] * n, 0
    for s in range(0, (N if upto is None else upto) + 1):
        if s % c == 0 and s % m == 0 and i < n:
            arr[i] = s
            i += 1
    if resumed_from is not None:
        i = resumed_from // c + 1
        for s in range(resumed_from + 1, N + 1):
            if s % c == 0 and s % m == 0 and i < n:
                arr[i] = s
                i += 1
    return arr


def classify_tdm(cad, N, problems, resumed_from=None, killed_after=None):
    """The transition-density stream is written from inside append_data only: with data cadence 0 it does not exist,
    otherwise its rows appear only at the common multiples of the data and the tdm cadence, stored back to back and
    followed by unwritten rows.  Returns the mechanism key iff every deviation is in that stream and the observed
    `steps` array is exactly what this model predicts (values of the written rows still those of their labels)."""
    c, m = cad.get("tdm", 0), cad.get("data", 0)
    if c <= 0 or not problems:
        return None
    for p in problems:
        if p.get("stream") != "tdm":
            return None
        if m <= 0:
            if p["what"] != "stream-absent":
                return None
            continue
        if c % m == 0 or p["what"] not in ("steps", "filler-row"):
            return None
        if p["what"] == "steps":
            models = [_gated_rows(c, m, N)] if resumed_from is None else \
                [_gated_rows(c, m, N, upto=resumed_from, resumed_from=resumed_from),
                 _gated_rows(c, m, N, upto=(killed_after or resumed_from) - 1, resumed_from=resumed_from)]
            if p["observed"] not in models:
                return None
    return "tdm-stream-gated-by-data-cadence"


def classify(cad, N, problems, resumed_from=None, killed_after=None):
    """Mechanism classifier over the witness.  Returns the key of DESIGN section 7 row 11 iff all deviations sit
    in vector streams whose cadence is not a multiple of the smallest vector cadence, each deviating stream's
    `steps` array (and each logged row position) is exactly what the outer min-cadence gate predicts, and every
    written row still holds the reference values of the step it is labelled with."""
    if not problems:
        return None
    if all(p.get("stream") == "tdm" for p in problems):
        return classify_tdm(cad, N, problems, resumed_from, killed_after)
    pos = [cad[k] for k in VEC if cad[k] > 0]
    if not pos:
        return None
    m = min(pos)
    models = [gate_model(cad, N)] if resumed_from is None else \
        [gate_model(cad, N, upto=resumed_from, resumed_from=resumed_from),
         gate_model(cad, N, upto=(killed_after or resumed_from) - 1, resumed_from=resumed_from)]
    for p in problems:
        s = p.get("stream")
        if p.get("kind") not in ("h5", "cursor") or s not in VEC or cad[s] % m == 0:
            return None
        if p["what"] not in ("steps", "filler-row", "cursor-invariant"):
            return None
        if p["what"] == "steps" and not any(p["observed"] == gm[s][0] for gm in models):
            return None
        if p["what"] == "cursor-invariant" and not any(gm[s][1].get(p["step"]) == p.get("row") for gm in models):
            return None
    return "vector-streams-gated-by-min-cadence"


def check_run(case, tup, cfg, ref, d, tag, mon, margins, resumed_from=None, stdout_path=None, events=None):
    """Offline checker for one finished run.  -> list of problem dicts."""
    from vlib import mdio
    cad, N = tup["cad"], case["N"]
    probs = []
    eng_na = case["engine"] in ("fssh", "fssh_damped")
    h5_cad = {"data": cad["data"], "coordinates": cad["coordinates"], "velocities": cad["velocities"],
              "forces": cad["forces"], "nonadiabatic": cad["nonadiabatic"] if eng_na else 0,
              "tdm": cad.get("tdm", 0) if case["engine"] in EXCITED else 0}
    # orbital rows are comparable with the reference only when both runs wrote them
    skip_mo = () if (tup.get("write_mo") and case["engine"] in EXCITED) else ("data/mo/",)
    files = mdio.run_files(cfg)
    nmol = len(case["mols"])
    any_h5 = any(v > 0 for v in h5_cad.values())

    def upd(name, r):
        if r != r:          # NaN never becomes a margin silently
            r = float("inf")
        if name not in margins or r > margins[name]:
            margins[name] = r

    for mol in range(nmol):
        key = "%d.h5" % mol
        want = any_h5 and mol in cfg["molid"]
        mon["absent_streams_checked"] += 0 if want else 1
        if (key in files) != want:
            only_tdm = want and all(v <= 0 for k, v in h5_cad.items() if k != "tdm")
            if only_tdm:     # the only stream requested is the transition-density one: report it as that stream absent
                probs.append({"kind": "h5", "what": "stream-absent", "stream": "tdm", "mol": mol, "cadence": h5_cad["tdm"]})
            else:
                probs.append({"kind": "files", "what": "h5-file-" + ("missing" if want else "unexpected"), "mol": mol})
            continue
        if not want:
            continue
        try:
            got = mdio.read_h5(cfg["prefix"] + "." + key)
        except OSError as exc:
            probs.append({"kind": "h5", "what": "unreadable", "mol": mol, "error": str(exc)[:200]})
            continue
        st = mdio.h5_streams(got["datasets"])
        rst = ref["h5"][mol]
        for s, c in h5_cad.items():
            if c <= 0:
                mon["absent_streams_checked"] += 1
                if s in st:
                    probs.append({"kind": "h5", "what": "stream-present-with-cadence-0", "stream": s, "mol": mol,
                                  "rows": int(len(st[s]["steps"]))})
                continue
            if s not in st:
                probs.append({"kind": "h5", "what": "stream-absent", "stream": s, "mol": mol, "cadence": c})
                continue
            if s not in rst:
                probs.append({"kind": "h5", "what": "stream-absent-in-reference", "stream": s, "mol": mol})
                continue
            exp = mdio.due_steps(c, N)
            pr, worst, bitwise, nrows = mdio.compare_stream_to_reference(s, st[s], rst[s], exp, TOL, TOL,
                                                                         skip=skip_mo if s == "data" else ())
            mon["h5_streams_checked"] += 1
            mon["tdm_streams_checked"] += int(s == "tdm")
            mon["h5_rows_compared"] += nrows
            mon["h5_streams_bitwise_equal"] += int(bitwise and not pr)
            if not any(p["what"] == "value" for p in pr):   # a violating ratio is a witness, not a margin
                upd("h5_value_vs_reference", worst)
            for p in pr:
                p.update(kind="h5", mol=mol, cadence=c)
            probs += pr
        extra = set(st) - set(h5_cad)
        if extra:
            probs.append({"kind": "h5", "what": "unexpected-stream", "streams": sorted(extra), "mol": mol})
        # static content, judged against the INPUT of the run (not against another run)
        probs += static_checks(got, cfg, mol, mon)
        probs += kinetic_crosscheck(st, cfg, mol, mon, margins, case)
        if tup.get("write_mo") and "data" in st:
            gap = st["data"]["rows"].get("data/mo/homo_lumo_gap")
            mon["mo_gap_rows_checked"] += 0 if gap is None else int(gap.shape[0])
            if gap is None or gap.shape[0] != len(st["data"]["steps"]) or not bool(np.all(np.isfinite(gap) & (gap > 0))):
                probs.append({"kind": "h5", "what": "mo-gap-rows", "stream": "data", "mol": mol,
                              "shape": None if gap is None else list(gap.shape)})
        if eng_na:
            probs += fssh_invariants(got["datasets"], st, mol, mon, margins)
    # ---- XYZ
    for mol in range(nmol):
        key = "%d.xyz" % mol
        want = cad["xyz"] > 0 and mol in cfg["molid"]
        if (key in files) != want:
            probs.append({"kind": "xyz", "what": "xyz-file-" + ("missing" if want else "unexpected"), "mol": mol})
            continue
        if not want:
            mon["absent_streams_checked"] += 1
            continue
        frames, fp = mdio.read_xyz(cfg["prefix"] + "." + key)
        if fp:
            probs.append({"kind": "xyz", "what": "unparsable", "mol": mol, "problems": fp[:3]})
        S_in, _, _, _ = mdio.geometry(cfg)
        want_sym = [gen.SYM[int(z)] for z in S_in[mol] if z > 0]
        bad_sym = [f["label"] for f in frames if f["sym"] != want_sym]
        if bad_sym:
            probs.append({"kind": "xyz", "what": "symbol-column-vs-input-species", "mol": mol, "frames": bad_sym[:5],
                          "expected": want_sym})
        labels = [f["label"] for f in frames]
        exp = mdio.due_steps(cad["xyz"], N)
        if labels != exp:
            probs.append({"kind": "xyz", "what": "frame-labels", "mol": mol, "observed": labels, "expected": exp,
                          "resumed_from": resumed_from})
        rc = ref["h5"][mol]["coordinates"]
        rd = ref["h5"][mol]["data"]
        for f in frames:
            mon["xyz_frames_checked"] += 1
            if not 0 <= f["label"] <= N:
                continue
            x = rc["rows"]["coordinates/values"][f["label"]]
            e = rd["rows"]["data/thermo/Ek"][f["label"]] + rd["rows"]["data/thermo/Ep"][f["label"]]
            # printed with %15.5f / %12.9f: the deviation in excess of the printing half-width must vanish
            dx = float(np.abs(f["xyz"] - x).max()) if f["xyz"].shape == x.shape else float("inf")
            de = abs(f["E"] - e)
            # NaN policy: a printed frame is text; a non-finite coordinate or energy in it always violates (the excess
            # is then inf), whatever the reference holds
            ex = max(0.0, dx - 5e-6 * (1 + 1e-6)) if np.isfinite(dx) else float("inf")
            ee = max(0.0, de - 5e-10 * (1 + 1e-6)) if np.isfinite(de) else float("inf")
            upd("xyz_coordinates_excess_over_print_rounding", ex / 1e-8)
            upd("xyz_energy_excess_over_print_rounding", ee / (1e-9 + 1e-9 * abs(e)))
            if mdio.exceeds(ex, 1e-8) or mdio.exceeds(ee, 1e-9 + 1e-9 * abs(e)):
                probs.append({"kind": "xyz", "what": "frame-values", "mol": mol, "label": f["label"], "dx": dx, "dE": de})
    # ---- screen
    lines = mdio.read_thermo_lines(stdout_path)
    after = resumed_from or 0
    exp = mdio.due_steps(cad["print"], N, initial=False, after=after) if cfg["molid"] else []
    got_steps = [s for s, _ in lines]
    if cad["print"] <= 0:
        mon["absent_streams_checked"] += 1
    if got_steps != exp:
        probs.append({"kind": "print", "what": "thermo-line-steps", "observed": got_steps, "expected": exp,
                      "resumed_from": resumed_from})
    for s, vals in lines:
        mon["thermo_lines_checked"] += 1
        if not 1 <= s <= N:
            continue
        if len(vals) != len(cfg["molid"]):
            probs.append({"kind": "print", "what": "thermo-line-columns", "step": s, "n": len(vals)})
            continue
        for mol, (T, Ek, V, Et) in zip(cfg["molid"], vals):
            rd = ref["h5"][mol]["data"]["rows"]
            rT, rEk, rV = (float(rd["data/thermo/" + q][s]) for q in ("T", "Ek", "Ep"))
            # printed with %8.2f / %e: deviation in excess of the printing half-width, relative to 1e-9
            r = max(_excess(T, rT, 0.005), _excess(Ek, rEk, _hw_e(rEk)), _excess(V, rV, _hw_e(rV)),
                    _excess(Et, rEk + rV, _hw_e(rEk + rV)))
            upd("thermo_line_excess_over_print_rounding", r)
            if mdio.exceeds(r, 1.0):
                probs.append({"kind": "print", "what": "thermo-line-values", "step": s, "mol": mol, "ratio": r})
    # ---- checkpoints (wrapper on save_checkpoint) + final checkpoint file
    ck = [e["step_done"] for e in events if e.get("ev") == "call" and e.get("t") == "save_checkpoint"
          and e.get("ph") == "after"]
    exp = mdio.due_steps(cad["checkpoint"], N, initial=False, after=after)
    mon["checkpoint_events_checked"] += len(ck)
    if cad["checkpoint"] <= 0:
        mon["absent_streams_checked"] += 1
    if ck != exp:
        probs.append({"kind": "checkpoint", "what": "checkpoint-steps", "observed": ck, "expected": exp,
                      "resumed_from": resumed_from})
    all_ck = mdio.due_steps(cad["checkpoint"], N, initial=False)
    if ("restart.pt" in files) != bool(all_ck):
        probs.append({"kind": "checkpoint", "what": "restart-file-" + ("missing" if all_ck else "unexpected")})
    elif all_ck:
        info = _inspect(cfg, d, tag)
        if not info.get("loadable") or info.get("step_done") != all_ck[-1] or info.get("steps") != N:
            probs.append({"kind": "checkpoint", "what": "final-checkpoint", "info": info, "expected_step": all_ck[-1]})
    # ---- online cursor invariant as logged by the append wrappers
    cp, n = mdio.check_cursor_log(events, h5_cad)
    mon["cursor_rows_logged"] += n
    for p in cp:
        probs.append(dict(p, kind="cursor", what="cursor-invariant"))
    return probs


_MASS = {}


def _masses(Z):
    """atomic masses of the shipped table (the property's given)"""
    if not _MASS:
        from seqm.seqm_functions.constants import Constants
        m = Constants().mass.detach().cpu().numpy().astype(float)
        _MASS.update({i: float(x) for i, x in enumerate(m)})
    return np.array([_MASS[int(z)] for z in Z])


KE_SCALE = 1.0364270099032438e2      # amu (A/fs)^2 -> eV
T_SCALE = 1.160451812e4              # K / eV


def kinetic_crosscheck(st, cfg, mol, mon, margins, case):
    """Cross-stream VALUE clause inside one file: at every step that both the data stream and the /velocities stream
    hold, thermo/Ek equals the kinetic energy recomputed from that step's velocity row and thermo/T the temperature
    that follows from it (3 N_atoms degrees of freedom: no configuration here removes centre-of-mass motion)."""
    from vlib import mdio
    d, v = st.get("data"), st.get("velocities")
    if d is None or v is None:
        return []
    ek, tt, vals = d["rows"].get("data/thermo/Ek"), d["rows"].get("data/thermo/T"), v["rows"].get("velocities/values")
    if ek is None or tt is None or vals is None:
        return []
    S, _, _, _ = mdio.geometry(cfg)
    Z = [int(z) for z in S[mol] if z > 0]
    m = _masses(Z)
    vs = {int(s): j for j, s in enumerate(v["steps"]) if j == 0 or int(s) > max(int(x) for x in v["steps"][:j])}
    out = []
    opts = case.get("run_opts") or {}
    for i, s in enumerate(int(x) for x in d["steps"]):
        if s not in vs or (i > 0 and s <= max(int(x) for x in d["steps"][:i])) or i >= len(ek):
            continue
        vel = np.asarray(vals[vs[s]], float)
        if vel.shape != (len(Z), 3):
            continue
        ek_v = float((0.5 * m[:, None] * vel ** 2).sum() * KE_SCALE)
        t_v = ek_v * T_SCALE / (0.5 * 3.0 * len(Z))
        mon["kinetic_crosscheck_steps"] += 1
        fired = (opts.get("control_energy_shift") and s >= 2) or \
            (opts.get("scale_vel") and s > 0 and s % int(opts["scale_vel"][0]) == 0)
        mon["kinetic_crosscheck_steps_with_velocity_control"] += int(bool(fired))
        r1 = abs(float(ek[i]) - ek_v) / (1e-9 * max(abs(ek_v), 1e-6))
        r2 = abs(float(tt[i]) - t_v) / (1e-9 * max(abs(t_v), 1e-3))
        if mdio.exceeds(r1, 1.0) or mdio.exceeds(r2, 1.0):
            out.append({"kind": "thermo", "what": "Ek-or-T-vs-velocities-of-the-same-step", "mol": mol, "step": s,
                        "Ek_stored": float(ek[i]), "Ek_from_velocities": ek_v, "T_stored": float(tt[i]),
                        "T_from_velocities": t_v, "velocity_control": opts or None})
        else:
            margins["thermo_vs_velocities_same_step"] = max(margins.get("thermo_vs_velocities_same_step", 0.0), r1, r2)
    return out


def static_checks(got, cfg, mol, mon):
    """atoms == species of that batch member (real atoms), timestep attribute == configured dt."""
    from vlib import mdio
    S, _, _, _ = mdio.geometry(cfg)
    want = [int(z) for z in S[mol] if z > 0]
    out = []
    atoms = got["datasets"].get("atoms")
    mon["static_metadata_checked"] += 1
    if atoms is None or [int(z) for z in np.asarray(atoms).reshape(-1)] != want:
        out.append({"kind": "h5", "what": "atoms-vs-input-species", "mol": mol, "expected": want,
                    "observed": None if atoms is None else np.asarray(atoms).reshape(-1).tolist()})
    dt = got["attrs"].get("timestep_fs")
    if dt is None or mdio.exceeds(abs(float(dt) - float(cfg["dt"])), 1e-12):
        out.append({"kind": "h5", "what": "timestep-attribute", "mol": mol, "observed": dt, "expected": cfg["dt"]})
    return out


def fssh_invariants(dsets, st, mol, mon, margins):
    """Relations among the stored surface-hopping outputs of ONE file (no second run involved):
    NACT antisymmetric with zero diagonal; sum_k |c_k|^2 = 1 within the integrator order (1e-3, the C17 bound);
    1 <= active_surface <= R; Ep(step) == state_energies[step, active_surface(step)] at the steps both streams hold;
    the 0-d excitation/active_state equals active_surface at step 0.  All comparisons are NaN-safe."""
    from vlib import mdio
    out = []

    def m(name, r):
        r = float("inf") if r != r else r
        margins[name] = max(margins.get(name, 0.0), r)

    na = st.get("nonadiabatic")
    if na is not None:
        rows = na["rows"]
        nact = rows.get("data/nonadiabatic/NACT")
        amp = rows.get("data/nonadiabatic/electronic_amplitudes")
        act = rows.get("data/nonadiabatic/active_surface")
        steps = [int(x) for x in na["steps"]]
        live = [j for j, s in enumerate(steps) if j == 0 or s > max(steps[:j])]
        for j in live:
            mon["fssh_invariant_rows_checked"] += 1
            if nact is not None:
                a = np.asarray(nact[j], float)
                r1 = float(np.max(np.abs(a + a.T))) / 1e-12 if np.isfinite(a).all() else float("inf")
                if mdio.exceeds(r1, 1.0) or (np.diag(a) != 0).any():
                    out.append({"kind": "fssh", "what": "NACT-not-antisymmetric", "mol": mol, "step": steps[j],
                                "max|A+At|": float(np.max(np.abs(a + a.T))) if np.isfinite(a).all() else None})
                else:
                    m("nact_antisymmetry", r1)
            if amp is not None:
                c = np.asarray(amp[j], float)
                dev = abs(float((c ** 2).sum()) - 1.0)
                if mdio.exceeds(dev, 1e-3):
                    out.append({"kind": "fssh", "what": "amplitude-norm", "mol": mol, "step": steps[j], "dev": dev})
                else:
                    m("amplitude_norm", dev / 1e-3)
            if act is not None and nact is not None:
                R = int(np.asarray(nact[j]).shape[0])
                if not 1 <= int(act[j]) <= R:
                    out.append({"kind": "fssh", "what": "active-surface-range", "mol": mol, "step": steps[j],
                                "active": int(act[j]), "R": R})
        d = st.get("data")
        if d is not None and act is not None:
            se = d["rows"].get("data/excitation/state_energies")
            ep = d["rows"].get("data/thermo/Ep")
            dsteps = [int(x) for x in d["steps"]]
            where = {s: j for j, s in enumerate(steps) if j in live}
            for i, s in enumerate(dsteps):
                if se is None or ep is None or s not in where or (i > 0 and s <= max(dsteps[:i])):
                    continue
                a = int(act[where[s]])
                if not 0 <= a < se.shape[1]:
                    continue
                mon["fssh_invariant_rows_checked"] += 1
                dev = abs(float(ep[i]) - float(se[i, a]))
                if mdio.exceeds(dev, 1e-9 * max(1.0, abs(float(ep[i])))):
                    out.append({"kind": "fssh", "what": "Ep-vs-active-state-energy", "mol": mol, "step": s, "dev": dev,
                                "active": a})
                else:
                    m("ep_vs_active_state_energy", dev / (1e-9 * max(1.0, abs(float(ep[i])))))
        a0 = dsets.get("data/excitation/active_state")
        if a0 is not None and act is not None and steps and steps[0] == 0 and int(a0) != int(act[0]):
            out.append({"kind": "fssh", "what": "active_state-vs-active_surface[0]", "mol": mol,
                        "active_state": int(a0), "active_surface0": int(act[0])})
    return out


def _hw_e(x):
    """half-width of the rounding interval of the %e format (6 decimals of the mantissa)"""
    import math
    if not math.isfinite(x):
        return float("nan")
    return 0.0 if x == 0 else 0.5 * 10.0 ** (math.floor(math.log10(abs(x))) - 6)


def _excess(printed, ref, hw):
    """NaN policy: a non-finite printed number, or a non-finite reference, always gives inf (violates)."""
    import math
    dev = abs(printed - ref)
    if not (math.isfinite(dev) and math.isfinite(hw)):
        return float("inf")
    return max(0.0, dev - hw * (1 + 1e-6)) / (1e-9 * max(1.0, abs(ref)))


def _inspect(cfg, d, tag):
    from vlib import mdio
    ev = os.path.join(d, tag + ".inspect.jsonl")
    mdio.fork_child({"action": "inspect", "path": mdio.ckpt_path(cfg), "events": ev, "stdout": ev + ".out"}, timeout=120)
    for e in mdio.read_events(ev):
        if e.get("ev") == "inspect":
            return e
    return {"loadable": False, "error": "inspect child produced nothing"}


def run_case(case):
    from vlib import env, mdio
    N = case["N"]
    mon = dict.fromkeys(REQUIRED_MONITORS + ["h5_streams_bitwise_equal", "cursor_rows_logged", "tuples_run",
                                             "reference_runs", "kills_injected", "mo_gap_rows_checked", "kinetic_crosscheck_steps"], 0)
    margins, cells, viol, obs = {}, [], [], {"tuples": {}}
    nontrivial = False
    with env.Scratch("c11") as d:
        # ---- cadence-1 reference, all molecules
        ref_cad = {s: 1 for s in STREAMS}
        ref_cad["checkpoint"] = 0
        rcfg = _cfg(case, ref_cad, os.path.join(d, "ref"), molid=list(range(len(case["mols"]))),
                    write_mo=case["engine"] in EXCITED)
        r = mdio.fork_child({"action": "run", "cfg": rcfg, "events": d + "/ref.ev", "stdout": d + "/ref.out",
                             "log_calls": False}, timeout=600)
        ref_tuple = {"name": "all-1-reference", "cad": ref_cad, "resume": None}
        if r["timed_out"]:
            return {"inconclusive": "watchdog: reference run"}
        if r["code"] != 0:
            # the cadence-1 run is itself a member of the workload: an exception raised by the repository on it is
            # an observation, not a harness problem
            err = [e for e in mdio.read_events(d + "/ref.ev") if e.get("ev") == "error"]
            if not err:
                return {"inconclusive": "reference child died without a report: %r" % (r,)}
            return {"nontrivial": True, "monitors": mon, "violations": [{
                "clause": "run-raised", "mech": None,
                "detail": {"tuple": ref_tuple, "engine": case["engine"], "mols": case["mols"], "N": N,
                           "error": err[0]["type"] + ": " + err[0]["msg"], "tb": err[0]["tb"][-800:]}}]}
        mon["reference_runs"] += 1
        miss = [e["names"] for e in mdio.read_events(d + "/ref.ev") if e.get("ev") == "missing_symbols"]
        if miss:   # a refactor renamed a wrapped internal: say which, do not guess
            return {"inconclusive": "wrapped symbols not found in the repository: %s" % miss[0]}
        ref = {"h5": {}, "atoms": {}}
        bad_ref = []
        for mol in range(len(case["mols"])):
            try:
                got = mdio.read_h5(rcfg["prefix"] + ".%d.h5" % mol)
            except OSError as exc:
                bad_ref.append({"kind": "h5", "what": "unreadable", "mol": mol, "error": str(exc)[:200]})
                continue
            ref["h5"][mol] = mdio.h5_streams(got["datasets"])
            ref["atoms"][mol] = got["datasets"]["atoms"]
            bad_ref += static_checks(got, rcfg, mol, mon)
            bad_ref += kinetic_crosscheck(ref["h5"][mol], rcfg, mol, mon, margins, case)
            if case["engine"] in ("fssh", "fssh_damped"):
                bad_ref += fssh_invariants(got["datasets"], ref["h5"][mol], mol, mon, margins)
            need = ("data", "coordinates", "velocities", "forces") + (("nonadiabatic",) if case["engine"] == "fssh" else ()) \
                + (("tdm",) if case["engine"] in EXCITED else ())
            for s in need:
                obs_steps = [int(x) for x in ref["h5"][mol][s]["steps"]] if s in ref["h5"][mol] else None
                if obs_steps != list(range(N + 1)):
                    bad_ref.append({"kind": "h5", "what": "steps", "stream": s, "mol": mol, "observed": obs_steps,
                                    "expected": list(range(N + 1))})
        if bad_ref:
            return {"nontrivial": True, "monitors": mon, "violations": [{
                "clause": "%s-stream-%s" % (bad_ref[0]["kind"], bad_ref[0]["what"]), "mech": None,
                "detail": {"tuple": "all-1-reference", "cadences": ref_cad, "engine": case["engine"],
                           "mols": case["mols"], "N": N, "problems": bad_ref[:8]}}]}
        # ---- the tuples
        for ti, tup in enumerate(case["tuples"]):
            tag = "t%02d" % ti
            cad = tup["cad"]
            cfg = _cfg(case, cad, os.path.join(d, tag), write_mo=tup.get("write_mo", False))
            evp, outp = os.path.join(d, tag + ".ev"), os.path.join(d, tag + ".out")
            resumed_from = None
            job = {"action": "run", "cfg": cfg, "events": evp, "stdout": outp}
            if tup.get("resume"):
                # hard kill right after integrator step number `after_step` (1-based) returned, i.e. before any
                # output of that step is written; then resume the way a user does
                # (mode "raise": an exception instead, so the repository's finally block closes - and thereby flushes -
                # the writers: everything written after the last checkpoint is then on disk when the run is resumed)
                mode = tup["resume"].get("mode", "exit")
                job["crash"] = {"target": "step", "n": int(tup["resume"]["after_step"]), "phase": "after", "mode": mode}
                r = mdio.fork_child(job, timeout=600)
                if r["code"] != (mdio.EXIT_CRASH if mode == "exit" else mdio.EXIT_EXC_CRASH):
                    viol_or_inc = "crash child ended with %r instead of the injected kill" % (r,)
                    obs["tuples"][tup["name"]] = viol_or_inc
                    continue
                mon["kills_injected"] += 1
                info = _inspect(cfg, d, tag + "k")
                if not info.get("exists"):
                    obs["tuples"][tup["name"]] = "no checkpoint on disk at the kill; skipped"
                    continue
                if not info.get("loadable"):
                    viol.append({"clause": "checkpoint-unloadable-after-kill", "mech": None,
                                 "detail": {"tuple": tup, "engine": case["engine"], "N": N, "inspect": info}})
                    continue
                resumed_from = info.get("step_done")
                evp, outp = os.path.join(d, tag + ".ev2"), os.path.join(d, tag + ".out2")
                job = {"action": "resume", "cfg": cfg, "events": evp, "stdout": outp}
            r = mdio.fork_child(job, timeout=600)
            events = mdio.read_events(evp)
            mon["tuples_run"] += 1
            if r["timed_out"]:
                return {"inconclusive": "watchdog inside case: tuple %s" % tup["name"], "monitors": mon}
            if r["code"] != 0:
                err = [e for e in events if e.get("ev") == "error"]
                etxt = (err[0]["type"] + ": " + err[0]["msg"]) if err else ""
                # orbital output requested on an engine without excited states: the mo datasets are never created
                wm = (tup.get("write_mo") and case["engine"] not in EXCITED and cad["data"] > 0
                      and etxt.startswith("KeyError") and "append_data" in (err[0]["tb"] if err else ""))
                viol.append({"clause": "run-raised" if resumed_from is None else "resume-raised",
                             # (a resume of a run whose tdm stream was never created because the data stream is off)
                             "mech": "write-mo-keyerror-without-excited-states" if wm else (
                                 "tdm-stream-gated-by-data-cadence"
                                 if (resumed_from is not None and cad.get("data", 0) == 0 and cad.get("tdm", 0) > 0
                                     and case["engine"] in EXCITED
                                     and "transition_density_matrices not present" in etxt) else None),
                             "detail": {"tuple": tup, "engine": case["engine"], "N": N, "exit": r["code"],
                                        "error": (err[0]["type"] + ": " + err[0]["msg"]) if err else None,
                                        "tb": err[0]["tb"][-800:] if err else None}})
                continue
            probs = check_run(case, tup, cfg, ref, d, tag, mon, margins, resumed_from=resumed_from,
                              stdout_path=outp, events=events)
            if resumed_from is not None:
                mon["resumed_runs_checked"] += 1
            pos = sorted({v for k, v in cad.items() if v > 0 and (k != "nonadiabatic" or case["engine"] == "fssh")
                          and (k != "tdm" or case["engine"] in EXCITED)})
            if len(pos) >= 2:
                nontrivial = True
            cells.append("%s/N%d/%s/%s" % (case["setup"], N, "resumed" if resumed_from is not None else "fresh",
                                           tup["name"] if not tup["name"].startswith("ca") else "covering-array"))
            cells.append("molid=%s" % ",".join(map(str, case["molid"])))
            obs["tuples"][tup["name"]] = {"cad": [cad[s] for s in STREAMS], "resumed_from": resumed_from,
                                          "problems": len(probs)}
            if probs:
                # one violation per kind of stream; the h5 ones are classified by mechanism
                by_kind = {}
                for p in probs:
                    by_kind.setdefault("h5" if p["kind"] == "cursor" else p["kind"], []).append(p)
                for kind, ps in by_kind.items():
                    mech = classify(cad, N, ps, resumed_from, (tup.get("resume") or {}).get("after_step")) \
                        if kind == "h5" else None
                    viol.append({"clause": "%s-stream-%s" % (kind, ps[0]["what"]), "mech": mech,
                                 "detail": {"engine": case["engine"], "mols": case["mols"], "molid": case["molid"],
                                            "N": N, "tuple": tup["name"], "cadences": cad,
                                            "resumed_from": resumed_from, "problems": ps[:8],
                                            "n_problems": len(ps)}})
    return {"nontrivial": nontrivial, "violations": viol, "margins": margins, "monitors": mon,
            "cells": sorted(set(cells)), "obs": obs}


def summarize(cases, results, report):
    """Pairwise coverage actually executed: for every two streams, which ordered pairs of lattice values
    were run together (the nonadiabatic factor only counts on the surface-hopping engine)."""
    seen = set()
    total = set()
    for c, r in zip(cases, results):
        if not r or r.get("inconclusive") or r.get("harness_error") or r.get("skipped"):
            continue
        N = c["N"]
        lab = {0: "0", 1: "1", 2: "2", 3: "3", 4: "4", 5: "5", 7: "7", N: "N", N + 3: "N+3"}
        for t in c["tuples"]:
            if t["name"] not in (r.get("obs") or {}).get("tuples", {}):
                continue
            if not isinstance(r["obs"]["tuples"][t["name"]], dict):
                continue
            for (i, a), (j, b) in itertools.combinations(list(enumerate(STREAMS)), 2):
                if "nonadiabatic" in (a, b) and c["engine"] != "fssh":
                    continue
                if "tdm" in (a, b) and c["engine"] not in EXCITED:
                    continue
                va, vb = lab.get(t["cad"][a]), lab.get(t["cad"][b])
                if va is not None and vb is not None:
                    seen.add((a, va, b, vb))
    vals = ["0", "1", "2", "3", "4", "5", "7", "N", "N+3"]
    for a, b in itertools.combinations(STREAMS, 2):
        for va in vals:
            for vb in vals:
                total.add((a, va, b, vb))
    return {"pairwise_lattice_coverage": {"covered": len(seen & total), "total": len(total),
                                          "note": "pairs involving the nonadiabatic stream are counted only on the "
                                                  "surface-hopping engine"}}
