"""C06 -- energies equal the published NDDO model (MNDO / AM1 / PM3) evaluated on the shipped parameters.

Oracle: executable reference model R1 (vlib/ref/nddo.py: Dewar-Thiel point-charge ERIs, Slater overlaps by
prolate-spheroidal quadrature, core-core terms, dense J/K Fock builds, isolated-atom energies), evaluated on the very
inputs the real code saw.  Three levels:

  pairs : element-pair matrix x distances x orientations as batches of diatomics through the real `hcore` and
          `pair_nuclear_energy`; one-electron blocks, resonance blocks, 10x10 ERI blocks, pair core-core energy.
  fock  : library molecules; real `fock`, `fock_u_batch`, `G` (KSA response operator), `makeA_pi_batched` and
          `matrix_vector_product_batched` (CIS/RPA sigma build) on random densities vs R1; linearity; ERI
          permutational symmetry (operator self-adjointness, centre exchange = block transpose).
  mol   : converged runs through `Electronic_Structure`; Eelec, Enuc, Etot, sum Eiso, Hf vs the R1 functional at the
          returned density; commutator [F_R1(P), P].
"""
import math

import numpy as np

from vlib import gen

PROPERTY = "C06"
RULE = ("pairs: chunk of (method, Z_i>=Z_j, distance 0.6-15 A from the fixed list {0.6,0.8,1,1.25,1.5,2,3,5,8,12,15}, "
        "log-uniform random, and distances that put a B-integral argument just below its series threshold; orientation Haar "
        "or exactly on +-x,+-y,+-z) submitted as one batch of diatomics; fock: (method, library molecule, distortion/orientation "
        "seed, optional padding atom) with random symmetric / spin / non-symmetric densities; mol: (method, library molecule "
        "incl. ions and UHF radicals, seed) converged at scf_eps 1e-10.  A case is non-trivial when at least one block / "
        "operator / energy was compared against R1 (mol: the run converged); distinct by SHA-1 of the case")
ASSUMPTIONS = [
    "float64 CPU; MOPAC-7 constants e^2 = 27.21 eV bohr, a0 = 0.529167 A; parameter CSV tables are the property's given",
    "hpp = max(0.1 eV, (gpp-gp2)/2) in the quadrupole additive-term equation (published MOPAC implementation)",
    "the package evaluates overlaps with MOPAC's A/B auxiliary integrals whose B series is cut after x^6 for |x| <= 0.5; "
    "the leading omitted term gives an overlap error <= 2.4e-7 (measured at |x| -> 0.5) scaling as |x|^7; the resonance "
    "tolerance therefore carries |beta_avg| * (1e-8 + 1.5e-6 (|x|/0.5)^7) in addition to 1e-6 eV",
    "experimental atomic heats of formation (kcal/mol, MOPAC block data) and 23.061 kcal/mol/eV are entered in R1",
    "elements with principal quantum number <= 3, s/sp shells (H, Li-F, Na-Cl as parametrised per method)",
]
REQUIRED_MONITORS = ["pair_blocks_compared", "pair_corecore_compared", "fock_rhf_compared", "fock_uhf_compared",
                     "G_response_compared", "cis_ao_contraction_compared", "cis_sigma_compared", "molecules_compared",
                     "linearity_checked", "eri_symmetry_checked", "fock_uhf_batch_rows_compared", "fock_rhf_batch_rows_compared",
                     "G_batch_rows_compared", "cis_batch_rows_compared", "mol_uhf_batch_rows_compared",
                     "mol_rhf_batch_rows_compared", "wrap_overlap_calls", "wrap_tetci_calls",
                     "wrap_pairnuc_calls"]
CASE_TIMEOUT = 900.0
MIN_NONTRIVIAL = 6

METHODS = ("MNDO", "AM1", "PM3")
FIXED_D = [0.6, 0.8, 1.0, 1.25, 1.5, 2.0, 3.0, 5.0, 8.0, 12.0, 15.0]
TOL = 1e-6            # eV: ERI block, one-centre blocks, pair core-core energy, two-electron operators, energies
TOL_REL_LIN = 1e-10   # linearity / permutational symmetry (relative)
EPS_SCF = 1e-10
DS_BASE = 1e-8        # overlap agreement away from the series threshold
DS_TRUNC = 1.5e-6     # allowance at |x| = 0.5 for the B series cut after x^6 (6x the measured 2.4e-7)


# ---------------------------------------------------------------------------------------------------
# case generation (parent process; numpy + R1 tables only)
# ---------------------------------------------------------------------------------------------------
def _threshold_distances(method, Zi, Zj):
    """distances (A) at which 0.5*R*|zeta_a - zeta_b| = 0.4999 for some exponent combination (worst case of the
    package's truncated B series), if inside 0.6-15 A"""
    from vlib.ref import nddo

    A, B = nddo.atom(method, Zi), nddo.atom(method, Zj)
    zA = [A.zs] + ([A.zp] if A.nao == 4 else [])
    zB = [B.zs] + ([B.zp] if B.nao == 4 else [])
    out = []
    for za in zA:
        for zb in zB:
            if abs(za - zb) > 1e-9:
                d = 0.4999 * 2.0 / abs(za - zb) * nddo.A0
                if 0.6 <= d <= 15.0:
                    out.append(round(d, 6))
    return sorted(set(out))


def _pair_rows(g, method, Zi, Zj, tier):
    axes = list(gen.AXES)
    rows = []
    thr = _threshold_distances(method, Zi, Zj)
    if tier == "quick":
        ds = list(FIXED_D) + [float(x) for x in np.exp(g.uniform(math.log(0.6), math.log(15.0), 3))] + list(thr)
        kax = set(int(x) for x in g.choice(len(ds), 3, replace=False))
        for k, d in enumerate(ds):
            if k in kax:
                rows.append([Zi, Zj, round(d, 6), "axis", axes[int(g.integers(0, 6))]])
            else:
                rows.append([Zi, Zj, round(d, 6), "haar", int(g.integers(0, 2**31))])
    else:
        ds = list(FIXED_D) + [float(x) for x in np.exp(g.uniform(math.log(0.6), math.log(15.0), 10))]
        for d in ds:
            for _ in range(7):
                rows.append([Zi, Zj, round(d, 6), "haar", int(g.integers(0, 2**31))])
            for ax in g.choice(6, 3, replace=False):
                rows.append([Zi, Zj, round(d, 6), "axis", axes[int(ax)]])
        for d in thr:
            rows.append([Zi, Zj, d, "haar", int(g.integers(0, 2**31))])
            rows.append([Zi, Zj, d, "axis", axes[int(g.integers(0, 6))]])
    return rows


FOCK_QUICK = {"MNDO": ["LiF", "NaCl", "BH3", "CH3SH", "PCl3", "HCOOH", "NaH", "AlH3", "N2O", "SiH4"],
              "AM1": ["CH3NH2", "SiH3Cl", "BF3", "HOOH", "AlCl3", "H2O", "BeH2", "PH3", "CH3F", "H2S"],
              "PM3": ["MgH2", "SO2", "CH3Cl", "NH3", "BeH2", "C2H4", "LiH", "AlCl3", "PCl3", "HNO"]}
MOL_QUICK = [("AM1", "CH3NH2", 0), ("AM1", "HCOOH", 0), ("AM1", "SiH3Cl", 0), ("AM1", "NH4+", 0), ("AM1", "NO.", 1),
             ("AM1", "H2O", 1), ("AM1", "BF3", 0), ("AM1", "AlH3", 0), ("AM1", "CH3SH", 0), ("AM1", "NH2.", 1), ("AM1", "HCN", 0),
             ("PM3", "CH3OH", 0), ("PM3", "SO2", 0), ("PM3", "MgH2", 0), ("PM3", "OH-", 0), ("PM3", "CH3.", 1), ("PM3", "C6H6", 0),
             ("PM3", "LiF", 0), ("PM3", "PCl3", 0), ("PM3", "CH2t", 1), ("PM3", "HOOH", 0), ("PM3", "CH3NH2", 0),
             ("MNDO", "HNO", 0), ("MNDO", "NaCl", 0), ("MNDO", "PH3", 0), ("MNDO", "H3O+", 0), ("MNDO", "O2t", 1),
             ("MNDO", "CH3Cl", 1), ("MNDO", "BH3", 0), ("MNDO", "SiH4", 0), ("MNDO", "HCOO-", 0), ("MNDO", "H2O+.", 1),
             ("MNDO", "NH3", 0)]


def gen_cases(tier, seed):
    g = gen.rng("C06", tier)
    cases = []
    # --- molecule level first (most expensive per case) --------------------------------------------
    if tier == "quick":
        for method, name, uhf in MOL_QUICK:
            cases.append({"kind": "mol", "method": method, "mol": name, "uhf": int(uhf), "seed": int(g.integers(0, 2**31))})
    else:
        for method in METHODS:
            for name in gen.names_for(method):
                Z, X, q, m = gen.molecule(name)
                if m != 1:
                    cases.append({"kind": "mol", "method": method, "mol": name, "uhf": 1, "seed": int(g.integers(0, 2**31))})
                else:
                    for _ in range(2):
                        cases.append({"kind": "mol", "method": method, "mol": name, "uhf": 0, "seed": int(g.integers(0, 2**31))})
                    if name in gen.SMALL or name in ("NH4+", "OH-", "CH3Cl", "SO2"):
                        cases.append({"kind": "mol", "method": method, "mol": name, "uhf": 1, "seed": int(g.integers(0, 2**31))})
    # --- converged batches (UHF and RHF), every row vs R1 -------------------------------------------------
    rad = ["CH3.", "OH.", "NO.", "NH2.", "O2t", "CH2t", "H2O+."]
    closed = {"MNDO": ["H2O", "NH3", "LiH", "HCl", "CH2O", "NaH", "BH3", "H2S"],
              "AM1": ["H2O", "NH3", "HF", "HCl", "CH2O", "BeH2", "AlH3", "H2S"],
              "PM3": ["H2O", "NH3", "LiH", "HCl", "CH2O", "MgH2", "PH3", "H2S"]}
    nrep = 1 if tier == "quick" else 5
    for method in METHODS:
        for rep_ in range(nrep):
            k = int(g.integers(2, 5))
            name = rad[int(g.integers(0, len(rad)))]
            cases.append({"kind": "molbatch", "method": method, "uhf": 1, "mols": [name] * k, "seed": int(g.integers(0, 2**31))})
            k = int(g.integers(2, 5))
            pool = rad + closed[method][:3]
            mols = [pool[int(i)] for i in g.choice(len(pool), k, replace=False)]
            if len(set(len(gen.molecule(n)[0]) for n in mols)) == 1:
                mols[0] = "CH3." if mols[0] != "CH3." else "OH."
            cases.append({"kind": "molbatch", "method": method, "uhf": 1, "mols": mols, "seed": int(g.integers(0, 2**31)),
                          "extra_pad": int(rep_ % 2)})
            k = int(g.integers(2, 5))
            mols = [closed[method][int(i)] for i in g.choice(len(closed[method]), k, replace=False)]
            cases.append({"kind": "molbatch", "method": method, "uhf": 0, "mols": mols, "seed": int(g.integers(0, 2**31))})
    # --- Fock level on batches ----------------------------------------------------------------------------
    nrep = 1 if tier == "quick" else 6
    for method in METHODS:
        names = [n for n in gen.names_for(method, gen.CLOSED_NEUTRAL + gen.IONS) if n != "C6H6"]
        for rep_ in range(nrep):
            for k in ((3, 2) if tier == "quick" else (2, 3, 4)):
                name = names[int(g.integers(0, len(names)))]
                cases.append({"kind": "fockbatch", "method": method, "mols": [name] * k, "seed": int(g.integers(0, 2**31))})
            for k in ((4, 3) if tier == "quick" else (2, 3, 4)):
                mols = [names[int(i)] for i in g.choice(len(names), k, replace=False)]
                cases.append({"kind": "fockbatch", "method": method, "mols": mols, "seed": int(g.integers(0, 2**31)),
                              "extra_pad": int(k == 3)})
    # --- Fock level -----------------------------------------------------------------------------------
    for method in METHODS:
        if tier == "quick":
            names = FOCK_QUICK[method]
            reps = 1
        else:
            names = [n for n in gen.names_for(method, gen.CLOSED_NEUTRAL + gen.IONS)]
            reps = 2
        for k, name in enumerate(names):
            for r in range(reps):
                cases.append({"kind": "fock", "method": method, "mol": name, "seed": int(g.integers(0, 2**31)),
                              "pad": int((k + r) % 3 == 0)})
    # --- pair level -----------------------------------------------------------------------------------
    chunk = 150 if tier == "quick" else 420
    for method in METHODS:
        els = gen.ELEMENTS[method]
        rows = []
        for a in els:
            for b in els:
                if a >= b:
                    rows += _pair_rows(g, method, a, b, tier)
        order = g.permutation(len(rows))
        rows = [rows[i] for i in order]
        for s in range(0, len(rows), chunk):
            cases.append({"kind": "pairs", "method": method, "rows": rows[s:s + chunk], "shift_seed": int(g.integers(0, 2**31))})
    return cases


# ---------------------------------------------------------------------------------------------------
# monitors: wrappers around the package's integral kernels (installed once per worker)
# ---------------------------------------------------------------------------------------------------
_MON = {}
_SEEN = {}
_QN = {1: 1, 3: 2, 4: 2, 5: 2, 6: 2, 7: 2, 8: 2, 9: 2, 11: 3, 12: 3, 13: 3, 14: 3, 15: 3, 16: 3, 17: 3}
_MISSING = []


def _bump(k, n=1):
    _MON[k] = _MON.get(k, 0) + int(n)


def _see(cell, n=1):
    _SEEN[cell] = _SEEN.get(cell, 0) + int(n)


def _rebind(orig, wrapper):
    import sys

    n = 0
    for mod in list(sys.modules.values()):
        d = getattr(mod, "__dict__", None)
        if not d or not getattr(mod, "__name__", "").startswith("seqm"):
            continue
        for name, val in list(d.items()):
            if val is orig:
                setattr(mod, name, wrapper)
                n += 1
    return n


def _pair_classes(ni, nj):
    import torch

    zi = ni.detach().reshape(-1).tolist() if torch.is_tensor(ni) else list(ni)
    zj = nj.detach().reshape(-1).tolist() if torch.is_tensor(nj) else list(nj)
    return zi, zj


def setup_worker():
    import functools

    import seqm.basics  # noqa: F401  (imports every module that aliases the kernels)
    import seqm.seqm_functions.diat_overlap_PM6_SP as m_ov
    import seqm.seqm_functions.energy as m_en
    import seqm.seqm_functions.hcore  # noqa: F401
    import seqm.seqm_functions.two_elec_two_center_int as m_te

    def wrap_overlap(orig):
        @functools.wraps(orig)
        def w(ni, nj, *a, **k):
            _bump("wrap_overlap_calls")
            zi, zj = _pair_classes(ni, nj)
            _bump("wrap_overlap_pairs", len(zi))
            for c in set((_QN.get(x, 0), _QN.get(y, 0)) for x, y in zip(zi, zj)):
                _see("seen/overlap-kernel/qn%d-qn%d" % c)
            return orig(ni, nj, *a, **k)
        return w

    def wrap_tetci(orig):
        @functools.wraps(orig)
        def w(const, idxi, idxj, ni, nj, *a, **k):
            _bump("wrap_tetci_calls")
            zi, zj = _pair_classes(ni, nj)
            _bump("wrap_tetci_pairs", len(zi))
            method = k.get("method", a[-1] if a else "?")
            for c in set(("H" if x == 1 else "X") + ("H" if y == 1 else "X") for x, y in zip(zi, zj)):
                _see("seen/eri-kernel/%s/%s" % (method, c))
            return orig(const, idxi, idxj, ni, nj, *a, **k)
        return w

    def wrap_pairnuc(orig):
        @functools.wraps(orig)
        def w(Z, const, nmol, ni, nj, *a, **k):
            _bump("wrap_pairnuc_calls")
            zi, zj = _pair_classes(ni, nj)
            _bump("wrap_pairnuc_pairs", len(zi))
            method = k.get("method", "?")
            par = k.get("parameters")
            ng = int(par[1].shape[1]) if par is not None and len(par) > 1 else 0
            nh = sum(1 for x, y in zip(zi, zj) if x == 7 and y == 1)
            oh = sum(1 for x, y in zip(zi, zj) if x == 8 and y == 1)
            _see("seen/core-core-kernel/%s/gaussians%d" % (method, ng))
            if nh:
                _see("seen/core-core-kernel/%s/N-H" % method, nh)
            if oh:
                _see("seen/core-core-kernel/%s/O-H" % method, oh)
            if len(zi) - nh - oh:
                _see("seen/core-core-kernel/%s/plain" % method, len(zi) - nh - oh)
            return orig(Z, const, nmol, ni, nj, *a, **k)
        return w

    for mod, name, mk in ((m_ov, "diatom_overlap_matrix_PM6_SP", wrap_overlap),
                          (m_te, "two_elec_two_center_int", wrap_tetci),
                          (m_en, "pair_nuclear_energy", wrap_pairnuc)):
        orig = getattr(mod, name, None)
        if orig is None or getattr(orig, "_c06_wrapped", False):
            if orig is None:
                _MISSING.append(name)
            continue
        w = mk(orig)
        w._c06_wrapped = True
        if _rebind(orig, w) == 0:
            _MISSING.append(name)


def _snapshot():
    return dict(_MON), dict(_SEEN)


def _delta(snap):
    m0, s0 = snap
    mon = {k: v - m0.get(k, 0) for k, v in _MON.items() if v - m0.get(k, 0)}
    cells = [k for k, v in _SEEN.items() if v - s0.get(k, 0)]
    return mon, cells


# ---------------------------------------------------------------------------------------------------
# helpers shared by the three levels
# ---------------------------------------------------------------------------------------------------
def _vmax(*vals):
    """maximum that PROPAGATES NaN (python's max() silently drops a NaN that is not its first argument)"""
    flat = []
    for v in vals:
        flat.extend(np.asarray(v, float).reshape(-1).tolist())
    if not flat:
        return 0.0
    a = np.asarray(flat, float)
    return float("nan") if np.isnan(a).any() else float(a.max())


def _amax(x):
    """max |x| over an array, NaN-propagating, inf-preserving"""
    x = np.asarray(x, float)
    if x.size == 0:
        return 0.0
    return float("nan") if np.isnan(x).any() else float(np.abs(x).max())


class _Acc:
    """margins / violations / monitors / cells accumulator.  A non-finite observation or bound violates its clause."""

    def __init__(self):
        self.margins, self.viol, self.mon, self.cells = {}, [], {}, set()

    def cmp(self, name, err, tol, clause=None, mech=None, detail=None):
        err, tol = float(err), float(tol)
        r = err / tol if (np.isfinite(err) and np.isfinite(tol) and tol > 0) else float("inf")
        if not np.isfinite(r):
            r = float("inf")
        if name not in self.margins or r > self.margins[name]:
            self.margins[name] = r
        if r > 1.0:
            d = {"error": err if np.isfinite(err) else repr(err), "bound": tol if np.isfinite(tol) else repr(tol)}
            d.update(detail or {})
            self.viol.append({"clause": clause or name, "mech": mech, "detail": d})
            return True
        return False

    def bump(self, k, n=1):
        self.mon[k] = self.mon.get(k, 0) + int(n)

    def result(self, nontrivial, obs, snap):
        mon, cells = _delta(snap)
        for k, v in mon.items():
            self.mon[k] = self.mon.get(k, 0) + v
        # keep at most 12 written-out violations per case (evidence size); the count is kept in obs
        obs = dict(obs)
        obs["n_violations"] = len(self.viol)
        return {"nontrivial": bool(nontrivial), "violations": self.viol[:12], "margins": self.margins,
                "monitors": self.mon, "cells": sorted(self.cells | set(cells)), "obs": obs}


def _ds_allow(A, B, R_bohr):
    """allowed |Delta S| for the pair: base + leading omitted term of the package's B-integral series (|x| <= 0.5)"""
    zA = [A.zs] + ([A.zp] if A.nao == 4 else [])
    zB = [B.zs] + ([B.zp] if B.nao == 4 else [])
    worst = 0.0
    for za in zA:
        for zb in zB:
            x = abs(0.5 * R_bohr * (za - zb))
            if x <= 0.5:
                worst = max(worst, (x / 0.5) ** 7)
    return DS_BASE + DS_TRUNC * worst


def _pair_class(Zi, Zj):
    return ("H" if Zi == 1 else "X") + ("H" if Zj == 1 else "X")


def _mech(clause, method, Zi, Zj):
    return ("%s-%s-%s-qn%d%d" % (clause, method, _pair_class(Zi, Zj), _QN[Zi], _QN[Zj])).lower().replace("_", "-")


def _fock_args(mol, M, w, P, method):
    import torch

    p = mol.parameters
    return (mol.nmol, mol.molsize, P, M, mol.maskd, mol.mask, mol.idxi, mol.idxj, w, torch.tensor([0]),
            p["g_ss"], p["g_pp"], p["g_sp"], p["g_p2"], p["h_sp"], method, p["zeta_s"], p["zeta_p"], p["zeta_d"],
            mol.Z, p["F0SD"], p["G2SD"])


def _res_allow(mdl):
    """N x N matrix: |beta_avg| * allowed overlap error on two-centre blocks, 0 on one-centre blocks"""
    from vlib.ref import nddo

    out = np.zeros((mdl.nao, mdl.nao))
    for i, A in enumerate(mdl.atoms):
        for j in range(i + 1, len(mdl.atoms)):
            B = mdl.atoms[j]
            R = float(np.linalg.norm(mdl.X[j] - mdl.X[i])) / nddo.A0
            blk = np.abs(0.5 * (A.beta()[:, None] + B.beta()[None, :])) * _ds_allow(A, B, R)
            out[mdl.off[i]:mdl.off[i + 1], mdl.off[j]:mdl.off[j + 1]] = blk
            out[mdl.off[j]:mdl.off[j + 1], mdl.off[i]:mdl.off[i + 1]] = blk.T
    return out


def _geometry(case):
    Z, X, q, m = gen.molecule(case["mol"])
    g = np.random.default_rng(case["seed"])
    Xd = gen.distort(X, g, sigma=0.06)
    Xd = Xd @ gen.haar(g).T + g.uniform(-3, 3, 3)
    return Z, Xd, q, m, g


# ---------------------------------------------------------------------------------------------------
# level 1: pairs
# ---------------------------------------------------------------------------------------------------
def _run_pairs(case):
    import torch
    from seqm.basics import Energy
    from seqm.seqm_functions.energy import pair_nuclear_energy
    from seqm.seqm_functions.hcore import hcore
    from vlib import run
    from vlib.ref import nddo

    snap = _snapshot()
    acc = _Acc()
    method = case["method"]
    gs = np.random.default_rng(case["shift_seed"])
    species, coords, charges, meta = [], [], [], []
    for row in case["rows"]:
        Zi, Zj, d, okind, oarg = row
        if okind == "haar":
            u = gen.haar(np.random.default_rng(int(oarg)))[:, 0]
        else:
            u = np.array(gen.AXES[oarg], float)
        x0 = gs.uniform(-5, 5, 3)
        xi, xj = x0, x0 + d * u
        species.append([Zi, Zj])
        coords.append([xi, xj])
        charges.append((gen.VALENCE[Zi] + gen.VALENCE[Zj]) % 2)
        meta.append((row, False))
        if Zi == Zj:   # same-element centres exchanged: the ERI block must be the transpose
            species.append([Zi, Zj])
            coords.append([xj, xi])
            charges.append(charges[-1])
            meta.append((row, True))
    sett = run.settings(method, eps=1e-8)
    with run.quiet():
        mol, es, sett2 = run.build(np.array(species), np.array(coords), sett, charges=np.array(charges, float))
        M, w, rho0xi, rho0xj, riXH, ri = hcore(mol)
        parnuc = Energy(sett2)._build_parnuc(mol.parameters)
        E = pair_nuclear_energy(mol.Z, mol.const, mol.nmol, mol.ni, mol.nj, mol.idxi, mol.idxj, mol.rij, rho0xi, rho0xj,
                                mol.alp, mol.chi, gam=w[..., 0, 0], method=method, parameters=parnuc)
    n = len(species)
    M = M.detach().numpy().reshape(n, 2, 2, 4, 4)
    w = w.detach().numpy()
    E = E.detach().numpy()
    if w.shape[0] != n or E.shape[0] != n:
        return {"inconclusive": "pair count returned by hcore (%d) differs from diatomics submitted (%d)" % (w.shape[0], n)}
    prev = None
    for k, (row, swapped) in enumerate(meta):
        Zi, Zj, d, okind, oarg = row
        xi, xj = coords[k]
        pb = nddo.pair_blocks(method, Zi, Zj, xi, xj)
        A, B = pb["A"], pb["B"]
        det = {"method": method, "Zi": Zi, "Zj": Zj, "distance_A": d, "orientation": [okind, oarg], "swapped": swapped,
               "xi": list(map(float, xi)), "xj": list(map(float, xj))}
        # ERI block
        acc.cmp("eri_block", _amax(w[k] - pb["w10"]), TOL, "eri-block", _mech("eri", method, Zi, Zj), det)
        # one-centre blocks of the one-electron matrix (the package fills the upper triangle)
        Hi = np.diag(A.uorb()) + pb["Vi"]
        Hj = np.diag(B.uorb()) + pb["Vj"]
        e1 = _vmax(_amax(np.triu(M[k, 0, 0][:A.nao, :A.nao] - Hi)), _amax(np.triu(M[k, 1, 1][:B.nao, :B.nao] - Hj)))
        acc.cmp("one_electron_diag", e1, TOL, "one-electron-diagonal-block", _mech("h1diag", method, Zi, Zj), det)
        # resonance block
        Rb = float(np.linalg.norm(np.asarray(xj) - np.asarray(xi))) / nddo.A0
        bavg = np.abs(0.5 * (A.beta()[:, None] + B.beta()[None, :]))
        tolres = TOL + bavg * _ds_allow(A, B, Rb)
        ratio = _amax((M[k, 0, 1][:A.nao, :B.nao] - pb["res"]) / tolres)
        acc.cmp("resonance_block", ratio, 1.0, "resonance-block", _mech("overlap", method, Zi, Zj), det)
        # pair core-core energy
        acc.cmp("core_core", abs(E[k] - pb["enuc"]), TOL * max(1.0, abs(pb["enuc"]) * 1e-4), "pair-core-core",
                _mech("corecore" + ("-" + pb["info"]["special"] if pb["info"]["special"] else ""), method, Zi, Zj), det)
        acc.bump("pair_blocks_compared")
        acc.bump("pair_corecore_compared")
        if swapped and prev is not None:
            scale = _vmax(1.0, _amax(prev))
            acc.cmp("eri_centre_exchange", _amax(w[k] - prev.T) / scale, TOL_REL_LIN, "eri-centre-exchange-transpose",
                    _mech("eriswap", method, Zi, Zj), det)
            acc.bump("eri_symmetry_checked")
        prev = w[k] if not swapped else None
        acc.cells.add("pair/%s/%d-%d" % (method, Zi, Zj))
        acc.cells.add("overlap-class/qn%d-qn%d" % (A.n, B.n))
        acc.cells.add("pair-class/%s/%s" % (method, _pair_class(Zi, Zj)))
        sp = pb["info"]["special"]
        acc.cells.add("core-core/%s/%s" % (method, (sp[0] + "-" + sp[1]) if sp else "plain"))
        if pb["info"]["n_gauss"]:
            acc.cells.add("core-core/%s/gaussian-terms" % method)
        if A.nao == 4 and A.hpp < nddo.HPP_FLOOR or B.nao == 4 and B.hpp < nddo.HPP_FLOOR:
            acc.cells.add("eri/hpp-floor-active/%s" % method)
        if okind == "axis":
            acc.cells.add("orientation/axis%s" % oarg)
        dcell = "d<=0.8" if d <= 0.8 else "d<=1.5" if d <= 1.5 else "d<=3" if d <= 3 else "d<=8" if d <= 8 else "d<=15"
        acc.cells.add("distance/%s" % dcell)
    obs = {"kind": "pairs", "method": method, "diatomics": n, "rows": len(case["rows"]), "worst": acc.margins}
    return acc.result(n > 0, obs, snap)


# ---------------------------------------------------------------------------------------------------
# level 2: Fock builders and response operators
# ---------------------------------------------------------------------------------------------------
def _run_fock(case):
    import torch
    from seqm.seqm_functions.fock import fock
    from seqm.seqm_functions.fock_u_batch import fock_u_batch
    from seqm.seqm_functions.G_XL_LR import G
    from seqm.seqm_functions.hcore import hcore
    from seqm.seqm_functions.rcis_batch import makeA_pi_batched, matrix_vector_product_batched
    from vlib import run
    from vlib.ref import nddo

    snap = _snapshot()
    acc = _Acc()
    method = case["method"]
    Z, X, q, m, g = _geometry(case)
    nat = len(Z)
    pad = bool(case.get("pad"))
    Zs = list(Z) + ([0] if pad else [])
    Xs = np.vstack([X, g.normal(0, 2.0, (1, 3))]) if pad else X
    sett = run.settings(method, eps=1e-8)
    with run.quiet():
        mol, es, sett2 = run.build(Zs, Xs, sett, charges=q, mult=1)
        M, w, *_ = hcore(mol)
    M, w = M.detach(), w.detach()
    molsize = mol.molsize
    mdl = nddo.Model(method, Z, X)
    N = mdl.nao
    allow = _res_allow(mdl)
    det = {"method": method, "mol": case["mol"], "species": list(Z), "coords": X.tolist(), "pad": pad}
    mech = lambda c: ("%s-%s" % (c, method)).lower()

    def full(t):
        a = t.detach().numpy()
        return a

    # one-electron matrix of the molecule
    Hf = M.reshape(1, molsize, molsize, 4, 4).transpose(2, 3).reshape(4 * molsize, 4 * molsize).numpy()
    Hf = np.triu(Hf) + np.triu(Hf, 1).T
    acc.cmp("hcore_molecule", _amax((mdl.extract(Hf) - mdl.H) / (TOL + allow)), 1.0, "one-electron-matrix", mech("hcore"), det)

    def rsym(scale=1.0):
        A = g.normal(size=(N, N)) * 0.3
        A = A + A.T
        A[np.diag_indices(N)] = g.uniform(0, 2, N)
        return A * scale

    def T(P):
        return torch.tensor(mdl.embed(P, molsize)).unsqueeze(0)

    def rel(a, b):
        return _amax(a - b) / _vmax(1e-30, _amax(b))

    # restricted Fock
    P1, P2 = rsym(), rsym()
    a, b = float(g.uniform(0.3, 1.7)), float(g.uniform(-1.5, -0.2))
    F1 = full(fock(*_fock_args(mol, M, w, T(P1), method))[0])
    acc.cmp("fock_rhf", _amax((mdl.extract(F1) - mdl.fock_rhf(P1)) / (TOL + allow)), 1.0, "fock-restricted", mech("fock"), det)
    acc.bump("fock_rhf_compared")
    F2 = full(fock(*_fock_args(mol, M, w, T(P2), method))[0])
    F0 = full(fock(*_fock_args(mol, M, w, T(np.zeros((N, N))), method))[0])
    F12 = full(fock(*_fock_args(mol, M, w, T(a * P1 + b * P2), method))[0])
    acc.cmp("linearity_fock", rel(F12 - F0, a * (F1 - F0) + b * (F2 - F0)), TOL_REL_LIN, "linearity-fock", mech("lin-fock"), det)
    acc.cmp("fock_symmetric", _amax(F1 - F1.T), 1e-12 * _vmax(1.0, _amax(F1)), "fock-symmetric", mech("sym-fock"), det)
    acc.bump("linearity_checked")
    # ERI permutational symmetry at operator level: tr(P1 G(P2)) = tr(P2 G(P1)) needs (mn|ls) = (ls|mn)
    G1, G2 = mdl.extract(F1 - F0), mdl.extract(F2 - F0)
    t12, t21 = float(np.sum(P1 * G2)), float(np.sum(P2 * G1))
    acc.cmp("eri_perm_symmetry", abs(t12 - t21) / _vmax(abs(t12), abs(t21), 1e-30), TOL_REL_LIN, "eri-permutational-symmetry",
            mech("eriperm"), det)
    acc.bump("eri_symmetry_checked")
    # padding slots / hydrogen p slots must not receive two-electron contributions that reach real orbitals: covered by
    # the comparison above (only real AO sub-blocks are read)

    # unrestricted Fock
    Pa, Pb, Pc, Pd = rsym(0.5), rsym(0.5), rsym(0.5), rsym(0.5)
    U = lambda x, y: torch.tensor(np.stack([mdl.embed(x, molsize), mdl.embed(y, molsize)])).unsqueeze(0)
    Fu = full(fock_u_batch(*_fock_args(mol, M, w, U(Pa, Pb), method))[0])
    Fa, Fb = mdl.fock_uhf(Pa, Pb)
    eu = _vmax(_amax((mdl.extract(Fu[0]) - Fa) / (TOL + allow)), _amax((mdl.extract(Fu[1]) - Fb) / (TOL + allow)))
    acc.cmp("fock_uhf", eu, 1.0, "fock-unrestricted", mech("focku"), det)
    acc.bump("fock_uhf_compared")
    Fu2 = full(fock_u_batch(*_fock_args(mol, M, w, U(Pc, Pd), method))[0])
    Fu0 = full(fock_u_batch(*_fock_args(mol, M, w, U(np.zeros((N, N)), np.zeros((N, N))), method))[0])
    Fu12 = full(fock_u_batch(*_fock_args(mol, M, w, U(a * Pa + b * Pc, a * Pb + b * Pd), method))[0])
    acc.cmp("linearity_fock_u", rel(Fu12 - Fu0, a * (Fu - Fu0) + b * (Fu2 - Fu0)), TOL_REL_LIN, "linearity-fock-u", mech("lin-focku"), det)
    # closed-shell limit of the unrestricted builder
    Fr = full(fock_u_batch(*_fock_args(mol, M, w, U(0.5 * P1, 0.5 * P1), method))[0])
    acc.cmp("fock_uhf_closed_shell_limit", _vmax(_amax(Fr[0] - F1), _amax(Fr[1] - F1)), 1e-9, "fock-u-equals-fock-for-equal-spins",
            mech("focku-limit"), det)
    acc.bump("linearity_checked")

    # KSA response operator
    D1, D2 = rsym(), rsym()
    D1[np.diag_indices(N)] -= 1.0
    Gr1 = full(G(*_fock_args(mol, M, w, T(D1), method))[0])
    acc.cmp("G_response", _amax(mdl.extract(Gr1) - mdl.G(D1)), TOL, "response-operator-G", mech("g"), det)
    acc.bump("G_response_compared")
    Gr2 = full(G(*_fock_args(mol, M, w, T(D2), method))[0])
    Gr12 = full(G(*_fock_args(mol, M, w, T(a * D1 + b * D2), method))[0])
    acc.cmp("linearity_G", rel(Gr12, a * Gr1 + b * Gr2), TOL_REL_LIN, "linearity-G", mech("lin-g"), det)
    acc.bump("linearity_checked")

    # CIS / RPA sigma build (uniform, unpadded batches only: that is what the kernel supports)
    if not pad:
        nroots = 2
        Pn = g.normal(size=(1, nroots, N, N))
        Fx = makeA_pi_batched(mol, torch.tensor(Pn), w).detach().numpy()
        e = _vmax(*[_amax(Fx[0, r] - mdl.G(Pn[0, r])) for r in range(nroots)])
        acc.cmp("cis_ao_contraction", e, TOL, "cis-ao-contraction-nonsymmetric", mech("cis-ao"), det)
        acc.bump("cis_ao_contraction_compared")
        Fx12 = makeA_pi_batched(mol, torch.tensor(a * Pn[:, :1] + b * Pn[:, 1:]), w).detach().numpy()
        acc.cmp("linearity_cis", rel(Fx12[0, 0], a * Fx[0, 0] + b * Fx[0, 1]), TOL_REL_LIN, "linearity-cis-contraction", mech("lin-cis"), det)
        acc.bump("linearity_checked")
        nocc = int(round(mdl.n_valence - q)) // 2
        nvir = N - nocc
        if nocc >= 1 and nvir >= 1:
            C = np.linalg.qr(g.normal(size=(N, N)))[0]
            Co, Cv = C[:, :nocc], C[:, nocc:]
            eo = np.sort(g.uniform(-40, -8, nocc))
            ev = np.sort(g.uniform(-2, 12, nvir))
            V = g.normal(size=(1, nroots, nocc * nvir))
            ea_ei = torch.tensor(ev[None, :] - eo[:, None]).unsqueeze(0)
            Av, Bv = matrix_vector_product_batched(mol, torch.tensor(V), w, ea_ei, torch.tensor(Co).unsqueeze(0),
                                                   torch.tensor(Cv).unsqueeze(0), makeB=True)
            Av, Bv = Av.detach().numpy(), Bv.detach().numpy()
            ea = eb = 0.0
            for r in range(nroots):
                Xr = V[0, r].reshape(nocc, nvir)
                ea = _vmax(ea, _amax(Av[0, r].reshape(nocc, nvir) - mdl.cis_sigma(Co, Cv, eo, ev, Xr)))
                eb = _vmax(eb, _amax(Bv[0, r].reshape(nocc, nvir) - mdl.rpa_b_sigma(Co, Cv, Xr)))
            acc.cmp("cis_sigma_A", ea, 4 * TOL, "cis-sigma-vector-A", mech("cis-a"), det)
            acc.cmp("rpa_sigma_B", eb, 4 * TOL, "rpa-sigma-vector-B", mech("rpa-b"), det)
            acc.bump("cis_sigma_compared")
    acc.cells.add("fock/%s/%s%s" % (method, case["mol"], "/padded" if pad else ""))
    obs = {"kind": "fock", "method": method, "mol": case["mol"], "nao": N, "pad": pad, "worst": acc.margins}
    return acc.result(True, obs, snap)


# ---------------------------------------------------------------------------------------------------
# level 3: converged molecules
# ---------------------------------------------------------------------------------------------------
def _compare_mol_row(acc, method, name, uhf, Z, X, q, m, out, r, batch=None):
    """one converged molecule (row r of the returned arrays) against the R1 functional at ITS returned density.
    -> (compared?, obs)"""
    from vlib.ref import nddo

    nat = len(Z)
    mdl = nddo.Model(method, Z, X)
    N = mdl.nao
    allow = _res_allow(mdl)
    det = {"method": method, "mol": name, "uhf": uhf, "species": list(Z), "coords": np.asarray(X).tolist(), "charge": q, "mult": m}
    if batch is not None:
        det["batch"] = batch
        det["row"] = r
    tag = ("uhf" if uhf else "rhf") + ("-batch" if batch is not None else "")
    mech = lambda c: ("%s-%s-%s" % (c, method, tag)).lower()
    dm = out["dm"][r]
    if uhf:
        Pa, Pb = mdl.extract(dm[0]), mdl.extract(dm[1])
        Pt = Pa + Pb
        e_ref = mdl.eelec_uhf(Pa, Pb)
        Fa, Fb = mdl.fock_uhf(Pa, Pb)
        comm = _vmax(_amax(Fa @ Pa - Pa @ Fa), _amax(Fb @ Pb - Pb @ Fb))
        fmax = _vmax(_amax(Fa), _amax(Fb))
        pmax = _vmax(_amax(Pa), _amax(Pb))
        inside = float(np.abs(Pa).sum() + np.abs(Pb).sum())
    else:
        Pt = mdl.extract(dm)
        e_ref = mdl.eelec_rhf(Pt)
        Fr = mdl.fock_rhf(Pt)
        comm = _amax(Fr @ Pt - Pt @ Fr)
        fmax = _amax(Fr)
        pmax = _amax(Pt)
        inside = float(np.abs(Pt).sum())
    # everything outside the real AO slots of the returned density must be empty, else the R1 functional (which only has
    # the real orbitals) is not comparable -- that would be a padding defect (C05), not a statement about the NDDO model.
    # (a NaN anywhere in the density is NOT skipped: it falls through and violates the energy clauses)
    leak = float(np.abs(dm).sum()) - inside
    if np.isfinite(leak) and abs(leak) > 1e-9:
        return False, {"mol": name, "skipped": "returned density has weight outside the real AO slots"}
    tolE = TOL + float(np.sum(np.abs(Pt) * allow))
    etot_ref = mdl.etot(e_ref)
    sfx = "_batch" if batch is not None else ""
    acc.cmp("Eelec" + sfx, abs(float(out["Eelec"][r]) - e_ref), tolE, "Eelec-vs-R1-functional", mech("eelec"), det)
    acc.cmp("Enuc" + sfx, abs(float(out["Enuc"][r]) - mdl.enuc), TOL, "Enuc-vs-R1", mech("enuc"), det)
    acc.cmp("Etot" + sfx, abs(float(out["Etot"][r]) - etot_ref), tolE + TOL, "Etot-vs-R1", mech("etot"), det)
    acc.cmp("Eiso_sum" + sfx, abs(float(out["Eiso"][r]) - mdl.eiso_sum), TOL, "sum-of-isolated-atom-energies", mech("eiso"), det)
    acc.cmp("Hf" + sfx, abs(float(out["Hf"][r]) - mdl.heat(etot_ref)), tolE + 2 * TOL, "heat-of-formation", mech("hf"), det)
    # stationarity of the returned density for the independent functional: [F(P),P] = [F(P), P - P'] with P' the density
    # built from F(P); the stopping rule bounds max|P - P'| by 15 eps; plus the allowed difference of the two H matrices
    tolC = 2.0 * N * (fmax * 15.0 * EPS_SCF + pmax * (1e-7 + float(allow.max())))
    acc.cmp("commutator_FP" + sfx, comm, tolC, "returned-density-stationary-for-R1", mech("comm"), det)
    for (a, b), info in mdl.cc_info.items():
        if info["special"]:
            acc.cells.add("mol-core-core/%s/%s" % (method, info["special"][0] + "-" + info["special"][1]))
    obs = {"mol": name, "Etot": float(out["Etot"][r]), "Etot_R1": etot_ref, "Hf_kcal": float(out["Hf"][r]) * nddo.KCAL_PER_EV,
           "Hf_R1_kcal": mdl.heat(etot_ref) * nddo.KCAL_PER_EV, "commutator": float(comm)}
    return True, obs


def _run_mol(case):
    from vlib import run

    snap = _snapshot()
    acc = _Acc()
    method = case["method"]
    Z, X, q, m, g = _geometry(case)
    uhf = bool(case["uhf"])
    sett = run.settings(method, eps=EPS_SCF, converger=((1,) if uhf else (2,)), uhf=uhf)
    out = run.single_point(Z, X, sett, charges=q, mult=m)
    nc = out["notconverged"]
    if nc is not None and bool(np.any(nc)):
        mon, cells = _delta(snap)
        return {"ineligible": "SCF not converged (flagged by the package)", "monitors": mon, "cells": cells}
    ok, o = _compare_mol_row(acc, method, case["mol"], uhf, Z, X, q, m, out, 0)
    if not ok:
        mon, cells = _delta(snap)
        return {"ineligible": o["skipped"], "monitors": mon, "cells": cells}
    acc.bump("molecules_compared")
    acc.cells.add("mol/%s/%s/%s" % (method, case["mol"], "uhf" if uhf else "rhf"))
    obs = {"kind": "mol", "method": method, "uhf": uhf, "worst": acc.margins}
    obs.update(o)
    return acc.result(True, obs, snap)


def _batch_geometries(case):
    """rows of a batch case: each row its own library molecule, distortion, orientation and position"""
    g = np.random.default_rng(case["seed"])
    rows = []
    for name in case["mols"]:
        Z, X, q, m = gen.molecule(name)
        Xd = gen.distort(X, g, sigma=0.06)
        Xd = Xd @ gen.haar(g).T + g.uniform(-3, 3, 3)
        rows.append((name, Z, Xd, q, m))
    return rows, g


def _run_molbatch(case):
    """converged BATCH (2-4 molecules, same-species or zero-padded heterogeneous) through Electronic_Structure; every
    row is judged against the R1 functional at that row's own returned density"""
    from vlib import run

    snap = _snapshot()
    acc = _Acc()
    method = case["method"]
    uhf = bool(case["uhf"])
    rows, g = _batch_geometries(case)
    S, C = gen.pad_batch([(Z, X) for _, Z, X, _, _ in rows], extra_pad=int(case.get("extra_pad", 0)))
    charges = np.array([float(q) for _, _, _, q, _ in rows])
    mult = np.array([float(m) if uhf else 1.0 for _, _, _, _, m in rows])
    sett = run.settings(method, eps=EPS_SCF, converger=((1,) if uhf else (2,)), uhf=uhf)
    out = run.single_point(np.array(S), np.array(C), sett, charges=charges, mult=mult)
    nc = out["notconverged"]
    nc = np.zeros(len(rows), bool) if nc is None else np.asarray(nc).reshape(-1).astype(bool)
    layout = "same-species" if len(set(case["mols"])) == 1 else "padded-heterogeneous"
    compared, samples = 0, []
    for r, (name, Z, X, q, m) in enumerate(rows):
        if nc[r]:
            continue
        ok, o = _compare_mol_row(acc, method, name, uhf, Z, X, q, (m if uhf else 1), out, r, batch=list(case["mols"]))
        if ok:
            compared += 1
            samples.append(o)
            acc.cells.add("molbatch/%s/%s/%s/n%d" % (method, "uhf" if uhf else "rhf", layout, len(rows)))
    if compared == 0:
        mon, cells = _delta(snap)
        return {"ineligible": "no row of the batch converged / was comparable", "monitors": mon, "cells": cells}
    acc.bump("mol_uhf_batch_rows_compared" if uhf else "mol_rhf_batch_rows_compared", compared)
    obs = {"kind": "molbatch", "method": method, "uhf": uhf, "mols": case["mols"], "rows_compared": compared,
           "rows_not_converged": int(nc.sum()), "rows": samples[:4], "worst": acc.margins}
    return acc.result(True, obs, snap)


def _run_fockbatch(case):
    """`fock`, `fock_u_batch`, `G` and the CIS AO contraction / sigma builders on a BATCH of 2-4 molecules (same species with
    different geometries and densities per row, or zero-padded heterogeneous); every row is compared with R1 evaluated
    for that row's own geometry and its own (P, Palpha, Pbeta, dD, transition density)"""
    import torch
    from seqm.seqm_functions.fock import fock
    from seqm.seqm_functions.fock_u_batch import fock_u_batch
    from seqm.seqm_functions.G_XL_LR import G
    from seqm.seqm_functions.hcore import hcore
    from seqm.seqm_functions.rcis_batch import makeA_pi_batched, matrix_vector_product_batched
    from seqm.seqm_functions.rcis_new import makeA_pi_any_batched
    from vlib import run
    from vlib.ref import nddo

    snap = _snapshot()
    acc = _Acc()
    method = case["method"]
    rows, g = _batch_geometries(case)
    nmol = len(rows)
    extra = int(case.get("extra_pad", 0))
    S, C = gen.pad_batch([(Z, X) for _, Z, X, _, _ in rows], extra_pad=extra)
    charges = np.array([float(q) for _, _, _, q, _ in rows])
    sett = run.settings(method, eps=1e-8)
    with run.quiet():
        mol, es, sett2 = run.build(np.array(S), np.array(C), sett, charges=charges, mult=1)
        M, w, *_ = hcore(mol)
    M, w = M.detach(), w.detach()
    molsize = mol.molsize
    homogeneous = len(set(case["mols"])) == 1 and extra == 0
    layout = "same-species" if len(set(case["mols"])) == 1 else "padded-heterogeneous"
    if extra:
        layout += "+pad"
    mdls = [nddo.Model(method, Z, X) for _, Z, X, _, _ in rows]
    allows = [_res_allow(m_) for m_ in mdls]
    mech = lambda c: ("%s-%s-batch" % (c, method)).lower()

    def det(r):
        return {"method": method, "batch": list(case["mols"]), "row": r, "mol": rows[r][0], "species": list(rows[r][1]),
                "coords": rows[r][2].tolist(), "layout": layout}

    def rsym(N, scale=1.0):
        A = g.normal(size=(N, N)) * 0.3
        A = A + A.T
        A[np.diag_indices(N)] = g.uniform(0, 2, N)
        return A * scale

    def stack(Ps):
        return torch.tensor(np.stack([m_.embed(P, molsize) for m_, P in zip(mdls, Ps)]))

    Hfull = M.reshape(nmol, molsize, molsize, 4, 4).transpose(2, 3).reshape(nmol, 4 * molsize, 4 * molsize).numpy()
    # restricted builder, response operator
    P1 = [rsym(m_.nao) for m_ in mdls]
    D1 = [rsym(m_.nao) - np.eye(m_.nao) for m_ in mdls]
    F1 = fock(*_fock_args(mol, M, w, stack(P1), method)).detach().numpy()
    G1 = G(*_fock_args(mol, M, w, stack(D1), method)).detach().numpy()
    # unrestricted builder: layout (nmol, 2, N, N)
    Pa = [rsym(m_.nao, 0.5) for m_ in mdls]
    Pb = [rsym(m_.nao, 0.5) for m_ in mdls]
    PU = torch.stack([stack(Pa), stack(Pb)], dim=1)
    FU = fock_u_batch(*_fock_args(mol, M, w, PU, method)).detach().numpy()
    if FU.shape[:2] != (nmol, 2):
        return {"inconclusive": "fock_u_batch returned shape %r for a batch of %d" % (FU.shape, nmol)}
    for r, m_ in enumerate(mdls):
        Hr = np.triu(Hfull[r]) + np.triu(Hfull[r], 1).T
        tolm = TOL + allows[r]
        acc.cmp("hcore_molecule_batch", _amax((m_.extract(Hr) - m_.H) / tolm), 1.0, "one-electron-matrix", mech("hcore"), det(r))
        acc.cmp("fock_rhf_batch", _amax((m_.extract(F1[r]) - m_.fock_rhf(P1[r])) / tolm), 1.0, "fock-restricted", mech("fock"), det(r))
        acc.cmp("G_response_batch", _amax(m_.extract(G1[r]) - m_.G(D1[r])), TOL, "response-operator-G", mech("g"), det(r))
        Fa, Fb = m_.fock_uhf(Pa[r], Pb[r])
        eu = _vmax(_amax((m_.extract(FU[r, 0]) - Fa) / tolm), _amax((m_.extract(FU[r, 1]) - Fb) / tolm))
        acc.cmp("fock_uhf_batch", eu, 1.0, "fock-unrestricted", mech("focku"), det(r))
    acc.bump("fock_rhf_batch_rows_compared", nmol)
    acc.bump("G_batch_rows_compared", nmol)
    acc.bump("fock_uhf_batch_rows_compared", nmol)
    # CIS / RPA AO contraction on the batch
    nroots = 2
    if homogeneous:
        N = mdls[0].nao
        Pn = g.normal(size=(nmol, nroots, N, N))
        Fx = makeA_pi_batched(mol, torch.tensor(Pn), w).detach().numpy()
        e = _vmax(*[_amax(Fx[r, k] - mdls[r].G(Pn[r, k])) for r in range(nmol) for k in range(nroots)])
        acc.cmp("cis_ao_contraction_batch", e, TOL, "cis-ao-contraction-nonsymmetric", mech("cis-ao"), det(0))
        acc.bump("cis_batch_rows_compared", nmol)
        q0 = rows[0][3]
        nocc = int(round(mdls[0].n_valence - q0)) // 2
        nvir = N - nocc
        if nocc >= 1 and nvir >= 1:
            Cs = [np.linalg.qr(g.normal(size=(N, N)))[0] for _ in range(nmol)]
            eo = [np.sort(g.uniform(-40, -8, nocc)) for _ in range(nmol)]
            ev = [np.sort(g.uniform(-2, 12, nvir)) for _ in range(nmol)]
            V = g.normal(size=(nmol, nroots, nocc * nvir))
            ea_ei = torch.tensor(np.stack([ev[r][None, :] - eo[r][:, None] for r in range(nmol)]))
            Co = torch.tensor(np.stack([c[:, :nocc] for c in Cs]))
            Cv = torch.tensor(np.stack([c[:, nocc:] for c in Cs]))
            Av, Bv = matrix_vector_product_batched(mol, torch.tensor(V), w, ea_ei, Co, Cv, makeB=True)
            Av, Bv = Av.detach().numpy(), Bv.detach().numpy()
            ea = eb = 0.0
            for r in range(nmol):
                for k in range(nroots):
                    Xr = V[r, k].reshape(nocc, nvir)
                    ea = _vmax(ea, _amax(Av[r, k].reshape(nocc, nvir) - mdls[r].cis_sigma(Cs[r][:, :nocc], Cs[r][:, nocc:], eo[r], ev[r], Xr)))
                    eb = _vmax(eb, _amax(Bv[r, k].reshape(nocc, nvir) - mdls[r].rpa_b_sigma(Cs[r][:, :nocc], Cs[r][:, nocc:], Xr)))
            acc.cmp("cis_sigma_A_batch", ea, 4 * TOL, "cis-sigma-vector-A", mech("cis-a"), det(0))
            acc.cmp("rpa_sigma_B_batch", eb, 4 * TOL, "rpa-sigma-vector-B", mech("rpa-b"), det(0))
    else:
        nmax = max(m_.nao for m_ in mdls)
        Pn = np.zeros((nmol, nroots, nmax, nmax))
        for r, m_ in enumerate(mdls):
            Pn[r, :, :m_.nao, :m_.nao] = g.normal(size=(nroots, m_.nao, m_.nao))
        Fx = makeA_pi_any_batched(mol, torch.tensor(Pn), w).detach().numpy()
        e = _vmax(*[_amax(Fx[r, k, :mdls[r].nao, :mdls[r].nao] - mdls[r].G(Pn[r, k, :mdls[r].nao, :mdls[r].nao]))
                    for r in range(nmol) for k in range(nroots)])
        acc.cmp("cis_ao_contraction_anybatch", e, TOL, "cis-ao-contraction-heterogeneous-batch", mech("cis-ao-any"), det(0))
        acc.bump("cis_batch_rows_compared", nmol)
    acc.cells.add("fockbatch/%s/%s/n%d" % (method, layout, nmol))
    obs = {"kind": "fockbatch", "method": method, "mols": case["mols"], "layout": layout, "molsize": int(molsize), "worst": acc.margins}
    return acc.result(True, obs, snap)


def run_case(case):
    if _MISSING:
        return {"inconclusive": "package symbol(s) not found for wrapping: %s" % ", ".join(_MISSING)}
    kind = case["kind"]
    if kind == "pairs":
        return _run_pairs(case)
    if kind == "fock":
        return _run_fock(case)
    if kind == "mol":
        return _run_mol(case)
    if kind == "molbatch":
        return _run_molbatch(case)
    if kind == "fockbatch":
        return _run_fockbatch(case)
    raise ValueError(kind)


# ---------------------------------------------------------------------------------------------------
# coverage summary
# ---------------------------------------------------------------------------------------------------
def summarize(cases, results, report):
    want = {m: set((a, b) for a in gen.ELEMENTS[m] for b in gen.ELEMENTS[m] if a >= b) for m in METHODS}
    got = {m: set() for m in METHODS}
    geoms = {m: 0 for m in METHODS}
    for c, r in zip(cases, results):
        if c.get("kind") != "pairs" or not r or r.get("inconclusive") or r.get("harness_error") or r.get("skipped"):
            continue
        for row in c["rows"]:
            got[c["method"]].add((row[0], row[1]))
            geoms[c["method"]] += 1
    cells = report.cells
    out = {"pair_matrix": {m: {"pairs_covered": len(got[m] & want[m]), "pairs_total": len(want[m]), "geometries": geoms[m],
                               "missing": sorted("%d-%d" % p for p in want[m] - got[m])[:40]} for m in METHODS},
           "overlap_qn_classes": sorted(k.split("/", 1)[1] for k in cells if k.startswith("overlap-class/")),
           "pair_classes": sorted(k.split("/", 1)[1] for k in cells if k.startswith("pair-class/")),
           "core_core_cases": sorted(k.split("/", 1)[1] for k in cells if k.startswith("core-core/")),
           "kernel_branches_seen_by_wrappers": sorted(k.split("/", 1)[1] for k in cells if k.startswith("seen/")),
           "molecules": sorted(k.split("/", 1)[1] for k in cells if k.startswith("mol/")),
           "fock_molecules": sorted(k.split("/", 1)[1] for k in cells if k.startswith("fock/"))}
    return out
