"""C15 — results depend only on the call's inputs, not on process history, object reuse or thread count.

Oracle: relational (metamorphic).  A pool of ~36 deliberately contrasting jobs (vlib/c15jobs.py: methods x solvers x
SP2 x UHF x excited states x batches x thresholds 1e-3..1e-11 x scf_backward 0/1/2 with a backward pass x short MD runs
x an XL-BOMD evaluation x an optimiser run x calls that must raise).  The *reference* result of a job is what a brand-new
process returns when the job is the first thing it does.  Histories are executed in ONE other new process each:
random prefixes of other jobs (incl. failing calls and RNG consumption) with settings-dictionary / driver reuse or not,
interleaved forward passes followed by a joint (or re-ordered) backward pass, one dictionary handed to a second
molecule, one MD engine / optimiser object (Basic, Langevin, XL_BOMD, KSA_XL_BOMD, Geometry_Optimization_SD) used for a
second run, thread counts 1..16.

Clauses
  * immediate repeat of a job in the same process                      => bitwise identical digest
  * any history / reuse / thread count                                 => equal within the job's own threshold bounds
                                                                          (C04 algebra; bitwise equality is counted)
  * a job that succeeds fresh must not raise after a history; a job that must raise still raises the same type
  * a reused DRIVER given a molecule with elements it was not built for may refuse loudly (counted, not judged)
Snapshots of SCF class attributes, mutable default dictionaries and module caches before/after every step are
auxiliary evidence (monitors 'state_changed/...'), never the verdict."""
import json
import os
import shutil
import subprocess

import numpy as np

from vlib import c15jobs as J
from vlib import env, gen

PROPERTY = "C15"
RULE = ("case = one history executed in one new process: fresh (job twice), seq (1-8 random other jobs, reuse flags "
        "none/dict/driver/engine per step, then every step judged against the job's fresh-process result), interleave "
        "(forwards of 2-4 differentiable jobs, then joint/fifo/lifo backward), dictreuse (one settings dict, two "
        "molecules), enginereuse (one MD engine / optimiser object, consecutive runs on fresh Molecule objects, also with "
        "control_energy_shift / scale_vel), options (ordered pairs of jobs with dispersion / cutoff / alternative "
        "parameter files / learned lists), stochastic (seeded Langevin / damped XL-BOMD from preset velocities: A, other RNG "
        "use, A), farpair (a system with a pair > 21.2 A repeated after other jobs and heap poisoning), interleaved-build "
        "(build A, build B, then run A), threads (torch.set_num_threads 2,4,8,16,1 before the job); non-trivial when at least one step "
        "was compared with a fresh-process reference; distinct by SHA-1 of the case")
ASSUMPTIONS = ["float64 CPU", "the fresh-process reference of a job is computed once per check run and shared between "
               "cases through a scratch cache (it is deterministic: verified by the 'fresh' cases, which run it twice)",
               "bounds: E 1e-9+20xA, force/gradients/orbital energies 1e-7+2e3xA, charges/density 1e-8+300xA, MD "
               "coordinates/velocities 1e-9+1e-2*force bound, x = max(scf_eps, SP2 tolerance, CIS tolerance) of the job, "
               "A = 1/(1-alpha) for fixed mixing",
               "a reused driver object confronted with new elements may raise (loud rejection), per the maintainers' fix"]
REQUIRED_MONITORS = ["fresh_processes", "immediate_repeats_compared", "steps_judged_after_history",
                     "dict_reuse_steps_judged", "driver_reuse_steps_judged", "interleave_jobs_judged",
                     "thread_steps_judged", "raising_steps_judged", "engine_reuse_steps_judged",
                     "engine_reuse_with_run_options_judged", "option_job_steps_judged",
                     "seeded_stochastic_preset_velocity_steps_judged", "far_pair_jobs_after_heap_poisoning",
                     "interleaved_build_then_run_judged", "interleaved_build_then_run_engines_judged"]
CASE_TIMEOUT = 1200.0
BUDGET_S = {"quick": float(os.environ.get("VERIF_C15_BUDGET", 230)), "thorough": float(os.environ.get("VERIF_C15_BUDGET", 1700))}
MIN_NONTRIVIAL = 6
CHILD_TIMEOUT = 600.0

E_KEYS = ("Etot", "Eelec", "Enuc", "Hf")
MO_KEYS = ("e_mo", "gap", "cis_energies")
Q_KEYS = ("q", "dm")


# =========================================================================================
# case generation
# =========================================================================================
_OK_JOBS = [k for k in J.JOBS if J.JOBS[k].get("expect") != "raises"]
_SIG_A = [k for k in J.JOBS if J.JOBS[k]["sig"] == "A"]


_POOL_LIMIT = [None]  # quick tier: random steps only draw jobs that the named cells use anyway (no extra reference processes)


def _pick(g, lst):
    if _POOL_LIMIT[0] is not None:
        lst = [j for j in lst if j in _POOL_LIMIT[0]] or lst
    return lst[int(g.integers(0, len(lst)))]


def _rand_step(g, allow_raise=True):
    r = g.random()
    if allow_raise and r < 0.12:
        return {"job": J.RAISE_JOBS[int(g.integers(0, len(J.RAISE_JOBS)))], "reuse": ["none", "dict"][int(g.integers(0, 2))]}
    if r < 0.15:
        return {"consume_rng": int(g.integers(1, 50))}
    if r < 0.19:
        return {"poison_heap": 1}
    if r < 0.40:  # favour the family that shares one settings template (dictionary / driver reuse is meaningful there)
        job = _pick(g, _SIG_A)
    elif r < 0.58:  # rarely used options that carry their own tables / module state, in either order
        job = _pick(g, J.OPTION_JOBS)
    else:
        job = _pick(g, _OK_JOBS)
    modes = ["none", "dict", "engine"] if job in J.ENGINE_JOBS else ["none", "dict", "driver"]
    return {"job": job, "reuse": modes[int(g.integers(0, 3))]}


# engines run with options that keep a reference on the engine object (energy-shift reference, velocity rescaling)
_OPTION_ENGINE_PAIRS = [("md_shift_h2o", "md_shift_h2o_b"), ("md_scale_nh3", "md_scale_nh3_b"),
                        ("md_xlshift_h2o", "md_xlshift_h2o_b"), ("md_lshift_nh3", "md_lshift_nh3_b")]
_ENGINE_PAIRS = [("md_xl_h2o", "md_xl_h2o_b"), ("md_ksa_h2o", "md_ksa_h2o_b"), ("md_bomd_h2o", "md_bomd_h2o_b"),
                 ("md_lang_nh3", "md_lang_nh3_b"), ("opt_sd_h2o", "opt_sd_h2o_b"), ("md_xl_h2o", "md_xl_h2o"),
                 ("md_ksa_h2o_b", "md_ksa_h2o"), ("md_xl_h2o_b", "md_xl_h2o")]


def gen_cases(tier, seed):
    g = gen.rng("C15", tier)
    cases = []
    nseq, nint, nthr = (8, 4, 3) if tier == "quick" else (260, 70, 30)
    # --- interleavings (the tight-then-loose pair is always present)
    pairs = [(["g_am1_h2o_tight", "g_am1_nh3_loose"], "joint"), (["g_am1_h2o_tight", "g_pm6sp_h2s_sb1"], "fifo"),
             (["g_pm3_hcn_param", "g_am1_nh3_loose", "g_mndo_nh3_sb2"], "joint"),
             (["g_am1_nh3_loose", "g_am1_h2o_tight"], "lifo")]
    for i in range(nint):
        if i < len(pairs):
            jobs, order = pairs[i]
        else:
            k = int(g.integers(2, 5))
            jobs = [J.GRAD_JOBS[int(x)] for x in g.permutation(len(J.GRAD_JOBS))[:k]]
            order = ["joint", "fifo", "lifo"][int(g.integers(0, 3))]
        pre = [_rand_step(g) for _ in range(int(g.integers(0, 3)))] if tier == "thorough" else \
            [{"job": "am1_h2o", "reuse": "none"}][:int(g.integers(0, 2))]
        cases.append({"kind": "interleave", "steps": pre + [{"interleave": jobs, "order": order}]})
    # --- one dictionary, two molecules (pristine copy = the fresh reference)
    dr = [("am1_h2o", "am1_ch4", "dict"), ("am1_h2o", "am1_hcl", "dict"), ("am1_ch4", "am1_h2o", "driver"),
          ("am1_h2o", "am1_h2o_b", "driver"), ("r_odd_rhf", "am1_ch4", "dict"), ("am1_h2o", "am1_nh3", "driver"),
          ("am1_hcl", "am1_h2o", "dict"), ("r_unsorted", "am1_nh3", "dict")]
    if tier == "thorough":
        for a in _SIG_A:
            for b in _SIG_A:
                for mode in ("dict", "driver"):
                    if (a, b, mode) not in dr and J.JOBS[b].get("expect") != "raises":
                        dr.append((a, b, mode))
    # first use vs second use of ONE dictionary by the same job (the package tightens scf_eps inside the caller's dict)
    dr += [("am1_ch2o_cis_loose", "am1_ch2o_cis_loose", "dict"), ("am1_ch2o_cis", "am1_ch2o_cis_loose", "driver")]
    for a, b, mode in dr:
        cases.append({"kind": "dictreuse", "steps": [{"job": a, "reuse": mode}, {"job": b, "reuse": mode},
                                                      {"job": b, "reuse": mode}]})
    # --- one MD engine / optimiser OBJECT used for two consecutive runs on fresh Molecule objects
    ep = _ENGINE_PAIRS[:4] if tier == "quick" else _ENGINE_PAIRS + [(b, a) for a, b in _ENGINE_PAIRS[:5]]
    ep = _OPTION_ENGINE_PAIRS + ep + ([(b, a) for a, b in _OPTION_ENGINE_PAIRS] if tier == "thorough" else [])
    for a, b in ep:
        cases.append({"kind": "enginereuse", "steps": [{"job": a, "reuse": "engine"}, {"job": b, "reuse": "engine"}]})
    if tier == "thorough":
        for a, b in _ENGINE_PAIRS[:5]:
            cases.append({"kind": "enginereuse", "steps": [{"job": a, "reuse": "engine"}, {"job": b, "reuse": "engine"},
                                                          {"job": a, "reuse": "engine"}]})
    # --- jobs with rarely used options (dispersion tables, cutoffs, alternative parameter files, learned lists), separate
    # settings dictionaries, every ordered pair of the dispersion family (same largest Z, different element sets)
    op = [("disp_h2o_dimer", "disp_ch2o_dimer"), ("disp_ch2o_dimer", "disp_h2o_dimer"), ("disp_h2o_dimer", "disp_batch"),
          ("disp_nh3_dimer", "disp_hcn_dimer"), ("pm3_h2o", "pm3_h2o_altparams"), ("pm3_h2o_altparams", "pm3_h2o"),
          ("am1_h2o_learned", "am1_h2o"), ("am1_dimer_cutoff", "disp_h2o_dimer"), ("am1_h2o_hfflag", "am1_h2o_b")]
    if tier == "quick":
        op = op[:7]
    if tier == "thorough":
        op += [(a, b) for a in J.DISP_JOBS for b in J.DISP_JOBS if a != b and (a, b) not in op]
        op += [(a, b) for a in J.OPTION_JOBS for b in ("am1_h2o", "pm3_h2o") if (a, b) not in op]
    for a, b in op:
        cases.append({"kind": "options", "steps": [{"job": a, "reuse": "none"}, {"job": b, "reuse": "none"},
                                                    {"job": a, "reuse": "none"}]})
    # --- seeded stochastic engines from preset velocities: A, (other RNG use), A
    sp_ = [("md_lang_preset", {"consume_rng": 17}), ("md_xldamp_preset", {"job": "md_lang_nh3", "reuse": "none"})]
    if tier == "thorough":
        sp_ += [("md_lang_preset", {"job": "md_bomd_h2o", "reuse": "none"}), ("md_xldamp_preset", {"consume_rng": 3}),
                ("md_lang_preset", {"job": "md_xldamp_preset", "reuse": "none"})]
    for a, mid in sp_:
        cases.append({"kind": "stochastic", "steps": [{"job": a, "reuse": "none"}, mid, {"job": a, "reuse": "none"}]})
    # --- far pairs (> 21.2 A): the same job repeated in one process after unrelated jobs and allocator traffic that leaves
    # NaN / huge values in freed memory; bit-identical to itself and to the fresh-process reference
    fp = [("far_h2o_dimer", ["am1_c6h6", "pm3_ch3oh_sp2"]), ("far_batch", ["am1_batch"]), ("md_far_h2o", ["md_bomd_h2o"]),
          ("far_ch2o_pm3", ["am1_ch2o_cis"])]
    if tier == "thorough":
        fp += [(a, [b]) for a in J.FAR_JOBS for b in ("am1_c6h6", "pm6_hcl", "mndo_nh2_uhf", "disp_batch")]
    for a, others in fp:
        st = [{"job": a, "reuse": "none"}]
        for o in others:
            st.append({"job": o, "reuse": "none"})
        st += [{"poison_heap": 2}, {"job": a, "reuse": "none"}, {"poison_heap": 1}, {"job": a, "reuse": "none"}]
        cases.append({"kind": "farpair", "steps": st})
    # --- objects built in interleaved order: build A, build B (other method / elements / learned parameters), THEN run A
    ib = [(["md_bomd_ch2o", "pm3_ch2o"], ["md_bomd_ch2o", "pm3_ch2o"]), (["md_lang_ch2o", "pm3_ch2o"], ["md_lang_ch2o"]),
          (["am1_h2o", "am1_h2o_learned", "pm3_h2o"], ["am1_h2o", "pm3_h2o"]), (["opt_sd_h2o", "am1_hcl"], ["opt_sd_h2o"]),
          (["g_am1_h2o_tight", "pm3_h2o_altparams"], ["g_am1_h2o_tight"])]
    if tier == "thorough":
        ib += [(["md_xl_h2o", "pm3_h2o"], ["md_xl_h2o"]), (["md_ksa_h2o", "am1_h2o_learned"], ["md_ksa_h2o"]),
               (["md_bomd_h2o", "am1_nh3"], ["md_bomd_h2o", "am1_nh3"]), (["pm3_ch2o", "md_bomd_ch2o"], ["pm3_ch2o", "md_bomd_ch2o"]),
               (["md_lang_nh3", "mndo_nh2_uhf", "am1_nh3"], ["md_lang_nh3", "am1_nh3"]), (["xl_eval_ch2o", "pm3_ch2o"], ["xl_eval_ch2o"]),
               (["md_shift_h2o", "pm6sp_h2s"], ["md_shift_h2o"]), (["am1_ch2o_cis", "pm3_ch2o", "md_bomd_ch2o"], ["am1_ch2o_cis", "md_bomd_ch2o"])]
    for build, runs in ib:
        pre = [_rand_step(g)] if tier == "thorough" else []
        cases.append({"kind": "interleaved-build", "steps": pre + [{"build": build, "run": runs}]})
    # --- thread counts
    tj = ["am1_c6h6", "am1_batch", "pm3_ch3oh_sp2", "g_am1_h2o_tight", "md_bomd_h2o"]
    for i in range(nthr):
        job = tj[i] if i < len(tj) else _OK_JOBS[int(g.integers(0, len(_OK_JOBS)))]
        order = [2, 4, 8, 16, 1] if i < len(tj) else [int(x) for x in g.permutation([1, 2, 3, 4, 6, 8, 12, 16])[:5]]
        st = []
        for n in order:
            st += [{"set_threads": n}, {"job": job, "reuse": "none"}]
        cases.append({"kind": "threads", "steps": st})
    # --- random histories
    if tier == "quick":
        named = set()
        for c in cases:
            for st in c["steps"]:
                named |= set(st.get("interleave", [])) | set(st.get("run", [])) | ({st["job"]} if "job" in st else set())
        _POOL_LIMIT[0] = named
    for i in range(nseq):
        n = int(g.integers(1, 6 if tier == "quick" else 9))
        steps = [_rand_step(g) for _ in range(n)]
        target = _pick(g, _OK_JOBS)
        modes = ["none", "dict", "engine"] if target in J.ENGINE_JOBS else ["none", "dict", "driver"]
        steps.append({"job": target, "reuse": modes[int(g.integers(0, 3))]})
        if g.random() < 0.5:
            steps.append({"job": target, "reuse": steps[-1]["reuse"]})  # immediate repeat after a history
        cases.append({"kind": "seq", "steps": steps})
    # --- every job fresh, twice (reference + immediate repeat); cheap, and they warm the shared reference cache
    # (first in the list: they fill the shared reference cache in parallel, so the histories only read it)
    used = set(J.RAISE_JOBS)
    for c in cases:
        for st in c["steps"]:
            used |= set(st.get("interleave", [])) | set(st.get("run", [])) | ({st["job"]} if "job" in st else set())
    fresh = [{"kind": "fresh", "job": k} for k in J.JOBS if tier == "thorough" or k in used]
    _POOL_LIMIT[0] = None
    return fresh + cases


# =========================================================================================
# worker side
# =========================================================================================
def _cache_dir():
    d = os.path.join(os.environ.get("VERIF_SCRATCH_BASE") or "/tmp", "pyseqm-c15-cache-%d" % os.getppid())
    os.makedirs(d, exist_ok=True)
    return d


def _child(steps, scratch):
    spec = {"scratch": scratch, "threads": 1, "steps": steps}
    try:
        r = subprocess.run([env.PY, "-m", "vlib.c15jobs"], input=json.dumps(spec), env=env.child_env(), cwd=env.VERIF,
                           capture_output=True, text=True, timeout=CHILD_TIMEOUT)
    except subprocess.TimeoutExpired:
        return None, "child process exceeded %.0f s" % CHILD_TIMEOUT
    if r.returncode != 0:
        return None, "child exited %d: %s" % (r.returncode, r.stderr[-400:])
    try:
        return json.loads(r.stdout), None
    except ValueError:
        return None, "unparsable child output %r" % r.stdout[:200]


def _fresh(job, scratch, mon):
    """reference: the job as the first thing a new process does (run twice there: immediate repeat)."""
    path = os.path.join(_cache_dir(), job + ".json")
    if os.path.exists(path):
        try:
            with open(path) as f:
                mon["fresh_reference_cache_hits"] = mon.get("fresh_reference_cache_hits", 0) + 1
                return json.load(f), None
        except ValueError:
            pass
    res, err = _child([{"job": job, "reuse": "none"}, {"job": job, "reuse": "none"}], scratch)
    if res is None:
        return None, err
    mon["fresh_processes"] = mon.get("fresh_processes", 0) + 1
    tmp = path + ".%d.tmp" % os.getpid()
    with open(tmp, "w") as f:
        json.dump(res, f)
    os.replace(tmp, path)
    return res, None


def _tol(key, job):
    e, A = J.eps_eff(job)
    x = e * A
    k = key[len("restart_"):] if key.startswith("restart_") else key
    tf = 1e-7 + 2e3 * x
    if k in E_KEYS:
        return 1e-9 + 20 * x
    if k in ("force",) or k.startswith("grad_"):
        return tf
    if k in MO_KEYS:
        return 1e-7 + 2e3 * x
    if k in Q_KEYS:
        return 1e-8 + 300 * x
    if k in ("md_x", "md_v"):
        return 1e-9 + 1e-2 * tf
    if k == "notconverged":
        return 0.0
    return tf


def _compare(job, ref, got):
    """-> (list of (key, diff, tol, ratio) exceeding, worst ratio per class, bitwise)"""
    bad, worst = [], {}
    bitwise = ref.get("sha") == got.get("sha")
    ra, ga = ref.get("arrays", {}), got.get("arrays", {})
    for k in sorted(set(ra) | set(ga)):
        if k not in ra or k not in ga:
            bad.append((k, None, None, 1e30))
            continue
        a, b = np.asarray(ra[k], float), np.asarray(ga[k], float)
        if a.shape != b.shape:
            bad.append((k, "shape %s vs %s" % (a.shape, b.shape), None, 1e30))
            continue
        if a.size == 0:
            continue
        fa, fb = np.isfinite(a), np.isfinite(b)
        if not (fa.all() and fb.all()):
            # a non-finite entry on one side only (or a different kind: nan vs inf) can never count as agreement
            same = np.array_equal(fa, fb) and np.array_equal(np.isnan(a), np.isnan(b)) and \
                np.array_equal(a[~fa & ~np.isnan(a)], b[~fb & ~np.isnan(b)])
            if not same:
                bad.append((k, "non-finite", None, 1e30))
                continue
            if not fa.any():
                continue
            a, b = a[fa], b[fb]
        d = float(np.abs(a - b).max())
        t = _tol(k, job)
        ratio = d / t if t > 0 else (0.0 if d == 0 else 1e30)
        if not np.isfinite(ratio):
            ratio = 1e30
        cls = "E" if k in E_KEYS else "F" if (k == "force" or k.startswith("grad_")) else "MO" if k in MO_KEYS else \
            "Q" if k in Q_KEYS else "MD" if k.startswith("md_") else "other"
        worst[cls] = max(worst.get(cls, 0.0), ratio)
        if not (ratio <= 1.0):
            bad.append((k, d, t, ratio))
    return bad, worst, bitwise


def _exc_type(r):
    return (r.get("exc") or "").split(":")[0]


def _mech_history(step, res, job):
    """deterministic classifier over the witness"""
    if res.get("dict_reused") and not res.get("driver_reused"):
        first = set(res.get("dict_first_elements") or [])
        if not set(J.elements(job)) <= first:
            return "reused-settings-dict-keeps-first-elements"
    return None


def _mech_interleave(jobs, i):
    s = J.JOBS[jobs[i]]["sett"]
    if s.get("scf_backward", 0) != 1:
        return None
    for j in jobs[i + 1:]:
        t = J.JOBS[j]["sett"]
        if (t["method"], t["scf_eps"]) != (s["method"], s["scf_eps"]):
            return "scf-backward-reads-class-attributes"
    return None


def run_case(case):
    mon, margins, viol, cells = {}, {}, [], []

    def inc(k, n=1):
        mon[k] = mon.get(k, 0) + n

    def upd(k, v):
        if v is not None and (k not in margins or v > margins[k]):
            margins[k] = v

    with env.Scratch("c15") as scratch:
        # ------------------------------------------------------------------ fresh: reference + immediate repeat
        if case["kind"] == "fresh":
            job = case["job"]
            res, err = _fresh(job, scratch, mon)
            if res is None:
                return {"inconclusive": err}
            a, b = res["steps"][0], res["steps"][1]
            expect_raise = J.JOBS[job].get("expect") == "raises"
            cells.append("fresh/%s" % J.JOBS[job]["kind"])
            if expect_raise:
                inc("raising_steps_judged", 2)
                for r in (a, b):
                    if r["status"] != "raised":
                        viol.append({"clause": "must-raise-returned", "mech": None, "detail": {"job": job}})
                if a["status"] == b["status"] == "raised" and _exc_type(a) != _exc_type(b):
                    viol.append({"clause": "repeat-raises-differently", "mech": None,
                                 "detail": {"job": job, "first": a.get("exc"), "second": b.get("exc")}})
            else:
                if a["status"] != "ok":
                    return {"ineligible": "job %s does not succeed in a fresh process: %s" % (job, a.get("exc"))}
                inc("immediate_repeats_compared")
                if b["status"] != "ok":
                    viol.append({"clause": "raises-on-immediate-repeat", "mech": None,
                                 "detail": {"job": job, "exc": b.get("exc"), "tb": b.get("tb")}})
                elif a["sha"] != b["sha"]:
                    bad, worst, _ = _compare(job, a, b)
                    viol.append({"clause": "immediate-repeat-not-bitwise", "mech": None,
                                 "detail": {"job": job, "sha": [a["sha"], b["sha"]],
                                            "differences": [(k, d) for k, d, t, r in bad][:6], "worst_ratio": worst}})
                else:
                    inc("immediate_repeats_bitwise_equal")
                for r in (a, b):
                    for s in r.get("state_changed", []):
                        inc("state_changed/" + s)
            return {"nontrivial": True, "violations": viol, "margins": margins, "monitors": mon, "cells": cells,
                    "obs": {"job": job, "status": [a["status"], b["status"]], "sha": a.get("sha"),
                            "state_changed_first_run": a.get("state_changed"), "wall": [a.get("wall"), b.get("wall")]}}

        # ------------------------------------------------------------------ histories
        res, err = _child(case["steps"], scratch)
        if res is None:
            return {"inconclusive": err}
        inc("history_processes")
        kind = case["kind"]
        judged = 0
        obs_steps = []
        prev = None  # (job, reuse, result) of the directly preceding job step, for the immediate-repeat clause
        threads_now = 1
        poisoned = False
        for st, r in zip(case["steps"], res["steps"]):
            if "set_threads" in st:
                threads_now = r.get("set_threads")
                if threads_now != st["set_threads"]:
                    inc("set_num_threads_not_honoured")
                prev = None
                continue
            if "consume_rng" in st:
                continue
            if "poison_heap" in st:
                poisoned = True  # allocator traffic changes no input: the immediate-repeat clause stays in force
                inc("heap_poisoning_steps")
                continue
            items = []
            if "build" in st:
                inc("interleaved_build_steps")
                if r.get("parameters_dict_shared"):
                    inc("molecule_parameters_dict_shared_between_objects", len(r["parameters_dict_shared"]))
                for a, keys in (r.get("parameters_changed_by_later_build") or {}).items():
                    viol.append({"clause": "molecule-parameters-changed-by-a-later-build", "mech": None,
                                 "detail": {"molecule_of_job": a, "built_in_order": st["build"], "changed_keys": keys[:12],
                                            "dict_shared_with": r.get("parameters_dict_shared")}})
                for rr in r["runs"]:
                    if rr.get("phase") == "build":
                        viol.append({"clause": "raises-while-building-after-history", "mech": None,
                                     "detail": {"job": rr["job"], "exc": rr.get("exc"), "built_in_order": st["build"]}})
                        continue
                    items.append((rr["job"], rr, "interleaved-build", None))
                prev = None
            elif "interleave" in st:
                for i, rr in enumerate(r["interleave"]):
                    items.append((rr["job"], rr, "interleave", _mech_interleave(st["interleave"], i)))
            else:
                items.append((st["job"], r, kind, None))
            for s in r.get("state_changed", []):
                inc("state_changed/" + s)
            for job, rr, where, mech0 in items:
                ref, err = _fresh(job, scratch, mon)
                if ref is None:
                    return {"inconclusive": "fresh reference of %s: %s" % (job, err)}
                fr = ref["steps"][0]
                expect_raise = J.JOBS[job].get("expect") == "raises"
                tag = "%s/%s" % (where, rr.get("reuse", "-"))
                obs_steps.append([job, rr["status"], rr.get("reuse"), rr.get("sha", "")[:8] == fr.get("sha", "x")[:8]])
                if rr.get("driver_reused_with_new_elements") and rr["status"] == "raised":
                    inc("driver_reuse_with_new_elements_rejected_loudly")
                    prev = None
                    continue
                if expect_raise or fr["status"] != "ok":
                    inc("raising_steps_judged")
                    if rr["status"] != "raised":
                        viol.append({"clause": "must-raise-returned-after-history", "mech": None,
                                     "detail": {"job": job, "steps": case["steps"]}})
                    elif _exc_type(rr) != _exc_type(fr):
                        viol.append({"clause": "raises-differently-after-history", "mech": _mech_history(st, rr, job),
                                     "detail": {"job": job, "fresh": fr.get("exc"), "after_history": rr.get("exc"),
                                                "steps": case["steps"]}})
                    prev = None
                    continue
                judged += 1
                inc("steps_judged_after_history")
                if where == "interleave":
                    inc("interleave_jobs_judged")
                if threads_now != 1 or kind == "threads":
                    inc("thread_steps_judged")
                    cells.append("threads/%s" % threads_now)
                if J.JOBS[job].get("run_kw") and rr.get("engine_reused"):
                    inc("engine_reuse_with_run_options_judged")
                if job in J.OPTION_JOBS:
                    inc("option_job_steps_judged")
                if job in J.FAR_JOBS and poisoned:
                    inc("far_pair_jobs_after_heap_poisoning")
                if where == "interleaved-build":
                    inc("interleaved_build_then_run_judged")
                    if J.JOBS[job]["kind"] in ("md", "opt"):
                        inc("interleaved_build_then_run_engines_judged")
                if job in J.STOCHASTIC_PRESET_JOBS:
                    inc("seeded_stochastic_preset_velocity_steps_judged")
                if rr.get("engine_reused"):
                    inc("engine_reuse_steps_judged")
                elif rr.get("driver_reused"):
                    inc("driver_reuse_steps_judged")
                elif rr.get("dict_reused"):
                    inc("dict_reuse_steps_judged")
                cells.append("%s/%s" % (tag, J.JOBS[job]["kind"]))
                mech = mech0 or _mech_history(st, rr, job)
                if rr["status"] != "ok":
                    viol.append({"clause": "raises-after-history", "mech": mech,
                                 "detail": {"job": job, "exc": rr.get("exc"), "tb": rr.get("tb"), "reuse": rr.get("reuse"),
                                            "dict_first_elements": rr.get("dict_first_elements"),
                                            "job_elements": J.elements(job), "steps": case["steps"], "threads": threads_now}})
                    prev = None
                    continue
                bad, worst, bitwise = _compare(job, fr, rr)
                for c, v in worst.items():
                    upd("history_%s" % c, v)
                inc("bitwise_equal_to_fresh" if bitwise else "not_bitwise_but_compared")
                if bad:
                    viol.append({"clause": "differs-after-history/%s" % where, "mech": mech,
                                 "detail": {"job": job, "reuse": rr.get("reuse"), "threads": threads_now,
                                            "differences": [{"key": k, "diff": d, "bound": t, "ratio": ra} for k, d, t, ra in bad][:8],
                                            "dict_first_elements": rr.get("dict_first_elements"),
                                            "job_elements": J.elements(job), "steps": case["steps"]}})
                # immediate repeat inside a history (same job, same reuse mode, directly after itself)
                if prev is not None and prev[0] == job and prev[1] == rr.get("reuse") \
                        and where not in ("interleave", "interleaved-build") \
                        and prev[2]["status"] == "ok":
                    inc("immediate_repeats_compared")
                    if prev[2]["sha"] != rr["sha"]:
                        b2, w2, _ = _compare(job, prev[2], rr)
                        viol.append({"clause": "immediate-repeat-not-bitwise", "mech": None,
                                     "detail": {"job": job, "reuse": rr.get("reuse"), "worst_ratio": w2,
                                                "differences": [(k, d) for k, d, t, ra in b2][:6], "steps": case["steps"]}})
                    else:
                        inc("immediate_repeats_bitwise_equal")
                prev = (job, rr.get("reuse"), rr) if where not in ("interleave", "interleaved-build") else None
    return {"nontrivial": judged > 0, "violations": viol, "margins": margins, "monitors": mon, "cells": sorted(set(cells)),
            "obs": {"kind": kind, "steps": obs_steps, "judged": judged, "worst": margins}}


def summarize(cases, results, report):
    """parent side: remove the shared reference cache of this run"""
    d = os.path.join(os.environ.get("VERIF_SCRATCH_BASE") or "/tmp", "pyseqm-c15-cache-%d" % os.getpid())
    n = len(os.listdir(d)) if os.path.isdir(d) else 0
    shutil.rmtree(d, ignore_errors=True)
    return {"jobs_in_pool": len(J.JOBS), "fresh_references_cached": n,
            "state_snapshot_note": "monitors named state_changed/<what> count steps after which that piece of "
                                   "process-global state differed from before the step (auxiliary evidence only)"}
