"""C14 — the observables published by Electronic_Structure.forward are mutually consistent.

Oracle: invariant at a hook (post-condition bundle, vlib/obs14.py) evaluated on the attributes the real call
left on the molecule, plus one metamorphic clause (dipole under translation).  Everything the bundle compares
against is recomputed outside the code under test from the shipped parameter CSVs, the input geometry and the
RETURNED density matrix; the only repository code it calls is `hcore` + `fock`/`fock_u_batch`, to rebuild the
Fock matrix from the returned density."""
import os

import numpy as np

from vlib import gen
from props import c01_force_gradient as c01

PROPERTY = "C14"
RULE = ("case = (library molecule or X-H / X-X diatomic for every parametrised element, distortion, orientation, method, "
        "SCF converger, SP2, scf_eps, RHF/UHF, charge, ground or CIS/RPA active state and evaluator, batch layout, "
        "translation vector, optional repeated call on the same Molecule object after a displacement); non-trivial when "
        "the call returned and the bundle compared >= 1 converged row; distinct by SHA-1 of the case")
ASSUMPTIONS = [
    "float64 CPU, one torch thread",
    "the shipped parameter CSV files are the property's given; they are parsed by the check's own reader",
    "atomic heats of formation: MOPAC BLOCK DATA values (kcal/mol) entered in vlib/obs14.py and 23.061 kcal/mol per eV; "
    "isolated-atom energies from the valence configuration formula (EISOL) - both independent of seqm/constants.py",
    "TRUSTED repository code: seqm_functions.hcore.hcore and seqm_functions.fock.fock / fock_u_batch.fock_u_batch are "
    "used to rebuild the Fock matrix from the returned density (their correctness is C06's subject); the eigenvalues "
    "are then taken with numpy on the sub-block of real orbitals selected by the check itself",
    "TRUSTED constants: the package's e*Angstrom -> a.u. dipole factor (to_debye*debye_to_AU) is used for the tight "
    "1e-9 formula comparison and is itself only required to lie within 1e-3 of the CODATA conversion",
    "core-core recomputation (Enuc clause) covers MNDO, AM1, PM3; PM6_SP pair terms are left to the NDDO reference of C06",
    "translation clause run at scf_eps 1e-11; bound 1e-8 + 120*eps*A(alpha)*N*(|t|+r_max)*1.89 from the SCF stopping "
    "rule max|dP| <= 15 eps on both runs (4 diagonal elements per atom, two runs); SP2 cells add "
    "80*sp2_tol_clamped*N*(|t|+r_max)*1.89 and are reported under their own margin name",
]
REQUIRED_MONITORS = ["rows", "emo_compared", "dipole_compared", "hf_compared", "translation_pairs", "rows_uhf",
                     "rows_ion", "rows_excited", "batchcell_activemix", "batchcell_chargemix", "rows_ground_in_mixed_active_batch",
                     "gap_vs_alone_compared", "rows_dispersion_nonzero", "xl_calls", "xl_calls_krylov",
                     "xl_rows_dm_differs_from_P0", "orbital_pairs_checked", "repeat_calls_with_cycle_of_length_ge3", "orbital_population_rows",
                     "xl_calls_with_nonzero_entropy", "state_dipole_rows_compared", "state_dipole_alone_vs_batch_compared", "rows_hf_flag_false",
                     "xl_rows_hf_flag_false"]
CASE_TIMEOUT = 600.0
BUDGET_S = {"quick": float(os.environ.get("VERIF_BUDGET_QUICK", 200)), "thorough": float(os.environ.get("VERIF_BUDGET_THOROUGH", 1500))}

EPS_CHOICES = [1e-6, 1e-8, 1e-10, 1e-11]


def _element_cases(g, tier):
    """X-H and X-X diatomics so that every element of every table passes through Eiso / eheat / D1 / Enuc."""
    out = []
    for method in c01.METHODS:
        for z in gen.ELEMENTS[method]:
            partners = [1, z] if tier == "quick" else [1, z, 8, 6]
            for p in partners:
                if p not in gen.ELEMENTS[method]:
                    continue
                uhf = (gen.VALENCE[z] + gen.VALENCE[p]) % 2 == 1 and int(g.integers(0, 2)) == 0
                c = c01._pair_case(g, method, z, p, [0.9, 1.0, 1.2][int(g.integers(0, 3))], c01._orient_generic(),
                                   modes=["autodiff"], uhf=uhf)
                out.append(c)
    return out


def _batch_cells(g, tier):
    """Named same-species batch cells (both tiers).

    activemix: 3 geometries of one molecule with a PER-MOLECULE active_state tensor {all ground, all excited, mixed
    incl. ground}, excited states configured, on the non-analytical energy routes (reverse-mode force with
    scf_backward 1 / 2, energy-only call do_force=False).
    chargemix: rows of identical species with DIFFERENT molecular charges (RHF: differing by an even number of
    electrons; UHF: per-row multiplicities); every row is also run alone and its gap compared."""
    quick = tier == "quick"
    out = []
    patterns = {"all0": [0, 0, 0], "allx": [2, 1, 3], "mixed": [0, 2, 1], "mixed2": [2, 0, 3]}
    plan = [("CH2O", "AM1", "cis", "autodiff-scfb1"), ("CH2O", "AM1", "cis", "energy-only"),
            ("C2H4", "PM3", "rpa", "energy-only"), ("H2O", "MNDO", "cis", "autodiff-scfb1")]
    if not quick:
        plan += [("CH2O", "PM3", "rpa", "autodiff-scfb1"), ("HCN", "AM1", "cis", "autodiff-scfb2"),
                 ("NH3", "PM6_SP", "cis", "energy-only"), ("CH3OH", "AM1", "cis", "energy-only"),
                 ("C2H4", "MNDO", "cis", "autodiff-scfb2"), ("HNO", "PM3", "cis", "autodiff-scfb1")]
    for name, method, xm, call in plan:
        for pat, vec in patterns.items():
            if quick and pat == "mixed2" and call != "energy-only":
                continue
            out.append({"kind": "batchcell", "cell": "activemix", "mol": name, "method": method,
                        "conv": [1] if call.endswith("scfb2") else [2], "sp2": None, "uhf": False,
                        "modes": ["autodiff" if call == "energy-only" else call], "call": call, "layout": "homog",
                        "orient": {"kind": "generic"}, "sigma": 0.05, "seed": int(g.integers(0, 2**31)),
                        "charges": [0, 0, 0], "mults": [1, 1, 1], "active_vec": vec, "pattern": pat,
                        "excited": {"method": xm, "n_states": 4, "active": max(vec)}, "eps": 1e-10})
    cm = [("H2O", "AM1", [0, 2, -2], None), ("H2O", "PM3", [2, 0], None), ("CH2O", "MNDO", [0, -2, 2], None),
          ("NH3", "PM6_SP", [2, 0, 0], None), ("H2O", "AM1", [0, 1, -1], [1, 2, 2]), ("CH2O", "PM3", [1, 0, 1], [2, 3, 2])]
    if not quick:
        cm += [("HCN", "AM1", [0, 2], None), ("CO", "PM3", [2, 0, -2], None), ("C2H4", "MNDO", [-2, 0, 2], None),
               ("HF", "PM6_SP", [0, 2], None), ("CH3OH", "AM1", [0, 2, 0], None), ("NH3", "MNDO", [0, 1, 0, -1], [1, 2, 3, 2]),
               ("H2S", "PM3", [0, 2, -2], None), ("CO2", "AM1", [0, 1, 2], [1, 2, 1])]
    for name, method, charges, mults in cm:
        uhf = mults is not None
        for conv in ([[2], [1]] if not uhf else [[1]]):
            if quick and conv == [1] and not uhf and name != "H2O":
                continue
            out.append({"kind": "batchcell", "cell": "chargemix", "mol": name, "method": method, "conv": conv, "sp2": None,
                        "uhf": uhf, "modes": ["autodiff"], "call": "force", "layout": "homog",
                        "orient": {"kind": "generic"}, "sigma": 0.05, "seed": int(g.integers(0, 2**31)),
                        "charges": list(charges), "mults": list(mults) if uhf else [1] * len(charges), "eps": 1e-10,
                        "alone": True})
    return out


def _disp_and_xl_cells(g, tier):
    """Named cells (both tiers).

    dispcell: AM1 with "dispersion": True (AM1-FS1 pair term, acts only beyond ~2.2-3.2 A) on benzene, dimers and a
    padded batch of both; Etot = Eelec + Enuc + E_disp (E_disp recomputed from the published formula) and
    Hf = Etot - sum Eiso + sum eheat with the RETURNED Etot.
    xlcell: the XL-BOMD route Electronic_Structure.forward(mol, P0=..., dm_prop="XL-BOMD", xl_bomd_params=...) with a
    NON-self-consistent auxiliary density P0 (converged density of a neighbouring geometry, optionally plus symmetric
    noise), plain and Krylov (max_rank 1-3, T_el 300-1500 K); neutral, ion, zero-padded batch.  Judged: every bundle
    clause that holds there by construction (Etot = Eelec + Enuc with the XL functional's Eelec, Enuc pair sum, Eiso, Hf,
    e_mo ascending, gap definition, charges from the REPORTED dm, charge sum, dipole from the REPORTED q and dm);
    e_mo-vs-eig(F[dm]) is NOT asserted (e_mo are eigenvalues of F[P0] on this route)."""
    quick = tier == "quick"
    out = []
    disp = [[("C6H6", None, None)], [("CH4", "CH4", 3.8)], [("H2O", "H2O", 3.2)],
            [("CH4", "H2O", 4.5), ("C6H6", None, None), ("H2O", "H2O", 4.2)]]
    if not quick:
        disp += [[("CH4", "CH4", 3.2)], [("CH4", "CH4", 5.0)], [("H2O", "H2O", 4.8)], [("C2H4", "C2H4", 3.8)],
                 [("NH3", "H2O", 3.5)], [("C2H6", None, None)], [("C6H6", "CH4", 4.5)], [("HCOOH", "HCOOH", 4.0)]]
    for dm in disp:
        for mode in (["autodiff"] if quick else ["autodiff", "analytical"]):
            out.append({"kind": "dispcell", "dimers": dm, "method": "AM1", "conv": [2], "sp2": None, "uhf": False,
                        "modes": [mode], "orient": {"kind": "generic"}, "dispersion": True,
                        "layout": "single" if len(dm) == 1 else "padded", "seed": int(g.integers(0, 2**31)), "eps": 1e-10})
    xl = [(["CH2O"], [0], "AM1"), (["CH2O"], [2], "AM1"), (["CH2O", "H2O"], [0, 0], "AM1"), (["NH4+"], [1], "PM3"),
          (["OH-", "CH4"], [-1, 0], "MNDO"), (["HCN"], [0], "PM6_SP")]
    if not quick:
        xl += [(["CH3OH", "H2O", "NH3"], [0, 0, 0], "PM3"), (["H3O+", "HCN"], [1, 0], "AM1"), (["C2H4"], [0], "MNDO"),
               (["HCOO-"], [-1], "AM1"), (["SO2"], [0], "PM3"), (["CH3F", "HF"], [0, 0], "PM6_SP")]
    kry = [None, {"max_rank": 3, "err_threshold": 0.0, "T_el": 1500.0}, {"max_rank": 1, "err_threshold": 0.0, "T_el": 300.0},
           {"max_rank": 2, "err_threshold": 0.0, "T_el": 800.0}]
    # thermally populated frontier levels: small-gap geometries (stretched H2, 90-degree twisted ethylene, stretched
    # LiH) at raised electronic temperature, so that the electronic entropy of the Krylov / finite-T kernel is NON-zero
    hot = [(["H2@2.5"], [0], "AM1", 3000.0, 3), (["C2H4@twist90"], [0], "AM1", 5000.0, 2),
           (["C2H4@twist0", "C2H4@twist90"], [0, 0], "PM3", 3000.0, 3), (["H2@3.0", "H2O"], [0, 0], "MNDO", 4000.0, 1)]
    if not quick:
        hot += [(["H2@2.0"], [0], "PM3", 6000.0, 2), (["C2H4@twist80"], [0], "MNDO", 4000.0, 3), (["LiH@3.5"], [0], "MNDO", 3000.0, 2),
                (["H2@2.5", "CH2O", "C2H4@twist90"], [0, 0, 0], "AM1", 3000.0, 3), (["HF@2.2"], [0], "PM6_SP", 5000.0, 2)]
    for names, charges, method, T, rank in hot:
        out.append({"kind": "xlcell", "mols": names, "charges": charges, "method": method, "conv": [1], "sp2": None,
                    "uhf": False, "modes": ["autodiff"], "layout": "single" if len(names) == 1 else "padded",
                    "orient": {"kind": "generic"}, "xl": {"max_rank": rank, "err_threshold": 0.0, "T_el": T}, "p0": "neighbour",
                    "seed": int(g.integers(0, 2**31)), "eps": 1e-10, "hot": True})
    for k, (names, charges, method) in enumerate(xl):
        variants = [(kry[0], "neighbour"), (kry[1 + k % 3], "neighbour")] if quick else \
            [(kp, p0) for kp in kry for p0 in ("neighbour", "noise")]
        for kp, p0 in variants:
            out.append({"kind": "xlcell", "mols": names, "charges": charges, "method": method, "conv": [1], "sp2": None,
                        "uhf": False, "modes": ["autodiff"], "layout": "single" if len(names) == 1 else "padded",
                        "orient": {"kind": "generic"}, "xl": kp, "p0": p0, "seed": int(g.integers(0, 2**31)),
                        "eps": 1e-10})
    return out


def _build_xlcell(case):
    g = np.random.default_rng(case["seed"])
    rows = []
    for name, q in zip(case["mols"], case["charges"]):
        base, _, spec = name.partition("@")
        Z, X0, _, _ = gen.molecule(base)
        if spec.startswith("twist"):
            # ethylene (library: C=C on x, molecule in the xy plane): rotate the CH2 group with x < 0 about the C=C axis
            t = np.radians(float(spec[5:]))
            X0 = np.asarray(X0, float).copy()
            Rx = np.array([[1, 0, 0], [0, np.cos(t), -np.sin(t)], [0, np.sin(t), np.cos(t)]])
            sel = X0[:, 0] < 0
            X0[sel] = X0[sel] @ Rx.T
        elif spec:
            # diatomic stretched to the given bond length
            X0 = np.asarray(X0, float).copy()
            v = X0[1] - X0[0]
            X0[1] = X0[0] + v / np.linalg.norm(v) * float(spec)
        X = gen.distort(X0, g, sigma=0.05 if not spec else 0.01)
        X = X @ gen.generic_rotation(X, g).T
        rows.append((Z, X + g.uniform(-3, 3, 3), q, 1))
    return rows


def run_xlcell(case):
    """SCF at x -> converged D0; XL-BOMD evaluation at a displaced geometry with P0 = D0 (+ noise)."""
    import torch
    from vlib import obs14, run
    rows = _build_xlcell(case)
    S, C, Q, M = c01._batch_arrays(case, rows)
    single = len(rows) == 1
    qarg = Q[0] if single else np.asarray(Q, float)
    g = np.random.default_rng(case["seed"] + 3)
    sett = _settings(case, case["eps"])
    mask = (np.asarray(S) > 0)[..., None]
    with run.quiet():
        mol0, es0, _ = run.build(S[0] if single else S, C[0] if single else C, sett, qarg, 1)
        es0(mol0)
    if bool(np.asarray(run.npy(es0.notconverged)).any()):
        return {"ineligible": "starting SCF not converged", "monitors": {"calls": 1}}
    P0 = mol0.dm.clone()
    C1 = np.asarray(C, float) + g.normal(0, 0.02, np.asarray(C).shape) * mask
    if case["p0"] == "noise":
        # symmetric perturbation confined to orbitals that exist (s of H, sp of heavy atoms) of each molecule
        nz = torch.zeros_like(P0)
        for b, (Z, _, _, _) in enumerate(rows):
            idx = obs14._orbital_index(list(Z))
            a = torch.as_tensor(g.normal(0, 2e-3, (len(idx), len(idx))))
            ii = torch.as_tensor(idx)
            nz[b][ii[:, None], ii[None, :]] = 0.5 * (a + a.T)
        P0 = P0 + nz
    with run.quiet():
        mol, es, sett2 = run.build(S[0] if single else S, C1[0] if single else C1, sett, qarg, 1)
        es(mol, P0=P0, dm_prop="XL-BOMD", xl_bomd_params=dict(case["xl"] or {}))
    b = obs14.bundle(mol, es, sett2, Q, M, do_fock=False)
    dmax = float((mol.dm - P0).abs().max())
    mon = dict(b["monitors"])
    ent = getattr(mol, "Electronic_entropy", None)
    ent = np.zeros(len(rows)) if ent is None else np.asarray(run.npy(ent), float).reshape(-1)
    mon.update({"xl_calls_with_nonzero_entropy": int(bool(np.any(np.abs(ent) > 1e-8))),
                "xl_rows_with_nonzero_entropy": int(np.sum(np.abs(ent) > 1e-8))})
    for v in b["violations"]:
        v["detail"]["Electronic_entropy"] = ent.tolist()
    if case.get("hf_flag") is False:
        mon["rows_hf_flag_false"] = len(rows)
        mon["xl_rows_hf_flag_false"] = len(rows)
    mon.update({"calls": 2, "xl_calls": 1, "xl_calls_krylov": int(case["xl"] is not None),
                "xl_rows_dm_differs_from_P0": int(dmax > 1e-6) * len(rows)})
    for v in b["violations"]:
        v["clause"] = "xl-path/" + v["clause"]
        v["detail"]["xl_bomd_params"] = case["xl"]
        v["detail"]["max_abs_dm_minus_P0"] = dmax
    margins = {"xl/" + k: v for k, v in b["margins"].items()}
    cells = ["xlcell/%s/%s/%s/%s/q%s" % (case["method"], "krylov-r%d-T%g" % (case["xl"]["max_rank"], case["xl"]["T_el"]) if case["xl"]
                                        else "plain", case["p0"], case["layout"], ",".join("%+d" % q for q in case["charges"]))]
    return {"nontrivial": dmax > 1e-6, "violations": b["violations"], "margins": margins, "monitors": mon, "cells": cells,
            "obs": {"max_abs_dm_minus_P0": dmax, "Electronic_entropy": ent.tolist(), "gap": run.npy(mol.e_gap).reshape(-1).tolist(), "Etot": [float(x) for x in run.npy(mol.Etot).reshape(-1)],
                    "dipole": run.npy(mol.dipole).tolist(), "worst": margins}}


def _state_dipole_cells(g, tier):
    """same-species batches (>= 2 rows) with do_all_forces=True (analytical CIS): the per-state dipoles
    all_cis_unrelaxed_diploles / all_cis_relaxed_diploles, row by row."""
    plan = [("CH2O", "AM1", 3), ("H2O", "PM3", 2)] if tier == "quick" else \
        [("CH2O", "AM1", 3), ("H2O", "PM3", 2), ("C2H4", "MNDO", 2), ("HCN", "AM1", 3), ("NH3", "PM6_SP", 2), ("CH3OH", "PM3", 2)]
    return [{"kind": "statedipole", "mol": name, "method": method, "conv": [2], "sp2": None, "uhf": False,
             "modes": ["analytical"], "layout": "homog", "orient": {"kind": "generic"}, "sigma": 0.05,
             "charges": [0] * n, "mults": [1] * n, "excited": {"method": "cis", "n_states": 3, "active": 1},
             "do_all_forces": True, "eps": 1e-10, "seed": int(g.integers(0, 2**31))} for name, method, n in plan]


def run_statedipole(case):
    """unrelaxed state dipole = ground dipole + dipole of the CIS difference density rebuilt here from cis_amplitudes and
    the reported MOs; relaxed and unrelaxed state dipoles of every row: in the batch vs the row alone."""
    from vlib import obs14, run
    rows, _ = _build_batchcell(case)
    S, C, Q, M = c01._batch_arrays(case, rows)
    mon = {"calls": 0, "state_dipole_rows_compared": 0, "state_dipole_alone_vs_batch_compared": 0, "rejected": 0}
    margins, viol = {}, []

    def upd(name, val, tol):
        r = float(val) / tol
        if not (r <= margins.get(name, -1.0)):
            margins[name] = r
        return not (r <= 1.0)

    try:
        mol, es, sett = _call(case, S, C, np.asarray(Q, float), np.asarray(M, float), case["eps"])
    except Exception as e:
        if _is_rejection(e) or "did not converge" in str(e):
            return {"ineligible": "rejected by the package: %s" % str(e)[:60], "monitors": {"rejected": 1}}
        raise
    mon["calls"] += 1
    nst = case["excited"]["n_states"]
    U, R = run.npy(mol.all_cis_unrelaxed_diploles), run.npy(mol.all_cis_relaxed_diploles)
    n = len(rows)
    if U is None or R is None or U.shape != (n, nst, 3) or R.shape != (n, nst, 3):
        return {"violations": [{"clause": "state-dipole-shape", "mech": None,
                                "detail": {"unrelaxed": None if U is None else list(U.shape), "expected": [n, nst, 3]}}],
                "monitors": mon}
    factor = obs14.unit_factor()
    amps = run.npy(mol.cis_amplitudes)              # [nmol, nroots, nocc*nvirt]
    MO = run.npy(mol.molecular_orbitals)
    dip0 = run.npy(mol.dipole)
    ce = run.npy(mol.cis_energies)
    ncb = np.asarray(run.npy(es.notconverged), bool).reshape(-1)
    Z = rows[0][0]
    idx = obs14._orbital_index(list(Z))
    norb = len(idx)
    nocc = sum(obs14.VALENCE[z] for z in Z) // 2
    nvirt = norb - nocc
    for r in range(n):
        if ncb[r]:
            continue
        X = rows[r][1]
        Co, Cv = MO[r][:norb, :nocc], MO[r][:norb, nocc:norb]
        for i in range(nst):
            A = amps[r][i].reshape(nocc, nvirt)
            dP = Cv @ (A.T @ A) @ Cv.T - Co @ (A @ A.T) @ Co.T        # packed basis, real orbitals in atom order
            mu = np.zeros(3)
            for p_, ao in enumerate(idx):
                a_, k_ = divmod(ao, 4)
                mu -= dP[p_, p_] * X[a_]
                if k_ == 0 and Z[a_] > 1:
                    d1 = obs14.d1_bohr(case["method"], Z[a_]) * obs14.A0
                    for c_ in range(3):
                        mu[c_] -= 2.0 * d1 * dP[p_, idx.index(4 * a_ + 1 + c_)]
            mu = dip0[r] + mu * factor
            mon["state_dipole_rows_compared"] += 1
            scale = max(1.0, float(np.abs(X).max()))
            if upd("unrelaxed_state_dipole_formula", np.abs(U[r, i] - mu).max(), 1e-8 * scale):
                viol.append({"clause": "unrelaxed-state-dipole-vs-difference-density", "mech": None,
                             "detail": {"row": r, "state": i + 1, "reported": U[r, i].tolist(), "independent": mu.tolist(),
                                        "species": Z, "coords": X.tolist(), "rows_in_batch": n}})
    # every row alone
    for r in range(n):
        Zr, X, q, m = rows[r]
        try:
            mol1, es1, _ = _call(case, Zr, X, q, m, case["eps"])
        except Exception as e:
            if _is_rejection(e) or "did not converge" in str(e):
                continue
            viol.append({"clause": "alone-run-raised-where-batch-did-not", "mech": None,
                         "detail": {"row": r, "error": repr(e)[:300], "species": Zr, "coords": X.tolist()}})
            continue
        mon["calls"] += 1
        c1 = run.npy(mol1.cis_energies)[0]
        if ncb[r] or bool(np.asarray(run.npy(es1.notconverged)).any()) or not (np.abs(c1 - ce[r]).max() <= 1e-7):
            continue
        sep = np.min(np.abs(np.diff(ce[r]))) if nst > 1 else 9.0
        if not (sep >= 0.05):
            continue       # (near-)degenerate roots: the states themselves are defined only up to a rotation
        U1, R1 = run.npy(mol1.all_cis_unrelaxed_diploles)[0], run.npy(mol1.all_cis_relaxed_diploles)[0]
        mon["state_dipole_alone_vs_batch_compared"] += 1
        for nm, a_, b_ in (("unrelaxed", U1, U[r]), ("relaxed", R1, R[r])):
            if upd("state_dipole_alone_vs_batch/" + nm, np.abs(a_ - b_).max(), 1e-6):
                viol.append({"clause": "state-dipole-batch-vs-alone/" + nm, "mech": None,
                             "detail": {"row": r, "alone": a_.tolist(), "in_batch": b_.tolist(), "species": Zr,
                                        "coords": X.tolist(), "rows_in_batch": n}})
    nontrivial = mon["state_dipole_rows_compared"] > 0
    res = {"nontrivial": nontrivial, "violations": viol, "margins": margins, "monitors": mon, "obs": {"worst": margins},
           "cells": ["statedipole/%s/%s/rows%d" % (case["method"], case["mol"], n)]}
    if not nontrivial and not viol:
        res["ineligible"] = "no converged row"
    return res


def _build_batchcell(case):
    g = np.random.default_rng(case["seed"])
    Z, X0, _, _ = gen.molecule(case["mol"])
    rows = []
    for q, m in zip(case["charges"], case["mults"]):
        X = gen.distort(X0, g, sigma=case["sigma"])
        X = X @ gen.generic_rotation(X, g).T
        rows.append((Z, X + g.uniform(-3, 3, 3), q, m))
    return rows, list(range(len(rows)))


def gen_cases(tier, seed):
    g = gen.rng("C14", tier)
    quick = tier == "quick"
    cases = []
    for _ in range(26 if quick else 300):
        c = c01._excited_case(g, tier)
        c["modes"] = [["analytical"], ["autodiff-scfb1"], ["autodiff"]][int(g.integers(0, 3))]
        cases.append(c)
    for _ in range(170 if quick else 3200):
        c = c01._lib_case(g, tier)
        c["modes"] = [c01.ALL_MODES[int(g.integers(0, 3))]]
        cases.append(c)
    for name in ("NH4+", "H3O+", "OH-", "CN-", "NO+", "HCOO-", "CH3.", "OH.", "NO.", "NH2.", "O2t", "CH2t", "H2O+."):
        for method in (("AM1", "PM3") if quick else c01.METHODS):
            if gen.available(name, method):
                c = c01._lib_case(g, tier, method=method, name=name, layout="single")
                c["modes"] = ["autodiff"]
                cases.append(c)
    cases += _element_cases(g, tier)
    named = _batch_cells(g, tier) + _disp_and_xl_cells(g, tier) + _state_dipole_cells(g, tier)
    # documented switch of the energy assembly: Hf_flag False -> Hf = Etot - sum Eiso (no atomic heats); Etot / Eelec / Enuc
    # must not depend on it (twin run with the default)
    for name, method, layout, mode in (("H2O", "AM1", "single", "autodiff"), ("CH3OH", "PM3", "padded", "analytical"),
                                       ("NH4+", "MNDO", "homog", "autodiff"), ("CH3.", "AM1", "single", "autodiff"),
                                       ("CH2O", "PM6_SP", "single", "numerical")):
        c = c01._lib_case(g, tier, method=method, name=name, layout=layout, sigma=0.05, sp2=False, orient=c01._orient_generic())
        c.update({"sp2": None, "modes": [mode], "eps": 1e-10, "tier": tier, "hf_flag": False})
        named.append(c)
    c = c01._excited_case(g, tier, method="AM1", name="CH2O", xmethod="cis", layout="single")
    c.update({"modes": ["analytical"], "eps": 1e-10, "tier": tier, "hf_flag": False})
    named.append(c)
    for names, charges, method, xlp in ((["CH2O", "H2O"], [0, 0], "AM1", None),
                                        (["NH4+"], [1], "PM3", {"max_rank": 2, "err_threshold": 0.0, "T_el": 1500.0})):
        named.append({"kind": "xlcell", "mols": names, "charges": charges, "method": method, "conv": [1], "sp2": None,
                      "uhf": False, "modes": ["autodiff"], "layout": "single" if len(names) == 1 else "padded",
                      "orient": {"kind": "generic"}, "xl": xlp, "p0": "neighbour", "seed": int(g.integers(0, 2**31)),
                      "eps": 1e-10, "hf_flag": False, "tier": tier})
    # repeated calls on molecules with 3-fold degenerate level sets and large kicks, so that the orbital tracker produces
    # permutations with cycles of length >= 3 (where a permutation and its inverse differ)
    # zero-padded batches with mixed heavy / hydrogen counts for the per-orbital population clause
    for method, names in (("AM1", ["CH2O", "CH3OH", "H2O"]), ("PM3", ["H2O", "CH3OH", "HCN"]), ("MNDO", ["NH4+", "CH2O", "H2"])) \
            + (() if quick else (("PM6_SP", ["CH3F", "H2O", "CH4"]), ("AM1", ["OH-", "C2H4", "HCOOH"]))):
        for conv in ([2], [1]):
            c = c01._lib_case(g, tier, method=method, name=names[0], layout="padded", conv=conv, sigma=0.05, sp2=False,
                              orient=c01._orient_generic())
            c.update({"sp2": None, "modes": ["autodiff"], "eps": 1e-10, "tier": tier, "mates": names[1:], "target_pos": 0,
                      "extra_pad": 1, "pad_value": 0.0, "uhf": False})
            named.append(c)
    deg = [("CH4", "AM1"), ("NH4+", "PM3"), ("SiH4", "MNDO"), ("C2H6", "AM1"), ("CH4", "PM6_SP")]
    if not quick:
        deg += [("CH4", "MNDO"), ("NH4+", "AM1"), ("SiH4", "PM3"), ("BH3", "MNDO"), ("C2H6", "PM3"), ("NH3", "AM1"),
                ("AlH3", "AM1"), ("C6H6", "AM1")]
    for name, method in deg:
        for kick in ((0.25,) if quick else (0.15, 0.25, 0.35)):
            c = c01._lib_case(g, tier, method=method, name=name, layout="single", conv=[2], sigma=0.02, sp2=False,
                              orient=c01._orient_generic())
            c.update({"sp2": None, "modes": ["autodiff"], "eps": 1e-10, "tier": tier, "repeat": {"n": 4, "kick": kick}})
            named.append(c)
    for c in named:
        c["tier"] = tier
    for i, c in enumerate(cases):
        c["tier"] = tier
        c["eps"] = EPS_CHOICES[int(g.integers(0, len(EPS_CHOICES)))]
        # every third case also runs the translated twin (at scf_eps 1e-11)
        if i % 3 == 0:
            t = g.normal(size=3)
            c["translate"] = (t / np.linalg.norm(t) * g.uniform(0.5, 10.0)).tolist()
            c["eps"] = 1e-11
        # some cases repeat the call on the SAME Molecule object after moving the atoms (what MD / optimisers do)
        if not c.get("uhf") and c["layout"] != "padded" and int(g.integers(0, 8)) == 0:
            c["repeat"] = {"n": int(g.integers(1, 4)), "kick": [0.01, 0.05, 0.15][int(g.integers(0, 3))]}
    return named + cases


def _settings(case, eps):
    s = c01._settings(case, case["modes"][0])
    s["scf_eps"] = float(eps)
    if case.get("do_all_forces"):
        s["do_all_forces"] = True
    if case.get("hf_flag") is False:
        s["Hf_flag"] = False
    return s


def _call(case, S, C, qarg, marg, eps):
    from vlib import run
    import torch
    with run.quiet():
        mol, es, sett = run.build(S, C, _settings(case, eps), qarg, marg)
        if case.get("active_vec") is not None and np.ndim(S) == 2:
            mol.active_state = torch.as_tensor(case["active_vec"], dtype=torch.int64)   # per-molecule active states
        if case.get("call") == "energy-only":
            es(mol, do_force=False)
        else:
            es(mol)
    return mol, es, sett


def _is_rejection(e):
    return any(k in str(e) for k in ("Maximum number of roots", "A-B matrix has negative eigenvalues"))


def _merge(dst, src):
    for k, v in src.items():
        if not (v <= dst.get(k, -1.0)):
            dst[k] = v


def _longest_cycle(e, w):
    """longest cycle of the permutation that takes the ascending eigenvalues w to the reported order e (levels that
    cannot be matched uniquely - degenerate to 1e-6 - are left in place)."""
    e, w = np.asarray(e, float), np.asarray(w, float)
    n = len(w)
    pi = list(range(n))
    for k in range(n):
        d = np.abs(w - e[k])
        j = int(np.argmin(d))
        if d[j] <= 1e-7 and np.sum(d <= 1e-6) == 1:
            pi[k] = j
    if sorted(pi) != list(range(n)):
        return 0
    seen, best = set(), 1
    for k in range(n):
        L, j = 0, k
        while j not in seen:
            seen.add(j)
            j = pi[j]
            L += 1
        best = max(best, L)
    return best


def classify(v, case, repeat_index):
    """mechanism key for a bundle violation (deterministic in the witness).

    `mo-tracking-permutes-emo`: ONLY for the clauses emo-not-ascending / gap-definition (restricted spin), ONLY on call
    number >= 2 on the same Molecule object, and ONLY when (i) the reported e_mo restricted to the occupied block and to
    the virtual block are permutations of the corresponding ascending eigenvalues of the Fock matrix rebuilt from the
    returned density and (ii) the reported gap equals the true one, eig_F[nocc] - eig_F[nocc-1].  A first-call
    violation, a wrong gap, or orbital energies that are not the Fock eigenvalues are never matched."""
    if repeat_index < 1 or v["clause"] not in ("emo-not-ascending", "gap-definition"):
        return None
    d = v["detail"]
    e, w, nocc, gap = d.get("e_mo"), d.get("eig_F"), d.get("nocc"), d.get("gap")
    if e is None or w is None or nocc is None or gap is None or not (0 < nocc < len(w)) or len(e) != len(w):
        return None
    e, w = np.asarray(e, float), np.asarray(w, float)
    block_perm = bool(np.abs(np.sort(e[:nocc]) - w[:nocc]).max() <= 1e-8 and np.abs(np.sort(e[nocc:]) - w[nocc:]).max() <= 1e-8)
    gap_ok = bool(abs(float(gap) - (w[nocc] - w[nocc - 1])) <= 1e-8)
    d["is_block_permutation_of_fock_eigenvalues"] = block_perm
    d["reported_gap_is_true_gap"] = gap_ok
    return "mo-tracking-permutes-emo" if (block_perm and gap_ok) else None


def run_case(case):
    from vlib import obs14, run
    import torch
    if case["kind"] == "xlcell":
        return run_xlcell(case)
    if case["kind"] == "statedipole":
        return run_statedipole(case)
    if case["kind"] == "dispcell":
        rows, check = c01.build_rows(dict(case, kind="dimer"))
        check = list(range(len(rows)))
    else:
        rows, check = _build_batchcell(case) if case["kind"] == "batchcell" else c01.build_rows(case)
    S, C, Q, M = c01._batch_arrays(case, rows)
    single = len(rows) == 1
    qarg = Q[0] if single else np.asarray(Q, float)
    marg = M[0] if single else np.asarray(M, float)
    Sx, Cx = (S[0], C[0]) if single else (S, C)
    mon = {"calls": 0, "translation_pairs": 0, "repeat_calls": 0, "rejected": 0}
    margins, viol, cells, obs = {}, [], [], {}
    exc = case.get("excited")
    try:
        mol, es, sett = _call(case, Sx, Cx, qarg, marg, case["eps"])
    except Exception as e:
        if exc and _is_rejection(e):
            # the package refuses loudly (too many roots / RPA triplet instability): nothing was published
            return {"ineligible": "excited-state request rejected by the package", "monitors": {"rejected": 1}}
        raise
    mon["calls"] += 1

    cyc = [0]

    def judge(mol, es, sett, rep):
        b = obs14.bundle(mol, es, sett, Q, M, sp2_tol=case.get("sp2"))
        for k, n in b["monitors"].items():
            mon[k] = mon.get(k, 0) + n
        _merge(margins, {(k if rep == 0 else "repeat/" + k): v for k, v in b["margins"].items()
                         if not (rep > 0 and k in ("gap_definition",))})
        for v in b["violations"]:
            if rep > 0:
                v["detail"]["repeat_index"] = rep
                v["detail"]["kick"] = case["repeat"]["kick"]
                if v["clause"] == "emo-not-ascending" and v["detail"].get("eig_F") is not None:
                    L = _longest_cycle(v["detail"]["e_mo"], v["detail"]["eig_F"])
                    cyc[0] = max(cyc[0], L)
            v["mech"] = classify(v, case, rep)
            viol.append(v)
        return b

    b0 = judge(mol, es, sett, 0)
    if case.get("hf_flag") is False:
        mon["rows_hf_flag_false"] = len(rows)
        twin = dict(case)
        twin.pop("hf_flag")
        try:
            mol_t, es_t, _ = _call(twin, Sx, Cx, qarg, marg, case["eps"])
        except Exception as e:
            mol_t = None
            viol.append({"clause": "default-Hf_flag-run-raised-where-Hf_flag-False-did-not", "mech": None,
                         "detail": {"error": repr(e)[:300]}})
        if mol_t is not None:
            mon["calls"] += 1
            for k in ("Etot", "Eelec", "Enuc"):
                d = np.abs(run.npy(getattr(mol, k)).reshape(-1) - run.npy(getattr(mol_t, k)).reshape(-1)).max()
                mon["hf_flag_twin_compared"] = mon.get("hf_flag_twin_compared", 0) + 1
                rr = float(d) / 1e-8
                if not (rr <= margins.get("hf_flag_independence/" + k, -1.0)):
                    margins["hf_flag_independence/" + k] = rr
                if not (rr <= 1.0):
                    viol.append({"clause": "%s-depends-on-Hf_flag" % k, "mech": None,
                                 "detail": {"max_abs_diff": float(d), "Hf_flag_False": run.npy(getattr(mol, k)).reshape(-1).tolist(),
                                            "Hf_flag_True": run.npy(getattr(mol_t, k)).reshape(-1).tolist(),
                                            "species": [r_[0] for r_ in rows]}})
    dip0 = run.npy(getattr(mol, "dipole", None))
    Etot0 = run.npy(mol.Etot).reshape(-1).copy()
    nc0 = np.asarray(run.npy(es.notconverged), bool).reshape(-1) if getattr(es, "notconverged", None) is not None \
        else np.zeros(len(rows), bool)
    # ---- chargemix cells: every row also alone ----------------------------------------------
    if case.get("alone") and not single:
        gap_b = run.npy(mol.e_gap)
        Eb = run.npy(mol.Etot).reshape(-1)
        for r, (Z, X, q, m) in enumerate(rows):
            sub = dict(case)
            try:
                mol1, es1, _ = _call(sub, Z, X, q, m, case["eps"])
            except Exception as e:
                obs.setdefault("alone_raised", []).append(repr(e)[:120])
                continue
            mon["calls"] += 1
            nc1 = bool(np.asarray(run.npy(es1.notconverged)).reshape(-1)[0])
            if nc0[r] or nc1 or abs(float(run.npy(mol1.Etot).reshape(-1)[0]) - Eb[r]) > 1e-7:
                mon["alone_rows_other_solution_or_unconverged"] = mon.get("alone_rows_other_solution_or_unconverged", 0) + 1
                continue
            g1 = np.asarray(run.npy(mol1.e_gap)).reshape(-1)
            gb = np.asarray(gap_b[r]).reshape(-1)
            d = float(np.abs(g1 - gb).max()) if g1.size and g1.size == gb.size else None
            if d is None:
                continue
            mon["gap_vs_alone_compared"] = mon.get("gap_vs_alone_compared", 0) + 1
            rr = d / 1e-6
            if not (rr <= margins.get("gap_vs_alone", -1.0)):
                margins["gap_vs_alone"] = rr
            if not (rr <= 1.0):
                viol.append({"clause": "gap-batch-vs-alone", "mech": None,
                             "detail": {"row": r, "species": Z, "coords": X.tolist(), "charge": q, "mult": m,
                                        "charges_of_batch": case["charges"], "gap_in_batch": gb.tolist(),
                                        "gap_alone": g1.tolist(), "tol": 1e-6}})
    # ---- repeated calls on the same object ------------------------------------------------
    rep = case.get("repeat")
    if rep:
        g = np.random.default_rng(case["seed"] + 5)
        mask = torch.as_tensor(np.asarray(S) > 0).unsqueeze(-1)
        for k in range(rep["n"]):
            cur = run.npy(mol.coordinates)
            for _ in range(50):      # stay inside the valid domain: no two nuclei of a row closer than 0.6 A
                step = g.normal(0, rep["kick"], C.shape)
                if all(gen.min_dist((cur + step)[i, :len(rows[i][0])]) >= 0.6 for i in range(len(rows))):
                    break
            else:
                step = np.zeros(C.shape)
            with torch.no_grad():
                mol.coordinates.add_(torch.as_tensor(step) * mask)
            try:
                with run.quiet():
                    es(mol, P0=mol.dm)
            except Exception as e:
                if exc and _is_rejection(e):
                    mon["rejected"] += 1
                    break
                raise
            mon["repeat_calls"] += 1
            cyc[0] = 0
            judge(mol, es, sett, k + 1)
            if cyc[0] >= 3:
                mon["repeat_calls_with_cycle_of_length_ge3"] = mon.get("repeat_calls_with_cycle_of_length_ge3", 0) + 1
            if cyc[0] >= 2:
                mon["repeat_calls_with_reordered_emo"] = mon.get("repeat_calls_with_reordered_emo", 0) + 1
        cells.append("repeat/%s/kick%g" % (case["method"], rep["kick"]))
    # ---- translation twin ---------------------------------------------------------------------
    if case.get("translate") is not None and dip0 is not None:
        t = np.asarray(case["translate"], float)
        Ct = np.asarray(C, float) + t * (np.asarray(S) > 0)[..., None]     # padding coordinates stay where they are
        try:
            mol2, es2, sett2 = _call(case, S[0] if single else S, Ct[0] if single else Ct, qarg, marg, case["eps"])
        except Exception as e:
            if exc and _is_rejection(e):
                mon["rejected"] += 1
                mol2 = None
            else:
                raise
        mon["calls"] += 1
    if case.get("translate") is not None and dip0 is not None and mol2 is not None:
        dip1 = run.npy(mol2.dipole)
        nc1 = np.asarray(run.npy(es2.notconverged), bool).reshape(-1)
        factor = obs14.unit_factor()
        alpha = case["conv"][1] if case["conv"][0] == 0 else 0.0
        A = 1.0 / (1.0 - alpha)
        E0, E1 = Etot0, run.npy(mol2.Etot).reshape(-1)
        for r in range(len(rows)):
            if nc0[r] or nc1[r]:
                continue
            if abs(E1[r] - E0[r]) > 1e-7:
                # the translated run converged to a different SCF solution (e.g. symmetry-broken Si2): the two dipoles
                # belong to different densities; whether energies are translation invariant is C02's subject
                mon["translation_pairs_other_scf_solution"] = mon.get("translation_pairs_other_scf_solution", 0) + 1
                continue
            Z, X, q, m = rows[r]
            n = len(Z)
            rmax = float(np.abs(X).max())
            tol = 1e-8 + 120.0 * case["eps"] * A * n * (np.linalg.norm(t) + rmax) * 1.89
            if case.get("sp2"):
                # SP2 purification leaves the density accurate to ~10 * its clamped tolerance (same allowance as the
                # charge-sum clause): 4 diagonal elements per atom, two runs
                tol += 80.0 * min(1e-3, max(1e-7, case["sp2"])) * n * (np.linalg.norm(t) + rmax) * 1.89
            d = np.abs((dip1[r] - dip0[r]) - q * t * factor).max()
            mon["translation_pairs"] += 1
            name = "dipole_translation/" + ("ion" if q != 0 else "neutral") + ("/sp2" if case.get("sp2") else "")
            rr = d / tol
            if not (rr <= margins.get(name, -1.0)):
                margins[name] = rr
            if not (rr <= 1.0):
                viol.append({"clause": "dipole-translation/" + ("ion" if q != 0 else "neutral"), "mech": None,
                             "detail": {"row": r, "species": Z, "coords": X.tolist(), "charge": q, "mult": m, "t": t.tolist(),
                                        "dipole_x": dip0[r].tolist(), "dipole_x_plus_t": dip1[r].tolist(),
                                        "expected_shift": (q * t * factor).tolist(), "tol": tol}})
            cells.append("translation/%s/%s" % (case["method"], "ion" if q != 0 else "neutral"))
    # ---- coverage cells -------------------------------------------------------------------------
    spin = "uhf" if case.get("uhf") else "rhf"
    state = "S0" if not exc else "%s-S%d/%s" % (exc["method"], exc["active"], case["modes"][0])
    cells.append("/".join([case["method"], spin, state, "conv" + "-".join(str(c) for c in case["conv"]),
                           "sp2" if case.get("sp2") else "diag", case["layout"], "eps%g" % case["eps"]]))
    if case["kind"] == "dispcell":
        cells.append("dispcell/%s/%s" % (case["modes"][0], "+".join("%s-%s@%s" % tuple(d) if d[1] else d[0] for d in case["dimers"])))
    if case["kind"] == "batchcell":
        cells.append("batchcell/%s/%s/%s/%s" % (case["cell"], case["method"], case.get("call"),
                                                case.get("pattern") or ("uhf" if case.get("uhf") else "rhf")
                                                + "/q" + ",".join("%+d" % q for q in case["charges"])))
        mon["batchcell_" + case["cell"]] = 1
    for r in rows:
        for z in set(r[0]):
            cells.append("element/%s/%d" % (case["method"], z))
        if r[2] != 0:
            cells.append("charge/%s/%+d" % (case["method"], r[2]))
        if r[3] != 1:
            cells.append("mult/%s/%d" % (case["method"], r[3]))
    nontrivial = b0["monitors"]["rows"] - b0["monitors"]["rows_not_converged"] > 0
    obs.update({"Etot": [float(x) for x in run.npy(mol.Etot).reshape(-1)[:3]],
                "Hf": [float(x) for x in run.npy(mol.Hf).reshape(-1)[:3]],
                "dipole": None if dip0 is None else dip0[0].tolist(), "q_sum": float(run.npy(mol.q)[0].sum()),
                "rows": len(rows), "worst": dict(margins)})
    res = {"nontrivial": bool(nontrivial), "violations": viol, "margins": margins, "monitors": mon, "cells": cells,
           "obs": obs}
    if not nontrivial:
        res["ineligible"] = "no converged row"
    return res


def summarize(cases, results, report):
    tot = {m: sorted(gen.ELEMENTS[m]) for m in c01.METHODS}
    seen = {m: set() for m in c01.METHODS}
    for c, r in zip(cases, results):
        for cell in (r or {}).get("cells") or []:
            if cell.startswith("element/"):
                _, m, z = cell.split("/")
                seen[m].add(int(z))
    clean = {}
    from vlib import verdict
    for c, r in zip(cases, results):
        if not r or r.get("violations"):
            continue
        for k, v in (r.get("margins") or {}).items():
            if v is not None and not (v <= clean.get(k, {"worst": -1.0})["worst"]):
                clean[k] = {"worst": v, "case": verdict.case_id(c)}
    return {"worst_margin_over_cases_without_violation": clean, "elements_seen": {m: {"seen": sorted(seen[m]), "missing": [z for z in tot[m] if z not in seen[m]]} for m in tot}}
