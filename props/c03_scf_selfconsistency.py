"""C03 — converged => self-consistent; failure is flagged; calls terminate.

Runtime monitoring of `Electronic_Structure.forward` under a solver lattice, three monitors per call:

(A) post-condition on every row the API flags converged (returned dm / Eelec / q; Fock matrix rebuilt from the
    *returned* density): symmetry, padding clean, trace / charge sum, idempotency, commutator, aufbau
    re-diagonalisation, energy functional — bounds proportional to eps_eff with A(alpha) = 1/(1-alpha).
(B) truthful flag: `scf_loop.get_error` is wrapped; the convergence mask is re-derived by the harness from the raw
    per-iteration arguments with the *requested* threshold; a row the API calls converged must have met it; the
    iteration count must respect the cap.  Harness-side caps (module constant MAX_ITER = 3, 10) make sure rows
    that do not converge are actually produced.
(C) termination by logical steps: sys.monitoring back-edge counters with a raising failpoint on every
    data-dependent loop reachable from a single-point call.  Wall clock only ever yields "inconclusive".
"""
import numpy as np

from vlib import gen

PROPERTY = "C03"
RULE = ("case = (batch of 1-3 library molecules incl. ions / UHF radicals, random distortion, isotropic "
        "stretch 0.85-1.5, optional zero padding) x method x converger {[0,alpha],[1],[2],[3,KSA]} x {diag, SP2 tol} "
        "x scf_eps 1e-4..1e-11 x start density {default, neighbour geometry, +noise, 0.8*P, non-idempotent mixture} "
        "x iteration cap {default, 3, 10}; plus named hostile cells: anion in a zero-padded SP2 batch, KSA on the smallest "
        "systems, polar diatomics stretched to 3-26 A, decoupled far fragments (12-50 A), scf_backward=1; non-trivial when "
        "the call returned and at least one row was judged (flagged converged and checked by (A), or flagged not "
        "converged and checked by (B)) or a failpoint fired; distinct by SHA-1 of the case")
ASSUMPTIONS = ["float64 CPU", "sp methods (MNDO/AM1/PM3/PM6_SP); the d-orbital PM6 packers are not driven",
               "the Fock matrix of clause (A) is rebuilt from the returned density twice: by the repository's own "
               "hcore+fock/fock_u_batch and (MNDO/AM1/PM3, <= 9 atom slots) by the independent reference model vlib.ref.nddo",
               "stopping-rule factors 1/2/15/50 and SP2's clamp [1e-7,1e-3] are the harness' own copy of the documented rule; "
               "the rms test uses the solver's own normalisation (padded matrix dimension)",
               "start densities carry no weight on padding orbitals and the same perturbation in both spin channels (valid inputs only)",
               "a call that raises is a loud, bounded return: counted (calls_raised), not judged here",
               "UHF per-spin commutator/reproduction constants carry the calibrated factor S_UHF = 5 (see module comment)"]
REQUIRED_MONITORS = ["pulay_reject_class_rows_nonfirst", "padded_finite_T_rows_checked", "unrolled_backward_path_calls", "sp2_calls_uneven_sweeps", "sp2_rows_vs_alone_compared", "finite_T_rows_checked",
                     "rows_checked_converged", "rows_flagged_notconverged", "get_error_calls", "loop_backedges",
                     "sp2_calls", "ksa_returns"]
CASE_TIMEOUT = 120.0
BUDGET_S = {"quick": 200, "thorough": 1700}

# ---- bounds (DESIGN §6 C03) -------------------------------------------------------------------------
K_IDEM = 50.0
K_COMM = 5.0e3      # eV
K_REPRO = 300.0
# UHF: the repository's stopping rule tests the *total* density change (dP_alpha + dP_beta); spin-polarisation
# modes largely cancel in that sum, so per-spin commutator / re-diagonalisation residuals of radicals sit above the
# closed-shell ones by a mode-dependent factor (measured <= 2.7x the RHF constants over ~600 UHF cases).  They are
# still proportional to eps; the constant is calibrated (not derived) and stated here.
S_UHF = 5.0
TOL_SYM = 1.0e-12
TOL_E = 1.0e-9
GAP_MIN = 1.0e-3    # eV, eligibility of the re-diagonalisation clause

# largest back-edge count any *converging* run shows (calibrated on the thorough tier, see summarize();
# failpoint bound = max(10 x this, structural cap + 2))
DEFAULT_CAP = 1000
# (the outer SCF loops are range-capped by MAX_ITER, and converging runs with alpha = 0.9 / eps = 1e-11 do use up to
# ~950 iterations, so their "largest converging count" is taken as the default cap itself)
CONV_MAX = {"SP2": 200, "scf_forward0": DEFAULT_CAP + 1, "scf_forward1": DEFAULT_CAP + 1, "scf_forward2": DEFAULT_CAP + 1,
            "scf_forward3": DEFAULT_CAP + 1, "adaptive_mix": 20, "Fermi_Q": 30, "Canon_DM_PRT": 8,
            "fixed_point_anderson": 200, "fixed_point_picard": 200}
SP2_BOUND = 300

KSA = {"T_el": 100.0, "max_rank": 3, "err_threshold": 0.0}
METHODS = ["AM1", "PM3", "MNDO", "PM6_SP"]
SMALL_RHF = ["H2O", "NH3", "CH4", "HF", "CO", "HCN", "CH2O", "N2", "C2H2", "H2", "CO2", "CH3OH", "C2H4", "HCOOH",
             "CH3F", "HOOH", "N2O", "CH3NH2", "F2", "HNO", "LiH", "BeH2", "BH3", "HCl", "H2S", "PH3", "SiH4",
             "CH3Cl", "SO2", "NaCl", "LiF", "AlH3", "MgH2", "Cl2", "CH3SH"]


def _conv_tag(conv):
    if conv[0] == 0:
        return "mix%.1f" % conv[1]
    return {1: "adaptive", 2: "pulay", 3: "ksa"}[conv[0]]


def _pick(g, seq):
    return seq[int(g.integers(0, len(seq)))]


def _mk_mol(g, name, scale=None):
    return {"name": name, "gseed": int(g.integers(0, 2**31)), "sigma": float(_pick(g, [0.03, 0.06, 0.1])),
            "scale": float(scale if scale is not None else _pick(g, [1.0, 1.0, 1.0, 0.85, 1.2, 1.5]))}


# witness reported by the C19 builder: PM3, LiH + F2 + C2H2 on a 30 A triangle (decoupled fragments), Pulay
FAR_FRAGMENT_WITNESS = {"Z": [9, 9, 6, 6, 3, 1, 1, 1],
                        "X": [[-5.092407, -28.740897, -2.513107], [-5.494763, -30.103031, -2.517198],
                              [-0.274411, -16.787954, 24.389361], [-0.947575, -17.76394, 24.635365],
                              [-0.144012, 0.670692, 0.412629], [0.144012, -0.670692, -0.412629],
                              [0.275472, -15.936163, 24.121053], [-1.556992, -18.62368, 24.922056]], "charge": 0}


def _far_fragments(g, names, R):
    """neutral closed-shell fragments, each distorted and Haar-rotated, centres R apart on a line / triangle;
    merged into one species row sorted by atomic number (stable)"""
    d = g.normal(size=3)
    d /= np.linalg.norm(d)
    e = g.normal(size=3)
    e -= (e @ d) * d
    e /= np.linalg.norm(e)
    offs = [np.zeros(3), d, 0.5 * d + (3 ** 0.5 / 2) * e]
    Z, X = [], []
    for n, o in zip(names, offs):
        z, x, _, _ = gen.molecule(n)
        x = gen.distort(x, g, sigma=0.03)
        x = (x - x.mean(axis=0)) @ gen.haar(g).T + R * o
        Z += list(z)
        X += x.tolist()
    order = sorted(range(len(Z)), key=lambda i: -Z[i])
    return {"Z": [int(Z[i]) for i in order], "X": [[float(v) for v in X[i]] for i in order], "charge": 0}


KNOWN_SP2_CASE = {"kind": "sp2-padded-anion", "mols": [{"name": "OH-", "gseed": 1, "sigma": 0.0, "scale": 1.0},
                                                     {"name": "CH4", "gseed": 2, "sigma": 0.0, "scale": 1.0}],
                  "pad": 0, "method": "AM1", "conv": [1], "sp2": 1e-5, "eps": 1e-8, "start": "default", "cap": None,
                  "uhf": False, "backward": 0}


def gen_cases(tier, seed):
    g = gen.rng("C03", tier)
    cases = []
    n_lattice = 230 if tier == "quick" else 5600
    convs = [[0, 0.0], [0, 0.2], [0, 0.5], [0, 0.7], [0, 0.9], [1], [2], [3, dict(KSA)]]
    sp2s = [None, None, 1e-3, 1e-5, 1e-7, 1e-9]
    epss = [1e-4, 1e-6, 1e-8, 1e-10, 1e-11]
    starts = ["default", "default", "neighbour", "noise", "scaled", "mixture"]
    caps = [None, None, None, 3, 10]
    # the known SP2 hang first, plus relatives (other anions / partners / tolerances / convergers)
    cases.append(dict(KNOWN_SP2_CASE))
    rel = [("OH-", "CH4", [2], 1e-7), ("CN-", "CH3OH", [0, 0.3], 1e-5), ("OH-", "NH3", [1], 1e-3),
           ("H2O", "OH-", [1], 1e-5), ("NH4+", "C2H4", [2], 1e-5), ("HCOO-", "C2H6", [1], 1e-5)]
    for a, b, cv, tol in (rel if tier == "thorough" else rel[:4]):
        cases.append({"kind": "sp2-padded-ion", "mols": [_mk_mol(g, a, 1.0), _mk_mol(g, b, 1.0)], "pad": 0,
                      "method": "AM1", "conv": cv, "sp2": tol, "eps": 1e-8, "start": "default", "cap": None,
                      "uhf": False, "backward": 0})
    # KSA on the smallest systems (Krylov rank >= number of independent density rotations)
    for name, meth in [("H2", "AM1"), ("LiH", "MNDO"), ("HF", "AM1")] + ([("H2", "PM3"), ("HCl", "AM1"), ("BeH2", "MNDO")] if tier == "thorough" else []):
        cases.append({"kind": "ksa-small", "mols": [_mk_mol(g, name, 1.0)], "pad": 0, "method": meth, "conv": [3, dict(KSA)],
                      "sp2": None, "eps": 1e-8, "start": "default", "cap": None, "uhf": False, "backward": 0})
    # far-stretched polar diatomics: diagonal density elements reach the occupation cap inside adaptive_mix
    # (electron-losing renormalisation, repaired in 77e3544); [0,alpha] and Pulay at the same geometries as controls
    if tier == "quick":
        grid = [("HF", "PM3", 12.0, [1]), ("HF", "AM1", 5.0, [1]), ("HF", "MNDO", 26.0, [1]), ("HCl", "AM1", 10.0, [1]),
                ("HCl", "PM3", 4.0, [1]), ("LiF", "MNDO", 6.0, [1]), ("LiH", "MNDO", 5.0, [1]), ("NaCl", "MNDO", 8.0, [1]),
                ("HF", "PM3", 12.0, [0, 0.3]), ("HF", "PM3", 12.0, [2]), ("HCl", "AM1", 10.0, [0, 0.5]), ("HCl", "AM1", 10.0, [2]),
                ("LiH", "MNDO", 18.0, [2]), ("LiH", "PM3", 18.0, [2])]
        grid = [(n, me, d, cv, False) for n, me, d, cv in grid] + [("HF", "AM1", 12.0, [1], True)]
    else:
        grid = []
        for n, ms in [("HF", ["PM3", "AM1", "MNDO"]), ("HCl", ["PM3", "AM1", "MNDO"]), ("LiF", ["MNDO", "PM3"]),
                      ("LiH", ["MNDO", "PM3"]), ("NaCl", ["MNDO"]), ("NaH", ["MNDO"])]:
            for me in ms:
                for d in [3.0, 5.0, 8.0, 12.0, 18.0, 26.0]:
                    for cv in [[1], [1], [0, 0.3], [2]]:
                        grid.append((n, me, d, cv, False))
                grid.append((n, me, 12.0, [1], True))
    for n, me, d, cv, u in grid:
        Zd, Xd0, _, _ = gen.molecule(n)
        d0 = float(np.linalg.norm(np.asarray(Xd0[1]) - np.asarray(Xd0[0])))
        mm = _mk_mol(g, n, d / d0)
        mm["sigma"] = 0.0
        cases.append({"kind": "stretched-diatomic", "mols": [mm], "pad": 0, "method": me, "conv": cv, "sp2": None,
                      "eps": float(_pick(g, [1e-6, 1e-8, 1e-8, 1e-10])), "start": "default", "cap": None, "uhf": u, "backward": 0})
    # decoupled far fragments (and a far-stretched diatomic) under Pulay: DIIS can settle on a charge-transfer determinant
    # that is not the aufbau density of its own Fock matrix; [1] and [0,alpha] at the same geometry as controls
    ff = [(dict(FAR_FRAGMENT_WITNESS), "PM3", [2], "LiH+F2+C2H2@30A"), (dict(FAR_FRAGMENT_WITNESS), "PM3", [1], "LiH+F2+C2H2@30A")]
    nfar = 3 if tier == "quick" else 40
    fpool = ["LiH", "F2", "C2H2", "H2O", "HF", "NH3", "CH4", "CO", "N2", "LiF", "HCl", "BeH2", "H2", "CH2O", "HCN"]
    for i in range(nfar):
        meth = ["PM3", "AM1", "MNDO"][i % 3]
        nm = [n for n in fpool if gen.available(n, meth)]
        pick = [nm[int(j)] for j in g.permutation(len(nm))[: int(g.integers(2, 4))]]
        ex = _far_fragments(g, pick, float(_pick(g, [12.0, 20.0, 30.0, 50.0])))
        for cv in ([[2]] if tier == "quick" and i else [[2], [1], [0, 0.3]]):
            ff.append((ex, meth, cv, "+".join(pick)))
    for ex, meth, cv, label in ff:
        cases.append({"kind": "far-fragments", "mols": [{"name": label, "explicit": ex, "gseed": 0, "sigma": 0.0, "scale": 1.0}],
                      "pad": 0, "method": meth, "conv": cv, "sp2": None, "eps": 1e-8, "start": "default", "cap": None,
                      "uhf": False, "backward": 0})
    # SP2 in batches whose rows need DIFFERENT numbers of purification sweeps (a small next to a much larger molecule):
    # every row is also run alone with the same settings (scf_eps 1e-10, so the eps terms are negligible)
    small, large = ["CH4", "N2", "H2O", "NH3", "HF", "CO"], ["C6H6", "C2H6", "CH3NH2", "CH3OH", "HCOOH", "C2H4"]
    un = [(["CH4", "C6H6"], [0, 0.3], 1e-5), (["N2", "C6H6"], [1], 1e-7), (["H2O", "C2H6"], [2], 1e-5),
          (["N2", "CH3NH2"], [0, 0.5], 1e-7), (["CH4", "N2", "C6H6", "H2O"], [1], 1e-5)]
    for i in range(0 if tier == "quick" else 40):
        k = int(g.integers(2, 8)) if i % 4 == 0 else 2
        names = [_pick(g, small)] + [_pick(g, large)] + [_pick(g, small + large) for _ in range(k - 2)]
        un.append((names, _pick(g, [[0, 0.3], [0, 0.6], [1], [2]]), float(_pick(g, [1e-4, 1e-5, 1e-7]))))
    for names, cv, tol in un:
        ms = []
        for n in names:
            mm = _mk_mol(g, n, 1.0)
            mm["sigma"] = 0.03
            ms.append(mm)
        cases.append({"kind": "sp2-uneven", "mols": ms, "pad": 0, "method": "AM1", "conv": cv, "sp2": tol, "eps": 1e-10,
                      "start": "default", "cap": None, "uhf": False, "backward": 0})
    # finite electronic temperature (Fermi_Q chemical-potential search) in batches of two molecules with EQUAL AO counts
    # (KSA on unequal sizes raises loudly) and different gaps: KSA and the [0, alpha, "T_el", T] form
    # (wide-gap molecule whose mid-gap guess already meets the 1e-9 occupation tolerance next to a narrower-gap one that
    #  needs Newton steps; T_el 3000 K as control where both start inside the tolerance)
    ksa_pairs = [("H2O", "H2S"), ("H2O", "BeH2"), ("NH3", "BH3"), ("CH4", "F2"), ("CH4", "N2"), ("C2H4", "SO2")]
    mix_pairs = [("H2O", "C2H4"), ("H2O", "N2"), ("H2O", "F2"), ("NH3", "H2S"), ("CH2O", "H2S"), ("H2O", "C2H6"),
                 ("HCOOH", "BeH2"), ("SO2", "CH3NH2"), ("HNO", "BH3"), ("CO", "HCOOH"), ("H2O", "HCN", "C2H2")]
    plan = []
    if tier == "quick":
        plan += [(("H2O", "H2S"), 5500.0, True), (("H2O", "H2S"), 4000.0, True), (("H2O", "BeH2"), 5500.0, True),
                 (("NH3", "BH3"), 3000.0, True), (("H2O", "C2H4"), 5500.0, False), (("H2O", "N2"), 5500.0, False),
                 (("NH3", "H2S"), 4000.0, False), (("CH2O", "H2S"), 4000.0, False), (("H2O", "F2"), 5500.0, False),
                 (("H2O", "HCN", "C2H2"), 5500.0, False), (("H2O", "C2H4"), 3000.0, False)]
    else:
        for T in [3000.0, 4000.0, 5500.0]:
            plan += [(pp, T, True) for pp in ksa_pairs] + [(pp, T, False) for pp in mix_pairs]
    plan += [(("CH2O", "OH-"), 1500.0, True), (("CH3OH", "CN-"), 300.0, True), (("CH2O", "OH-"), 1500.0, False)]
    if tier == "thorough":
        plan += [(pp, T, k_) for pp in [("CH2O", "OH-"), ("CH3OH", "CN-"), ("C2H4", "OH-"), ("HCOOH", "CN-"), ("CH3NH2", "OH-", "H2O")]
                 for T in (300.0, 800.0, 1500.0) for k_ in (True, False)]
    for names, T, ksa in plan:
        ms = []
        for n in names:
            mm = _mk_mol(g, n, 1.0)
            mm["sigma"] = 0.02
            ms.append(mm)
        cv = [3, {"T_el": T, "max_rank": 3, "err_threshold": 0.0}] if ksa else [0, 0.3, "T_el", T]
        cases.append({"kind": "finite-T", "mols": ms, "pad": 0, "method": "AM1", "conv": cv, "sp2": None,
                      "eps": 1e-11 if ksa else 1e-10, "start": "default", "cap": None, "uhf": False, "backward": 0, "T_el": T})
    # scf_backward=1: reaches the implicit-adjoint fixed-point loops from the same public call
    for name in (["H2O", "CH2O"] if tier == "quick" else ["H2O", "CH2O", "NH3", "HCN", "CH3OH", "C2H4"]):
        cases.append({"kind": "backward", "mols": [_mk_mol(g, name, 1.0)], "pad": 0, "method": "AM1",
                      "conv": _pick(g, [[1], [2], [0, 0.3]]), "sp2": None, "eps": 1e-8, "start": "default", "cap": None,
                      "uhf": False, "backward": 1})
    # Pulay batches that contain, at a batch position >= 1, a system whose DIIS fixed point is NOT the aufbau density of its own
    # Fock matrix (far-stretched ionic diatomic / decoupled far fragments: the final "F[P] reproduces P" check must reject
    # it), next to mates that converge in other iterations; the same with the system in front as control
    def _lih(d):
        mm = _mk_mol(g, "LiH", d / 1.596)
        mm["sigma"] = 0.0
        return mm

    def _wit():
        return {"name": "LiH+F2+C2H2@30A", "explicit": dict(FAR_FRAGMENT_WITNESS), "gseed": 0, "sigma": 0.0, "scale": 1.0}

    def _mate(n):
        mm = _mk_mol(g, n, 1.0)
        mm["sigma"] = 0.03
        return mm

    rj = [("MNDO", [_mate("HF"), _lih(18.0)]), ("MNDO", [_mate("H2O"), _mate("CH3OH"), _lih(18.0)]),
          ("PM3", [_mate("CH4"), _lih(18.0), _mate("HCN")]), ("PM3", [_mate("H2O"), _wit()]),
          ("PM3", [_mate("CH3OH"), _mate("HF"), _wit()]), ("MNDO", [_lih(18.0), _mate("HF")])]
    if tier == "thorough":
        mates = ["HF", "H2O", "CH4", "NH3", "HCN", "CH3OH", "C2H4", "CO", "N2", "CH2O"]
        for i in range(30):
            meth = ["MNDO", "PM3"][i % 2]
            row = _wit() if (meth == "PM3" and i % 6 == 1) else _lih(float(_pick(g, [12.0, 18.0, 26.0])))
            ms = [_mate(_pick(g, mates)) for _ in range(int(g.integers(1, 4)))]
            ms.insert(int(g.integers(1, len(ms) + 1)), row)
            rj.append((meth, ms))
    for meth, ms in rj:
        cases.append({"kind": "pulay-reject-batch", "mols": ms, "pad": 0, "method": meth, "conv": [2], "sp2": None,
                      "eps": 1e-8, "start": "default", "cap": None, "uhf": False, "backward": 0,
                      "special": [i for i, mm in enumerate(ms) if mm["name"] == "LiH" or mm.get("explicit")]})
    # scf_backward=2 (direct back-propagation): scf_loop calls scf_forward0/1/2 with backward=True, i.e. the separate
    # out-of-place `if backward:` update branches of all three solvers, with autograd enabled
    b2 = [([0, a], nm) for a, nm in [(0.0, "H2O"), (0.05, "CH2O"), (0.1, "NH3"), (0.3, "HCN"), (0.7, "CH4")]] \
        + [([1], "CH2O"), ([2], "H2O"), ([0, 0.0], "HF+CH3OH"), ([0, 0.1], "H2O+C2H4+HCN"), ([1], "NH3+CO"), ([2], "CH4+H2O+HCN")]
    if tier == "thorough":
        nm_pool = ["H2O", "CH2O", "NH3", "HCN", "CH4", "CO", "C2H4", "CH3OH", "HF", "N2", "H2O+C2H4", "CH4+HCN+H2O", "CO+NH3"]
        for a in [0.0, 0.05, 0.1, 0.2, 0.3, 0.5, 0.7]:
            for _ in range(3):
                b2.append(([0, a], _pick(g, nm_pool)))
        for cv in ([1], [2]):
            for _ in range(8):
                b2.append((cv, _pick(g, nm_pool)))
    for j, (cv, label) in enumerate(b2):
        cases.append({"kind": "backward2", "mols": [_mk_mol(g, n, 1.0) for n in label.split("+")], "pad": int("+" in label and j % 2),
                      "method": ["AM1", "PM3", "MNDO"][j % 3], "conv": cv, "sp2": None, "eps": float(_pick(g, [1e-6, 1e-8, 1e-8])),
                      "start": "default", "cap": None, "uhf": False, "backward": 2})
    for i in range(n_lattice):
        method = METHODS[i % 4] if g.random() < 0.7 else "AM1"
        uhf = (i % 6 == 5)
        conv = convs[i % len(convs)]
        if uhf and conv[0] in (2, 3):
            conv = _pick(g, convs[:6])
        sp2 = None if (uhf or conv[0] == 3) else sp2s[(i // len(convs)) % len(sp2s)]
        eps = epss[(i // 3) % len(epss)] if g.random() < 0.7 else _pick(g, epss)
        start = starts[(i // 5) % len(starts)] if g.random() < 0.7 else _pick(g, starts)
        cap = caps[(i // 7) % len(caps)] if g.random() < 0.7 else _pick(g, caps)
        if uhf:
            pool = gen.names_for(method, gen.RADICALS + ["H2O", "NH3", "CH2O"])
        else:
            pool = gen.names_for(method, SMALL_RHF + gen.IONS)
        layout = _pick(g, ["single", "single", "homo", "padded", "padded"])
        if layout == "single":
            mols = [_mk_mol(g, _pick(g, pool))]
        elif layout == "homo":
            nm = _pick(g, pool)
            mols = [_mk_mol(g, nm), _mk_mol(g, nm)]
        else:
            mols = [_mk_mol(g, _pick(g, pool)) for _ in range(int(g.integers(2, 4)))]
        pad = int(g.integers(0, 3)) if layout != "homo" or g.random() < 0.3 else 0
        cases.append({"kind": "lattice", "mols": mols, "pad": pad, "method": method, "conv": conv, "sp2": sp2,
                      "eps": eps, "start": start, "cap": cap, "uhf": bool(uhf), "backward": 0})
    return cases


# ------------------------------------------------------------------------------------------------------
def _geometry(m, extra_seed=0, extra_sigma=0.0):
    if m.get("explicit"):
        Z, Xd, q, mult = list(m["explicit"]["Z"]), np.array(m["explicit"]["X"], float), m["explicit"].get("charge", 0), 1
    else:
        Z, X, q, mult = gen.molecule(m["name"])
        g = np.random.default_rng(m["gseed"])
        Xd = gen.distort(X, g, sigma=m["sigma"]) if m["sigma"] > 0 else np.array(X, float)
        c = Xd.mean(axis=0)
        Xd = (Xd - c) * m["scale"] + c
    if extra_sigma > 0:
        Xd = Xd + np.random.default_rng(m["gseed"] + 7919 * extra_seed).normal(0.0, extra_sigma, Xd.shape)
    return Z, Xd, q, mult


def _batch(case, extra_seed=0, extra_sigma=0.0):
    ms = [_geometry(m, extra_seed, extra_sigma) for m in case["mols"]]
    S, C = gen.pad_batch([(Z, X) for Z, X, _, _ in ms], extra_pad=case.get("pad", 0))
    return S, C, [float(m[2]) for m in ms], [float(m[3]) for m in ms]


def _real_mask_matrix(S):
    from vlib import scfmon
    n = 4 * len(S[0])
    M = np.zeros((len(S), n, n), bool)
    for b, row in enumerate(S):
        idx = scfmon.real_orbital_index(row)
        M[b][np.ix_(idx, idx)] = True
    return M


def _start_density(case, sett_prep, charges, mults):
    """-> P0 (numpy, padded layout) or None; built from un-capped Pulay/adaptive runs at neighbouring geometries."""
    from vlib import run
    kind = case["start"]
    if kind == "default":
        return None
    S, C, _, _ = _batch(case, extra_seed=1, extra_sigma=0.02)
    Pn = run.single_point(S, C, sett_prep, charges=charges, mult=mults)["dm"]
    if kind == "neighbour":
        return Pn
    if kind == "scaled":
        return 0.8 * Pn
    if kind == "noise":
        g = np.random.default_rng(case["mols"][0]["gseed"] + 17)
        # the same symmetric perturbation in both spin channels (UHF), none on padding orbitals
        N = g.normal(0.0, 0.03, (Pn.shape[0],) + Pn.shape[-2:])
        N = 0.5 * (N + np.swapaxes(N, -1, -2)) * _real_mask_matrix(S)
        if Pn.ndim == 4:
            N = N[:, None, :, :]
        return Pn + N
    if kind == "mixture":
        S2, C2, _, _ = _batch(case, extra_seed=2, extra_sigma=0.12)
        Pf = run.single_point(S2, C2, sett_prep, charges=charges, mult=mults)["dm"]
        return 0.6 * Pn + 0.4 * Pf
    raise ValueError(kind)


def classify_termination(case, fired):
    """mechanism key for a failpoint witness (deterministic predicate over the state read from the stuck frame)"""
    if fired["loop"].startswith("SP2") and case.get("sp2"):
        rows = (fired.get("state") or {}).get("rows") or []
        if any(r.get("padding_levels_straddle_fermi") for r in rows):
            return "sp2-padded-batch-anion-nonterminating"
    return None


def run_case(case):
    import torch

    from vlib import run, scfmon
    try:
        from seqm.seqm_functions import scf_loop as sl
    except Exception as exc:  # pragma: no cover
        return {"inconclusive": "cannot import scf_loop: %r" % (exc,)}
    if not hasattr(sl, "MAX_ITER"):
        return {"inconclusive": "required symbol scf_loop.MAX_ITER missing"}

    method, conv, sp2, eps = case["method"], case["conv"], case.get("sp2"), float(case["eps"])
    uhf = bool(case.get("uhf"))
    S, C, charges, mults = _batch(case)
    sett = run.settings(method, eps=eps, converger=tuple(conv), sp2=sp2, uhf=uhf, scf_backward=case.get("backward", 0))
    sett_prep = run.settings(method, eps=1e-8, converger=(1,) if uhf else (2,), uhf=uhf)
    tag = _conv_tag(conv)
    alpha = float(conv[1]) if conv[0] == 0 else 0.0
    A = 1.0 / (1.0 - alpha)
    sp2e = scfmon.sp2_eff(sp2)
    eps_eff = max(eps, sp2e)
    cap = int(case["cap"]) if case.get("cap") else DEFAULT_CAP

    mon = {"calls": 0, "rows_checked_converged": 0, "rows_flagged_notconverged": 0, "get_error_calls": 0,
           "loop_backedges": 0, "sp2_calls": 0, "ksa_returns": 0, "failpoints_fired": 0, "rows_capped_notconverged": 0,
           "flag_pessimistic_rows": 0, "repro_ineligible_small_gap": 0, "calls_raised": 0, "r1_rebuilds": 0,
           "backward_fixed_point_calls": 0, "flag_rows_checked": 0, "iteration_counts_checked": 0,
           "returned_vs_judged_rows": 0, "sp2_calls_uneven_sweeps": 0, "sp2_rows_vs_alone_compared": 0,
           "sp2_rows_same_sweep_sequence": 0, "sp2_rows_other_sweep_sequence": 0, "finite_T_rows_checked": 0,
           "unrolled_backward_path_calls": 0, "pulay_final_check_rejected_rows": 0, "pulay_reject_class_rows_nonfirst": 0,
           "padded_finite_T_rows_checked": 0}
    viol, margins, cells = [], {}, []

    def upd(name, val, tol):
        r = float(val) / tol
        if not np.isfinite(r):
            r = 1e300
        if name not in margins or r > margins[name]:
            margins[name] = r
        return r > 1.0

    try:
        P0 = _start_density(case, sett_prep, charges, mults)
    except Exception as exc:
        return {"ineligible": "start density could not be prepared (%s)" % type(exc).__name__}

    old_cap = sl.MAX_ITER
    lw = scfmon.standard_watch(cap, CONV_MAX, SP2_BOUND)
    if lw.missing:
        return {"inconclusive": "required symbols missing: %s" % ",".join(lw.missing)}
    ksa_log = {}

    def ksa_reader(loc):
        ksa_log["n"] = ksa_log.get("n", 0) + 1
        for k in ("err", "dm_err", "notconverged"):
            if k in loc and torch.is_tensor(loc[k]):
                ksa_log[k] = loc[k].detach().numpy().copy()
        ksa_log["COUNTER"] = int(loc.get("COUNTER", -1))
        d = loc.get("dDS")
        if torch.is_tensor(d):
            ksa_log["dDS_max"] = d.detach().abs().amax(dim=(1, 2)).numpy().copy()
            ksa_log["dDS_fro"] = torch.linalg.norm(d.detach(), dim=(1, 2)).numpy().copy()
        # the solver's own normalisation of the rms test (padded matrix dimension, as handed to get_error elsewhere)
        try:
            ksa_log["size"] = (loc["nSuperHeavy"] * 9 + loc["nHeavy"] * 4 + loc["nHydro"] * 4).detach().numpy().astype(float)
        except Exception:
            pass

    lw.on_return(sl.scf_forward3, ksa_reader)
    unrolled = {"n": 0}

    def _bw(frame):
        if frame.f_locals.get("backward") is True:
            unrolled["n"] += 1

    rejected = {"rows": set(), "last": None}

    def _pulay_final_check(frame):
        # rows of the batch that the solver's final "F[P] reproduces P" confirmation rejected in this iteration
        # (read from live state: `moved` is a fresh tensor object exactly in the iterations in which the check ran)
        loc = frame.f_locals
        mv, nw = loc.get("moved"), loc.get("newly")
        if torch.is_tensor(mv) and torch.is_tensor(nw) and mv is not rejected["last"]:
            rejected["last"] = mv
            idx = torch.nonzero(nw.detach()).reshape(-1)
            if idx.numel() == mv.numel():
                rejected["rows"].update(int(i) for i in idx[mv.detach()].tolist())

    for fn_ in ("scf_forward0", "scf_forward1", "scf_forward2"):
        if hasattr(sl, fn_):
            lw.on_frames(getattr(sl, fn_), start=_bw, backedge=_pulay_final_check if fn_ == "scf_forward2" else None)
    sweeps = scfmon.SP2SweepLog()
    if sp2:
        from seqm.seqm_functions import SP2 as sp2mod
        sweeps.attach(lw, sp2mod.SP2)
    elog = scfmon.ErrorLog(eps)
    out, raised, fired = None, None, None
    try:
        sl.MAX_ITER = cap
        elog.install()
        lw.install()
        mon["calls"] += 1
        try:
            out = run.single_point(S, C, sett, charges=charges, mult=mults,
                                   P0=None if P0 is None else np.array(P0, copy=True), keep=True)
        except scfmon.FailPoint:
            fired = dict(lw.fired)
        except scfmon.MissingSymbol as exc:
            return {"inconclusive": "required symbol missing: %s" % exc}
        except Exception as exc:
            raised = "%s: %s" % (type(exc).__name__, str(exc)[:200])
    finally:
        lw.uninstall()
        elog.uninstall()
        sl.MAX_ITER = old_cap

    mon["get_error_calls"] = elog.calls
    mon["loop_backedges"] = int(sum(lw.max_seen.values()))
    mon["sp2_calls"] = lw.calls.get("SP2", 0)
    mon["sp2_calls_uneven_sweeps"] = sweeps.uneven_calls
    mon["unrolled_backward_path_calls"] = unrolled["n"]
    mon["pulay_final_check_rejected_rows"] = len(rejected["rows"])
    mon["ksa_returns"] = ksa_log.get("n", 0)
    mon["backward_fixed_point_calls"] = lw.calls.get("fixed_point_anderson", 0) + lw.calls.get("fixed_point_picard", 0)
    loops_seen = {k: int(v) for k, v in lw.max_seen.items()}
    for k in lw.calls:
        cells.append("loop-reached/" + k)
    if case.get("T_el"):
        cells.append("finite-T/%s/%s/T%g" % (method, tag, case["T_el"]))
    cell = "%s/%s/%s/eps%g/%s/cap%s/%s/%s" % (method, tag, "sp2=%g" % sp2 if sp2 else "diag", eps, case["start"],
                                              case.get("cap") or "default", "uhf" if uhf else "rhf",
                                              "padded" if any(0 in r for r in S) else ("batch" if len(S) > 1 else "single"))
    cells.append(cell)
    obs = {"loops_max_backedges": loops_seen, "iterations": elog.calls, "cap": cap, "eps_eff": eps_eff, "A": A}

    if fired is not None:
        mon["failpoints_fired"] = 1
        mech = classify_termination(case, fired)
        viol.append({"clause": "termination", "mech": mech,
                     "detail": {"failpoint": fired, "species": S, "charges": charges, "settings": {k: v for k, v in sett.items()},
                                "coords": C}})
        obs["failpoint"] = fired
        return {"nontrivial": True, "violations": viol, "margins": margins, "monitors": mon, "cells": cells, "obs": obs}
    if raised is not None:
        mon["calls_raised"] = 1
        obs["raised"] = raised
        # a raised exception is a loud, bounded return: recorded, not judged here (C18 owns that)
        return {"nontrivial": False, "ineligible": "call raised " + raised.split(":")[0], "monitors": mon,
                "cells": cells, "obs": obs}

    mol, es = out["_mol"], out["_es"]
    flag = np.asarray(out["notconverged"]).astype(bool).reshape(-1)
    nrow = len(S)
    mon["rows_flagged_notconverged"] = int(flag.sum())
    if case.get("cap"):
        mon["rows_capped_notconverged"] = int(flag.sum())

    # ---------------- (B) truthful flag ---------------------------------------------------------
    detail_common = {"species": S, "charges": charges, "mult": mults, "settings": dict(sett), "cap": cap,
                     "start": case["start"]}
    if conv[0] in (0, 1, 2):
        if elog.calls == 0 or elog.conv is None:
            return {"inconclusive": "get_error wrapper saw no call", "monitors": mon, "cells": cells}
        itmax = cap + 1
        mon["iteration_counts_checked"] += 1
        if elog.calls > itmax:
            viol.append({"clause": "iteration-cap-exceeded", "mech": None,
                         "detail": dict(detail_common, iterations=elog.calls)})
        L = elog.last
        e = eps
        for b in range(nrow):
            # guard band of 1e-9 relative around each threshold: rounding in the recomputation is never a verdict
            crit = [L["dE"][b] / (scfmon.K_DE * e), L["rms"][b] / (scfmon.K_RMS * e), L["max"][b] / (scfmon.K_MAX * e)]
            if conv[0] == 2 and elog.saw_diis:      # NaN-safe: a non-finite DIIS error counts as not met
                crit.append(L["diis"][b] / (scfmon.K_DIIS * e))
            worst = max(c if np.isfinite(c) else np.inf for c in crit)
            if not flag[b]:
                mon["flag_rows_checked"] += 1
                if worst > 1.0 + 1e-9:
                    viol.append({"clause": "flag-converged-but-threshold-not-met", "mech": None,
                                 "detail": dict(detail_common, row=b, last_errors={k: float(L[k][b]) for k in ("dE", "rms", "max", "diis")},
                                                eps=eps, iteration=int(L["iter"][b]), criteria_over_threshold=[float(c) for c in crit])})
            elif worst < 1.0 - 1e-9:
                mon["flag_pessimistic_rows"] += 1
        obs["last_errors"] = {k: [float(x) for x in L[k]] for k in ("dE", "rms", "max", "diis")}
        # the flag speaks about the iterate that was judged: the returned density must be that iterate (observed:
        # bitwise) -- at the very least not further from it than one admissible step of the element-wise rule
        if elog.P_judged is not None and tuple(elog.P_judged.shape) == tuple(mol.dm.shape):
            dj = (mol.dm.detach() - elog.P_judged).abs().reshape(nrow, -1).amax(dim=1).numpy()
            for b in range(nrow):
                if not flag[b]:
                    mon["returned_vs_judged_rows"] += 1
                    # (x A: the out-of-place scf_backward=2 update keeps mixing a row that already converged towards its last
                    #  diagonalised density, a geometric series of at most alpha/(1-alpha) admissible steps)
                    if upd("returned_vs_judged_iterate", dj[b], scfmon.K_MAX * eps * A):
                        viol.append({"clause": "returned-density-not-the-judged-iterate", "mech": None,
                                     "detail": dict(detail_common, row=b, max_abs_difference=float(dj[b]), eps=eps)})
        if len(elog.eps_arg_seen) and any(abs(x - eps) > 1e-3 * eps for x in elog.eps_arg_seen):
            obs["eps_argument_differs_from_requested"] = sorted(elog.eps_arg_seen)
    else:
        if not ksa_log.get("n"):
            return {"inconclusive": "KSA return reader saw no return", "monitors": mon, "cells": cells}
        mon["iteration_counts_checked"] += 1
        if ksa_log["COUNTER"] > cap + 1:
            viol.append({"clause": "iteration-cap-exceeded", "mech": None,
                         "detail": dict(detail_common, iterations=ksa_log["COUNTER"])})
        # KSA has no get_error call: its last-iteration energy change and density residual D(F[P]) - P are read
        # from the returning frame and judged with the same three-part rule (the residual is the quantity the
        # solver's density test speaks about)
        if not all(k_ in ksa_log for k_ in ("err", "dDS_max", "dDS_fro")):
            return {"inconclusive": "KSA frame locals (err, dDS) not found in scf_forward3", "monitors": mon, "cells": cells}
        kerr = np.asarray(ksa_log["err"], float).reshape(-1)
        kmax = np.asarray(ksa_log["dDS_max"], float).reshape(-1)
        kfro = np.asarray(ksa_log["dDS_fro"], float).reshape(-1)
        for b in range(nrow):
            if flag[b]:
                continue
            mon["flag_rows_checked"] += 1
            size = float(ksa_log["size"][b]) if "size" in ksa_log else 4.0 * sum(1 for z in S[b] if z > 0)
            crit = [kerr[b] / (scfmon.K_DE * eps), kfro[b] / size / (scfmon.K_RMS * eps), kmax[b] / (scfmon.K_MAX * eps)]
            if not all(c <= 1.0 + 1e-9 for c in crit):     # NaN-safe: a non-finite error never counts as "met"
                if not all(np.isfinite(c) for c in crit):
                    mech = "ksa-nan-density-flagged-converged"
                else:
                    mech = "ksa-stops-on-energy-only" if crit[0] <= 1.0 + 1e-9 else None
                viol.append({"clause": "flag-converged-but-threshold-not-met", "mech": mech,
                             "detail": dict(detail_common, row=b, last_dE=float(kerr[b]), residual_max=float(kmax[b]),
                                            residual_rms=float(kfro[b] / size), eps=eps,
                                            criteria_over_threshold=[float(c) for c in crit])})
        obs["ksa_last"] = {"dE": [float(x) for x in kerr], "iterations": ksa_log["COUNTER"],
                           "resid_max": [float(x) for x in kmax]}

    # ---------------- (A) converged => residuals small ------------------------------------------
    P = mol.dm.detach()
    try:
        F, H = scfmon.rebuild_fock(mol, P)
    except Exception as exc:
        return {"inconclusive": "Fock rebuild failed: %r" % (exc,), "monitors": mon, "cells": cells}
    Pn = P.numpy()
    Ee = np.asarray(out["Eelec"]).reshape(-1)
    q = np.asarray(out["q"])
    judged = 0
    resid_rows = []
    su = S_UHF if uhf else 1.0
    for b in range(nrow):
        if flag[b]:
            continue
        nel, na, nb = scfmon.electron_counts(S[b], charges[b], mults[b], gen.VALENCE)
        r = scfmon.residuals(S[b], Pn[b], F[b], H[b], nel, na, nb, Ee[b], q[b], charges[b])
        judged += 1
        mon["rows_checked_converged"] += 1
        bad = []
        nbas = len(scfmon.real_orbital_index(S[b]))
        if not r["finite"]:
            viol.append({"clause": "non-finite-result-flagged-converged",
                         "mech": "ksa-nan-density-flagged-converged" if conv[0] == 3 else None,
                         "detail": dict(detail_common, row=b, coords=C[b], Eelec=repr(Ee[b]))})
            continue
        # linear mixing keeps tr(P_k) - N = alpha^k (tr(P_0) - N); the element-wise stopping rule then gives
        # |tr P - N| <= alpha/(1-alpha) * n_orb * 15 eps (only a start density with a wrong trace uses this term)
        # KSA: P_k = P_(k-1) - dP with tr(dP) = tr(residual) (1 + o(1)), so |tr P - N| <= n_orb * max|residual| <= n_orb * 15 eps
        tol_trace = 1e-9 + 10.0 * sp2e + K_TRACE_EPS * nbas * eps * (alpha * A if conv[0] == 0 else (1.0 if conv[0] == 3 else 0.0))
        finite_T = bool(case.get("T_el"))
        if finite_T:
            # Fermi_Q solves sum_i f_i = n_occ to 1e-9 (spatial orbitals) => every density it returns has |tr P - N| <= 2e-9;
            # convex mixing from the exact-trace default guess keeps that; KSA adds tr(residual) <= n_orb * 15 eps (eps 1e-11
            # in these cells).  A strict consequence of the stopping rules, taken x1.5.
            tol_trace = 1.5 * (2.0e-9 + (K_TRACE_EPS * nbas * eps if conv[0] == 3 else 0.0))
            mon["finite_T_rows_checked"] += 1
            if 0 in S[b]:
                mon["padded_finite_T_rows_checked"] += 1
        checks = [("symmetry", r["symmetry"], TOL_SYM), ("padding", r["padding"], 1e-14),
                  ("trace", r["trace"], tol_trace), ("trace_spin", r["trace_spin"], tol_trace),
                  ("charge_sum", r["charge_sum"], tol_trace),
                  ("idempotency", r["idempotency"], 1e-12 + K_IDEM * eps_eff * A),
                  ("commutator", r["commutator"], 1e-10 + K_COMM * eps_eff * A * su),
                  ("energy", r["energy"], TOL_E + 1e-13 * abs(r["E_functional"]))]
        # first-order response of the aufbau density to the Fock change of one admissible step is dF_ov / gap:
        # the constant holds for gaps >= 1 eV and scales with 1/gap below
        if r["gap"] is not None and not (r["gap"] <= GAP_MIN):      # NaN-safe: a non-finite gap stays eligible (and violates)
            gf = max(1.0, 1.0 / r["gap"]) if np.isfinite(r["gap"]) else 1.0
            checks.append(("reproduction", r["reproduction"], 1e-10 + K_REPRO * eps_eff * A * su * gf))
        else:
            mon["repro_ineligible_small_gap"] += 1
        # second rebuild: reference model R1 (independent implementation of the published NDDO equations)
        r1 = None
        if method in scfmon.R1_METHODS and len(S[b]) <= 9:
            try:
                r1 = scfmon.r1_residuals(method, S[b], C[b], Pn[b], F[b], nel, na, nb)
            except ImportError:
                r1 = None
        if r1 is not None:
            mon["r1_rebuilds"] += 1
            allow = 4.0 * r1["nbas"] * scfmon.R1_DF      # |[dF,P]| <= 2 n |dF|max |P|max
            checks.append(("commutator_R1", r1["commutator"], allow + K_COMM * eps_eff * A * su))
            if r1["gap"] is not None and not (r1["gap"] <= 0.5):
                checks.append(("reproduction_R1", r1["reproduction"],
                               allow / r1["gap"] + 1e-10 + K_REPRO * eps_eff * A * su * max(1.0, 1.0 / r1["gap"])))
            obs["max_F_repo_minus_F_R1"] = max(obs.get("max_F_repo_minus_F_R1", 0.0), r1["dF"])   # C06's business; recorded only
        if finite_T:   # fractional occupations: idempotency and aufbau reproduction do not apply
            checks = [c_ for c_ in checks if c_[0] not in ("idempotency", "reproduction", "reproduction_R1")]
            checks = [(n_ + ("@T" if n_ in ("trace", "trace_spin", "charge_sum") else ""), v_, t_) for n_, v_, t_ in checks]
        for name, val, tol in checks:
            if upd(name + ("/" + tag + ("/uhf" if uhf else "") if name in ("idempotency", "commutator", "reproduction") else ""), val, tol):
                bad.append((name, float(val), float(tol)))
        rr = {k: (float(v) if isinstance(v, (int, float)) and v is not None else v) for k, v in r.items()}
        resid_rows.append(rr)
        # adaptive mixing ended on a density that lost an even number (>= 2) of electrons (DESIGN-era defect of the
        # adaptive_mix renormalisation): every clause this row breaks carries that mechanism
        dtr = float(r["trace"])
        lost = int(round(dtr)) if np.isfinite(dtr) else -1
        loses_electrons = bool(conv[0] == 1 and lost >= 2 and lost % 2 == 0 and abs(dtr - lost) < 1e-3)
        # Pulay returned (flagged converged) an idempotent density that commutes with its own Fock matrix but is NOT its
        # aufbau density: a charge-transfer / excited determinant (O(1) occupation difference, not an eps-scale residual)
        non_aufbau = bool(conv[0] == 2 and r["idempotency"] <= 1e-12 + K_IDEM * eps_eff * A and r["reproduction"] > 0.1)
        for name, val, tol in bad:
            mech = "adaptive-mix-loses-electrons" if loses_electrons else None
            if non_aufbau and name in ("reproduction", "reproduction_R1"):
                mech = "pulay-converged-flag-on-non-selfconsistent-density"
            if conv[0] == 3 and name in ("idempotency", "commutator", "reproduction", "commutator_R1", "reproduction_R1"):
                # KSA met its own (energy-only) rule, yet the density residual of its last iteration is above
                # the element-wise density criterion every other solver must meet
                kerr_b = float(np.asarray(ksa_log.get("err", [np.nan] * nrow)).reshape(-1)[b])
                res_b = float(np.asarray(ksa_log.get("dDS_max", [np.nan] * nrow)).reshape(-1)[b])
                if kerr_b <= eps and (res_b > scfmon.K_MAX * eps or not np.isfinite(res_b)):
                    mech = "ksa-stops-on-energy-only"
            viol.append({"clause": name, "mech": mech,
                         "detail": dict(detail_common, row=b, value=val, bound=tol, ratio=val / tol, eps_eff=eps_eff, A=A,
                                        residuals=rr, coords=C[b])})
    if case.get("kind") == "pulay-reject-batch":
        # was the class really exercised?  a non-first row that the solver's final check rejected at least once (observed in
        # the live frame) or, independently of any internal name, whose alone-run under the same settings is not a converged
        # aufbau solution (flagged not converged)
        obs["final_check_rejected_rows"] = sorted(rejected["rows"])
        for b in case.get("special", []):
            hit = b in rejected["rows"]
            if not hit:
                Zb, Xb, qb, mb = _geometry(case["mols"][b])
                try:
                    alone = run.single_point(Zb, Xb, sett, charges=qb, mult=mb)
                    hit = bool(np.any(alone["notconverged"]))
                except Exception:
                    hit = False
            if hit and b >= 1:
                mon["pulay_reject_class_rows_nonfirst"] += 1
    if case.get("kind") == "sp2-uneven":
        # every converged row against the SAME molecule run alone with the same settings: SP2 acts row by row, so the
        # batch can only change a row's SCF path (Pulay) -- both runs end within one admissible step of the same fixed point
        obs["sp2_sweeps_batch"] = {str(k): v[:6] for k, v in sweeps.rows.items()}
        from seqm.seqm_functions import SP2 as sp2mod
        for b in range(nrow):
            if flag[b]:
                continue
            Zb, Xb, qb, mb = _geometry(case["mols"][b])
            lw2 = scfmon.standard_watch(cap, CONV_MAX, SP2_BOUND, extra=False)
            sw2 = scfmon.SP2SweepLog()
            sw2.attach(lw2, sp2mod.SP2)
            try:
                lw2.install()
                try:
                    alone = run.single_point(Zb, Xb, sett, charges=qb, mult=mb)
                except scfmon.FailPoint:
                    alone = None
                    viol.append({"clause": "termination", "mech": None,
                                 "detail": dict(detail_common, row=b, where="alone-run of the row", failpoint=dict(lw2.fired or {}))})
                except Exception as exc:
                    alone = None
                    if "converge" not in str(exc).lower():
                        # the row completed (flagged converged) inside the batch: the same molecule alone must not raise
                        viol.append({"clause": "sp2-row-alone-run-raised", "mech": None,
                                     "detail": dict(detail_common, row=b, exception="%s: %s" % (type(exc).__name__, str(exc)[:300]))})
            finally:
                lw2.uninstall()
            if alone is None or bool(np.any(alone["notconverged"])):
                continue
            mon["sp2_rows_vs_alone_compared"] += 1
            same = sw2.rows.get(0) == sweeps.rows.get(b)
            mon["sp2_rows_same_sweep_sequence" if same else "sp2_rows_other_sweep_sequence"] += 1
            n4 = 4 * len(Zb)
            dP = float(np.abs(Pn[b][:n4, :n4] - alone["dm"][0]).max())
            dT = abs(float(np.trace(Pn[b])) - float(np.trace(alone["dm"][0])))
            dE = abs(float(Ee[b]) - float(alone["Eelec"][0]))
            # both runs stop within one admissible step (15 eps A) of the same fixed point, on either side of it, and a
            # Pulay row may take another path in the batch: 4 admissible steps
            tolP = 1e-10 + 4.0 * scfmon.K_MAX * eps * A
            for name, val, tol in (("sp2_row_vs_alone_density", dP, tolP), ("sp2_row_vs_alone_trace", dT, n4 * tolP),
                                   ("sp2_row_vs_alone_Eelec", dE, 1e-9 + 20.0 * eps * A)):
                if upd(name, val, tol):
                    viol.append({"clause": name, "mech": None,
                                 "detail": dict(detail_common, row=b, value=val, bound=tol, ratio=val / tol, coords=C,
                                                sweeps_batch=sweeps.rows.get(b, [])[:8], sweeps_alone=sw2.rows.get(0, [])[:8],
                                                sweeps_other_rows={str(k): v[:4] for k, v in sweeps.rows.items() if k != b})})
    obs["residuals"] = resid_rows[:3]
    obs["flag"] = [bool(x) for x in flag]
    conv_counts = {}
    if not flag.any():
        # a fully converged call: its loop counts calibrate the failpoint bounds (see summarize)
        for k, v in loops_seen.items():
            conv_counts[k.split("#")[0]] = max(conv_counts.get(k.split("#")[0], 0), v)
    obs["converged_loop_counts"] = conv_counts
    return {"nontrivial": bool(judged or flag.any()), "violations": viol, "margins": margins, "monitors": mon,
            "cells": cells, "obs": obs}


K_TRACE_EPS = 15.0   # wrong-trace start under fixed mixing: |tr P - N| <= alpha/(1-alpha) * n_orb * 15 eps (see report)


def summarize(cases, results, report):
    """cross-case: the calibration constant CONV_MAX must dominate what converging runs actually showed
    (otherwise the failpoint bound would not be >= 10x a converging run) -> noted, and the run is made
    inconclusive through a harness-error entry rather than ever reported as a violation."""
    seen = {}
    for r in results:
        if not r:
            continue
        for k, v in ((r.get("obs") or {}).get("converged_loop_counts") or {}).items():
            seen[k] = max(seen.get(k, 0), int(v))
    stale = {k: v for k, v in seen.items() if v > CONV_MAX.get(k, 10**9)}
    if stale:
        report.notes.append("calibration stale: converging runs showed loop counts above CONV_MAX: %r" % stale)
    loops = {}
    for r in results:
        for k, v in ((r or {}).get("obs") or {}).get("loops_max_backedges", {}).items():
            loops[k] = max(loops.get(k, 0), int(v))
    return {"loop_max_backedges_any_run": loops, "loop_max_backedges_converging_runs": seen,
            "failpoint_bounds": {k: max(10 * v, {"SP2": SP2_BOUND}.get(k, 0)) for k, v in CONV_MAX.items()},
            "calibration_stale": stale}
