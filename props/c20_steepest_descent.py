"""C20 - steepest descent descends and stops truthfully.

Runtime monitoring of the real Geometry_Optimization_SD.run (seqm/MolecularDynamics.py): the instance's `onestep` is
wrapped (records coordinates before, returned force, returned Etot, coordinates after, SCF flag of every evaluation),
stdout is captured, and the record is judged by

  update      x_after - x_before = alpha * F_returned for every evaluation (round-off only), and nothing else moves the
              coordinates between evaluations (x_before[i+1] bitwise x_after[i]; final coordinates bitwise x_after[last])
  fresh-force F_i and E_i equal an INDEPENDENT single point (fresh Molecule + Electronic_Structure, scf_eps 1e-11) at the
              recorded x_i - no stale / sign-flipped / wrong-geometry force (5x the C04 bound).  Cold Pulay first; because
              cold starts can land on another SCF solution than the warm-started run, cold adaptive / fixed mixing and
              finally a fresh start from the density recorded at that evaluation are tried for rows that do not match
  descent     for alpha <= 2e-3: E_{i+1} <= E_i + 10 eps for every molecule of the batch
  stop        the number of evaluations n is min(first i with max|F_i| <= tol, cap): no evaluation before the last one
              met the criterion, and the run did not stop early without meeting it
  returned    returned (max force, dE) = (max|F_n|, mean_k(E_n - E_{n-1})) of the last evaluated geometry
  report      stdout says "converged" iff the criterion was met before the cap, "not converged" iff the cap was reached
              without meeting it (criterion met exactly on the cap-th evaluation: recorded, not judged); the per-iteration
              log lines reproduce the recorded max force / Etot / dE
  padding     padding coordinates bitwise unchanged
  reuse       driver-reuse sequences (case kind "reuse"): ONE optimiser object, 2-3 run() calls on fresh Molecules
              (converging run then cap-bound run, the reverse, three-run orders); every run is judged with the update /
              descent / stop / returned / report / padding clauses, so nothing of an earlier run may leak into a later one
  continue    continuation sequences (case kind "continue"): run N then run M (then L) on the SAME molecule + optimiser
              must follow the uninterrupted N+M(+L) path (1e-10 A), every reported step must be exactly one true
              energy/force evaluation (counting wrapper on the driver's forward), and the force / energy reported at the
              first step of a run on a molecule that already carries force + Etot (second leg; single point -> in-place
              distortion -> run) must be those of an independent single point at the reported coordinates
  tolerance   force_tol in {0, 1e-9, 1e-7} with scf_eps 1e-8..1e-10 on fast-converging diatomics (alpha 8e-3): the stop
              rule is judged against the REQUESTED tolerance
  isolation   path of every molecule alone (same alpha / tolerance / cap) equals its path in the batch within 1e-7 A on
              the common prefix (alpha <= 2e-3; for larger alpha the update map can be expansive, so only the first
              three evaluations are judged and the rest recorded)
"""
import math
import re

import numpy as np

from vlib import gen

PROPERTY = "C20"
RULE = ("case = (1-3 library molecules, Gaussian distortion sigma 0.03-0.08 A, method, SCF solver incl. SP2 and fixed mixing "
        "(density reused between iterations by the optimiser), alpha in {1e-4..2e-2}, force tolerance given as a fraction of "
        "the initial max force or absolute, evaluation cap 3..40, padding width / padding coordinate values); non-trivial "
        "when >= 2 evaluations were recorded with every SCF converged; distinct by SHA-1 of the case")
ASSUMPTIONS = ["float64 CPU", "scf_eps 1e-10 (some 1e-8): force noise 2e3 eps below every effect looked for",
               "descent asserted only for alpha <= 2e-3 (DESIGN: at 2e-2 a C=O stretch legitimately overshoots)",
               "the tie 'criterion first met on the cap-th evaluation' is recorded, not judged (statement leaves it open)",
               "dE of a run with a single evaluation (E_1 - 0) is recorded, not judged"]
REQUIRED_MONITORS = ["sp2_heterogeneous_batch_steps_compared_with_alone", "dispersion_runs", "continuation_second_run_first_steps_checked", "continuation_steps_compared",
                     "true_evaluations_counted", "runs_with_force_tol_below_10_scf_eps_that_reached_it", "onestep_calls", "independent_single_points", "runs_stopped_by_criterion", "runs_stopped_by_cap",
                     "padding_atoms_checked", "alone_vs_batch_rows", "reuse_cap_run_after_converged_run",
                     "reuse_converged_run_after_cap_run"]
CASE_TIMEOUT = 900.0
BUDGET_S = {"quick": 280, "thorough": 1700}
MIN_NONTRIVIAL = 4

EPS = 2.220446049250313e-16
BIG = 1e300
EPS_REF = 1e-11
ALPHA_DESCENT = 2e-3
TOL_PATH = 1e-7
TOL_F_CROSS = 5e-6
MECH_SCF = "scf-solution-depends-on-batch-mates"


def gen_cases(tier, seed):
    g = gen.rng("C20", tier)
    q = tier == "quick"
    n = 20 if q else 150
    alphas = [1e-3, 2e-3, 1e-4, 2e-2, 5e-4, 2e-3, 5e-3, 1e-3]
    solvers = [("pulay", None), ("mix", 0.3), ("adaptive", None), ("pulay", None), ("sp2", 1e-7), ("mix", 0.5)]
    methods = ["AM1", "PM3", "MNDO", "AM1", "PM6_SP", "PM3"]
    small = ["H2O", "NH3", "CH4", "HF", "CO", "HCN", "CH2O", "N2", "C2H2", "H2", "CO2", "HCl", "H2S", "CH3F", "HOOH",
             "CH3OH", "C2H4", "LiH", "SiH4", "PH3", "NH4+", "OH-"]
    cases = []
    for k in range(n):
        method = methods[k % len(methods)]
        names = [m for m in small if gen.available(m, method)]
        nm = [1, 2, 3, 2][k % 4]
        mols = [names[int(i)] for i in g.choice(len(names), nm, replace=False)]
        if k % 4 == 3:
            mols[1] = mols[0]  # the same molecule twice, differently distorted
        solver, par = solvers[k % len(solvers)]
        if solver == "sp2" and any(gen.molecule(m)[2] != 0 for m in mols):
            solver, par = "pulay", None
        alpha = alphas[k % len(alphas)]
        stop = [("ratio", 0.3), ("cap", 0.0), ("ratio", 0.1), ("ratio", 0.6), ("cap", 0.0), ("ratio", 0.05), ("abs", 0.5)][k % 7]
        cap = int([12, 5, 30, 8, 3, 40, 25][k % 7]) if q else int(g.choice([3, 5, 8, 12, 20, 30, 40]))
        if alpha <= 1e-4 and stop[0] == "ratio":
            stop = ("ratio", 0.97)
        cases.append({"mols": mols, "method": method, "solver": solver, "solver_par": par,
                      "eps": 1e-8 if k % 5 == 4 else 1e-10, "grad": ["autodiff", "analytical"][k % 2],
                      "alpha": alpha, "stop": list(stop), "cap": cap, "sigma": float(g.choice([0.03, 0.05, 0.08])),
                      "extra_pad": int(g.integers(0, 3)), "pad_value": ["zero", "random", "far"][k % 3],
                      "geom_seed": int(g.integers(0, 2 ** 31))})
    # driver-reuse sequences: one optimiser object, 2-3 runs on fresh molecules
    conv, capr = ("ratio", 0.75), ("cap", 0.0)
    orders = [[conv, capr], [capr, conv], [conv, capr, conv], [capr, conv, capr], [conv, conv, capr], [conv, capr, capr]]
    nr = 6 if q else 48
    rsmall = ["H2O", "NH3", "HF", "H2", "CH4", "HCN", "CO", "H2S", "HCl", "N2"]
    for k in range(nr):
        method = methods[k % len(methods)]
        names = [m for m in rsmall if gen.available(m, method)]
        mols = [names[int(i)] for i in g.choice(len(names), 1 + k % 2, replace=False)]
        solver, par = [("pulay", None), ("adaptive", None), ("mix", 0.3)][k % 3]
        runs = []
        for st in orders[k % len(orders)]:
            if st[0] == "ratio":
                runs.append({"stop": ["ratio", float(g.choice([0.6, 0.75, 0.85]))], "cap": int(g.choice([20, 25, 30])),
                             "geom_seed": int(g.integers(0, 2 ** 31))})
            else:
                runs.append({"stop": ["cap", 0.0], "cap": int(g.choice([2, 3, 4, 5])), "geom_seed": int(g.integers(0, 2 ** 31))})
        cases.append({"kind": "reuse", "mols": mols, "method": method, "solver": solver, "solver_par": par, "eps": 1e-10,
                      "grad": ["autodiff", "analytical"][k % 2], "alpha": float([2e-3, 1e-3][k % 2]), "sigma": 0.05,
                      "extra_pad": int(k % 2), "pad_value": ["zero", "far"][k % 2], "runs": runs, "cap": 0})
    # continuation: same molecule + optimiser run again / single point, in-place distortion, run
    clist = [("split", [5, 5]), ("sp-distort", [4]), ("split", [3, 4, 3]), ("split", [1, 6])] if q else \
            [("split", [5, 5]), ("sp-distort", [4]), ("split", [3, 4, 3]), ("split", [1, 6]), ("sp-distort", [6]),
             ("split", [8, 1]), ("split", [4, 4]), ("sp-distort", [3])] * 3
    csmall = ["H2O", "NH3", "HF", "CH4", "HCN", "CO", "H2S", "CH2O"]
    for k, (mode, legs) in enumerate(clist):
        method = methods[k % len(methods)]
        names = [m for m in csmall if gen.available(m, method)]
        mols = [names[int(i)] for i in g.choice(len(names), 1 + k % 2, replace=False)]
        solver, par = [("adaptive", None), ("pulay", None), ("mix", 0.3)][k % 3]
        cases.append({"kind": "continue", "mode": mode, "legs": legs, "mols": mols, "method": method, "solver": solver,
                      "solver_par": par, "eps": 1e-10, "grad": ["autodiff", "analytical"][k % 2], "alpha": float([2e-3, 1e-3, 5e-3][k % 3]),
                      "sigma": 0.05, "extra_pad": int(k % 2), "pad_value": ["zero", "far"][k % 2],
                      "geom_seed": int(g.integers(0, 2 ** 31)), "cap": sum(legs)})
    # tolerance sweep on fast-converging systems: force_tol below 10 scf_eps (incl. 0 = "run to the cap")
    tlist = [(0.0, 1e-8, 40), (1e-9, 1e-8, 60), (1e-7, 1e-9, 60), (1e-9, 1e-10, 60)] if q else \
            [(t, e, c) for t in (0.0, 1e-9, 1e-7) for e in (1e-8, 1e-9, 1e-10) for c in (45, 60)]
    for k, (ft, eps, cap_t) in enumerate(tlist):
        cases.append({"mols": [["HF", "H2"], ["H2", "HF"], ["HF"], ["H2", "H2"]][k % 4], "method": ["AM1", "PM3", "MNDO"][k % 3],
                      "solver": ["adaptive", "pulay"][k % 2], "solver_par": None, "eps": eps, "grad": ["autodiff", "analytical"][k % 2],
                      "alpha": 0.008, "stop": ["abs", ft], "cap": cap_t, "sigma": 0.03, "extra_pad": 0, "pad_value": "zero",
                      "tolsweep": True, "geom_seed": int(g.integers(0, 2 ** 31))})
    # SP2 purification (fixed mixing, no Pulay) on heterogeneous zero-padded batches: purifications of the members need
    # different numbers of passes; isolation (path and energies vs alone) and descent with the SP2-aware allowance
    slist = [(1e-6, "AM1", ["CH4", "H2O", "CH2O"]), (1e-7, "PM3", ["NH3", "HCN", "H2O"])] if q else \
            [(t, me, ml) for t in (1e-5, 1e-6, 1e-7) for me, ml in (("AM1", ["CH4", "H2O", "CH2O"]), ("PM3", ["NH3", "HCN", "H2O"]),
                                                                        ("MNDO", ["CH2O", "HF", "CH4"]), ("AM1", ["C2H4", "H2", "CH3OH"]))]
    for k, (t, me, ml) in enumerate(slist):
        cases.append({"mols": ml, "method": me, "solver": "sp2mix", "solver_par": t, "mix": 0.2, "eps": 1e-8,
                      "grad": ["autodiff", "analytical"][k % 2], "alpha": 2e-3, "stop": ["cap", 0.0], "cap": 16 if q else 25, "sigma": 0.05,
                      "extra_pad": int(k % 2), "pad_value": "zero", "geom_seed": int(g.integers(0, 2 ** 31))})
    # AM1-FS1 dispersion switched on, weakly bound complex: energy and force must stay consistent along the run
    dlist = [(4.5, False, 2e-3, "autodiff")] if q else [(4.5, False, 2e-3, "autodiff"), (4.5, True, 2e-3, "autodiff"),
                                                          (4.0, False, 1e-3, "autodiff"), (5.0, False, 2e-3, "analytical"),
                                                          (4.5, False, 2e-3, "analytical")]
    for sep, water, al, gr in dlist:
        cases.append({"mols": ["CH4", "CH4"] + (["H2O"] if water else []), "dimer": {"sep": sep, "with_water": water},
                      "dispersion": True, "method": "AM1", "solver": "adaptive", "solver_par": None, "eps": 1e-11, "grad": gr,
                      "alpha": al, "stop": ["cap", 0.0], "cap": 8, "sigma": 0.0, "extra_pad": 1 if water else 0,
                      "pad_value": "zero", "geom_seed": 1})
    # expensive first
    cases.sort(key=lambda c: -((c["cap"] or sum(r["cap"] for r in c.get("runs", []))) * sum(len(gen.molecule(m)[0]) for m in c["mols"])))
    # the small classes that carry required monitors go first, so that a time budget hit on a loaded machine skips
    # ordinary runs rather than a whole class
    cases.sort(key=lambda c: 0 if (c.get("kind") in ("continue", "reuse") or c.get("dispersion") or c.get("solver") == "sp2mix") else 1)
    return cases


def _settings(case, eps=None, cold=False):
    from vlib import run

    if cold:
        return run.settings(case["method"], eps=EPS_REF, converger=(2,), grad=case["grad"], extra=_X(case))
    s, p = case["solver"], case["solver_par"]
    if s == "pulay":
        return run.settings(case["method"], eps=case["eps"], converger=(2,), grad=case["grad"], extra=_X(case))
    if s == "mix":
        return run.settings(case["method"], eps=case["eps"], converger=(0, p), grad=case["grad"], extra=_X(case))
    if s == "adaptive":
        return run.settings(case["method"], eps=case["eps"], converger=(1,), grad=case["grad"], extra=_X(case))
    if s == "sp2":
        return run.settings(case["method"], eps=case["eps"], converger=(2,), sp2=p, grad=case["grad"], extra=_X(case))
    if s == "sp2mix":  # SP2 purification with fixed mixing (no Pulay)
        return run.settings(case["method"], eps=case["eps"], converger=(0, float(case["mix"])), sp2=p, grad=case["grad"], extra=_X(case))
    raise ValueError(s)


def _amp(case):
    if case["solver"] == "sp2mix":
        return 1.0 / (1.0 - float(case["mix"]))
    return 1.0 / (1.0 - case["solver_par"]) if case["solver"] == "mix" else 1.0


def _eps_eff(case):
    e = case["eps"]
    if case["solver"] in ("sp2", "sp2mix"):
        e = max(e, float(case["solver_par"]))
    return e


def _batch(case):
    if case.get("dimer"):
        # methane dimer, monomers at their AM1 minimum (C-H 1.1116 A), C...C = sep: every inter-monomer pair is beyond
        # the AM1-FS1 damping radius, so the dispersion correction and its force are switched on
        a, sep = 0.64179, float(case["dimer"]["sep"])
        mono = np.array([[0.0, 0, 0], [a, a, a], [-a, -a, a], [-a, a, -a], [a, -a, -a]])
        Z = [6, 6] + [1] * 8
        X = np.vstack([mono[:1], mono[:1] + [sep, 0, 0], mono[1:], mono[1:] + [sep, 0, 0]])
        X = X + np.random.default_rng(case["geom_seed"]).normal(0, float(case["dimer"].get("sigma", 0.0)), X.shape)
        mols, charges, mults = [(Z, X)], [0], [1]
        if case["dimer"].get("with_water"):
            Zw, Xw, _, _ = gen.molecule("H2O")
            mols.append((Zw, Xw))
            charges.append(0)
            mults.append(1)
        S, C = gen.pad_batch(mols, extra_pad=int(case.get("extra_pad", 0)), pad_value=0.0)
        return np.array(S), np.array(C, float), charges, mults
    g = np.random.default_rng(case["geom_seed"])
    mols, charges, mults = [], [], []
    for name in case["mols"]:
        Z, X, q, m = gen.molecule(name)
        Xd = gen.distort(X, g, sigma=case["sigma"])
        mols.append((Z, Xd))
        charges.append(q)
        mults.append(m)
    pv = {"zero": 0.0, "random": "random", "far": 37.5}[case["pad_value"]]
    S, C = gen.pad_batch(mols, extra_pad=case["extra_pad"] if len(mols) > 1 or case["extra_pad"] else 0, pad_value=pv, g=g)
    return np.array(S), np.array(C, float), charges, mults


def _margin(margins, name, val, bound):
    """observed/bound; a non-finite observation (NaN compares False with everything) violates its clause"""
    v, b = float(val), float(bound)
    r = min(v / b, BIG) if math.isfinite(v) and math.isfinite(b) and b > 0 else (0.0 if v == 0 and b == 0 else BIG)
    if name not in margins or r > margins[name]:
        margins[name] = r
    return not (r <= 1.0)


def _X(case):
    return {"dispersion": True} if case.get("dispersion") else None


def _ind_grad(case):
    """gradient mode of the independent single points: the run's own, except with the dispersion correction, where the
    OTHER force path is used (back-propagation vs analytical), so that a term missing from one path cannot hide"""
    if case.get("dispersion"):
        return "analytical" if case["grad"] == "autodiff" else "autodiff"
    return case["grad"]


_LINE = re.compile(r"^(\d+)\s+([-+0-9.eE]+|nan|inf)\s+\|\|(.*)$")


def _sd_run(case, S, C, charges, mults, alpha, tol, cap, drv=None, reuse_mol=False):
    """one real Geometry_Optimization_SD.run with the onestep recorder -> record dict.
    drv: a dict kept by the caller; when given, the SAME optimiser object (and its settings dictionary) is reused for
    this run, with alpha / force_tol / max_evl set as attributes: on a fresh Molecule (driver-reuse sequences) or, with
    reuse_mol, on the SAME Molecule object as the previous run (continuation sequences).
    Both wrappers (onestep, esdriver.forward) pass *args / **kwargs through untouched, so a signature change in the
    repository cannot blind the recorder; the esdriver wrapper counts the true energy/force evaluations."""
    import contextlib
    import io
    import warnings

    import torch
    from seqm.MolecularDynamics import Geometry_Optimization_SD
    from vlib import run

    ch = charges if len(set(charges)) > 1 else charges[0]
    if drv is not None and drv.get("sd") is not None:
        sd, st = drv["sd"], drv
        if reuse_mol:
            mol = drv["mol"]
        else:
            from seqm.Molecule import Molecule
            from seqm.seqm_functions.constants import Constants

            sp = torch.as_tensor(np.asarray(S), dtype=torch.int64)
            xyz = run.tens(C).clone()
            chg = ch if isinstance(ch, (int, float)) else torch.as_tensor(np.asarray(ch), dtype=torch.float64)
            with run.quiet():
                mol = Molecule(Constants(), drv["sett"], xyz, sp, chg, 1)  # shares the optimiser's settings dict
        sd.alpha, sd.force_tol, sd.max_evl = alpha, tol, cap
        st["rec"] = []
        st["mol"] = mol
    else:
        sett = _settings(case)
        with run.quiet():
            mol, _es, sett2 = run.build(S, C, sett, charges=ch, mult=1)
            sd = Geometry_Optimization_SD(sett2, alpha=alpha, force_tol=tol, max_evl=cap)
        st = drv if drv is not None else {}
        st.update({"sd": sd, "sett": sett2, "rec": [], "mol": mol, "nes": 0})
        orig = sd.onestep
        es_forward = sd.esdriver.forward

        def counted_forward(*args, **kwargs):
            st["nes"] = st.get("nes", 0) + 1
            return es_forward(*args, **kwargs)

        sd.esdriver.forward = counted_forward

        def onestep(*args, **kwargs):
            molecule = args[0] if args else kwargs.get("molecule")
            xb = molecule.coordinates.detach().clone().numpy()
            n0 = st.get("nes", 0)
            res = orig(*args, **kwargs)
            f, e = res[0], res[1]
            nc = getattr(sd.esdriver, "notconverged", None)
            dm = getattr(molecule, "dm", None)
            st["rec"].append({"xb": xb, "F": f.detach().clone().numpy(), "E": e.detach().clone().numpy().reshape(-1),
                              "dm": None if dm is None else dm.detach().clone().numpy(),
                              "xa": molecule.coordinates.detach().clone().numpy(), "nes": st.get("nes", 0) - n0,
                              "nc": None if nc is None else np.asarray(nc.detach().clone().numpy(), bool).reshape(-1)})
            return res

        sd.onestep = onestep
    buf = io.StringIO()
    with warnings.catch_warnings():
        warnings.simplefilter("ignore")
        with contextlib.redirect_stdout(buf):
            ret = sd.run(mol)
    return {"rec": st["rec"], "stdout": buf.getvalue(), "ret": (float(ret[0]), float(ret[1])),
            "x_final": mol.coordinates.detach().clone().numpy(), "tol": tol, "cap": cap}


def _judge_basic(count, margin, violate, cells, case, out, S, C0, alpha, tol, cap):
    """update / chain / descent / stop / returned / report / padding clauses of ONE run() record"""
    rec = out["rec"]
    n = len(rec)
    nmol = S.shape[0]
    real = S > 0
    eps_eff, A = _eps_eff(case), _amp(case)
    for i, r in enumerate(rec):
        if not (np.isfinite(r["F"]).all() and np.isfinite(r["E"]).all() and np.isfinite(r["xa"]).all()):
            violate("recorded-force-energy-coordinates-finite", evaluation=i + 1)
            break
    if not all(math.isfinite(x) for x in out["ret"]):
        violate("returned-values-finite", returned=list(out["ret"]))
    # every reported step (one unit of the cap) is exactly one true energy/force evaluation
    nes = [r.get("nes") for r in rec]
    if all(x is not None for x in nes):
        count("true_evaluations_counted", sum(nes))
        if any(x != 1 for x in nes):
            violate("every-reported-step-is-one-true-evaluation", evaluations_per_step=nes[:45])
    # ---- update rule, chain --------------------------------------------------------------------------
    xmax = max(1.0, float(np.abs(C0[real]).max()))
    for i, r in enumerate(rec):
        err = float(np.abs(r["xa"] - r["xb"] - alpha * r["F"]).max())
        if margin("update_rule_roundoff", err, 8 * EPS * max(xmax, float(np.abs(r["xa"][real]).max()))):
            d = r["xa"] - r["xb"]
            violate("update-is-plus-alpha-times-force", evaluation=i + 1, max_error=err,
                    corr_with_plus_alphaF=float(np.sum(d * r["F"])), max_step=float(np.abs(d).max()),
                    max_alphaF=float(np.abs(alpha * r["F"]).max()))
            break
    if not np.array_equal(rec[0]["xb"], C0):
        violate("first-evaluation-at-start-geometry", maxdiff=float(np.abs(rec[0]["xb"] - C0).max()))
    for i in range(1, n):
        if not np.array_equal(rec[i]["xb"].view(np.int64), rec[i - 1]["xa"].view(np.int64)):
            violate("coordinates-only-moved-by-the-update", evaluation=i + 1,
                    maxdiff=float(np.abs(rec[i]["xb"] - rec[i - 1]["xa"]).max()))
            break
    if not np.array_equal(out["x_final"].view(np.int64), rec[-1]["xa"].view(np.int64)):
        violate("final-coordinates-are-last-update", maxdiff=float(np.abs(out["x_final"] - rec[-1]["xa"]).max()))
    # ---- descent ------------------------------------------------------------------------------------------
    E = np.array([r["E"] for r in rec])  # [n, nmol]
    if alpha <= ALPHA_DESCENT and n >= 2:
        rise = (E[1:] - E[:-1]).max()
        count("descent_steps_checked", (n - 1) * nmol)
        margin("energy_rise_over_10eps", max(float(rise), 0.0), 10 * eps_eff * A + 1e-300)
        if not (rise <= 10 * eps_eff * A):
            i, k = np.unravel_index(np.argmax(E[1:] - E[:-1]), (n - 1, nmol))
            violate("energy-never-rises-for-small-alpha", evaluation=int(i) + 2, molecule=int(k), rise=float(rise),
                    E_prev=float(E[i, k]), E_new=float(E[i + 1, k]))
    elif n >= 2:
        count("descent_not_asserted_large_alpha")
        if (E[1:] - E[:-1]).max() > 10 * eps_eff * A:
            count("energy_rose_at_large_alpha_recorded")
    # ---- stop rule ------------------------------------------------------------------------------------------
    m = np.array([float(np.abs(r["F"]).max()) for r in rec])
    met = m <= tol
    first = int(np.argmax(met)) + 1 if met.any() else None
    expected_n = min(first, cap) if first is not None else cap
    if n != expected_n:
        violate("stops-at-first-criterion-or-cap", evaluations=n, expected=expected_n, cap=cap, tol=tol,
                max_force_per_evaluation=m.tolist()[:45])
    if met.any() and min(abs(m[first - 1] - tol), *(abs(m[:first - 1] - tol).tolist() or [1e9])) < 1e-9 * tol:
        count("stop_decision_within_1e-9_of_tolerance")
    tie = bool(n == cap and met[-1] and not met[:-1].any())
    by_criterion = bool(met[-1] and n < cap)
    by_cap = bool(n == cap and not met[-1])
    count("runs_stopped_by_criterion", by_criterion)
    count("runs_stopped_by_cap", by_cap)
    count("runs_tie_criterion_on_cap_evaluation", tie)
    cells.add("stop/%s" % ("criterion" if by_criterion else ("cap" if by_cap else ("tie" if tie else "other"))))
    # ---- returned values --------------------------------------------------------------------------------------
    rF, rE = out["ret"]
    if margin("returned_max_force", abs(rF - m[-1]), 4 * EPS * max(m[-1], 1e-300)):
        violate("returned-max-force-is-last-evaluation", returned=rF, last=float(m[-1]),
                previous=None if n < 2 else float(m[-2]))
    if n >= 2:
        want = float((E[-1] - E[-2]).sum() / nmol)
        if margin("returned_dE", abs(rE - want), 64 * EPS * float(np.abs(E[-1]).max()) + 1e-300):
            violate("returned-dE-is-last-evaluation", returned=rE, expected=want)
    else:
        count("single_evaluation_dE_not_judged")
    # ---- textual report -------------------------------------------------------------------------------------------
    text = out["stdout"]
    says_conv = re.search(r"^converged with", text, re.M) is not None
    says_not = re.search(r"^not converged within", text, re.M) is not None
    if not tie:
        if by_criterion and not (says_conv and not says_not):
            violate("report-says-converged-iff-criterion-before-cap", criterion_met=True, evaluations=n, cap=cap,
                    tail=text[-200:])
        if by_cap and not (says_not and not says_conv):
            violate("report-says-converged-iff-criterion-before-cap", criterion_met=False, evaluations=n, cap=cap,
                    tail=text[-200:])
    mm = re.search(r"converged with (\d+) step, Max Force = ([-+0-9.eE]+) \(eV/Ang\), dE = ([-+0-9.eE]+)", text)
    if mm and says_conv and not says_not:
        if int(mm.group(1)) != n or abs(float(mm.group(2)) - m[-1]) > 1e-6 * max(m[-1], 1e-30):
            violate("report-numbers-match-record", reported_steps=int(mm.group(1)), evaluations=n,
                    reported_force=float(mm.group(2)), last_force=float(m[-1]))
    lines = [ln for ln in text.splitlines() if _LINE.match(ln.strip())]
    count("log_lines_parsed", len(lines))
    if len(lines) != n:
        violate("one-log-line-per-evaluation", lines=len(lines), evaluations=n)
    else:
        for i, ln in enumerate(lines):
            g_ = _LINE.match(ln.strip())
            vals = [float(x) for x in re.findall(r"[-+]?\d\.\d+e[-+]\d+", g_.group(3))]
            ok = int(g_.group(1)) == i + 1 and abs(float(g_.group(2)) - m[i]) <= 2e-6 * max(m[i], 1e-30) and len(vals) == 2 * nmol
            if ok:
                for k in range(nmol):
                    prev = 0.0 if i == 0 else E[i - 1, k]
                    ok = ok and abs(vals[2 * k] - E[i, k]) <= 2e-6 * abs(E[i, k]) \
                        and abs(vals[2 * k + 1] - (E[i, k] - prev)) <= 2e-6 * abs(E[i, k] - prev) + 1e-12
            if not ok:
                violate("log-line-reproduces-record", line=ln[:160], evaluation=i + 1, max_force=float(m[i]), E=E[i].tolist())
                break
    # ---- padding -----------------------------------------------------------------------------------------------------
    npad = int((~real).sum())
    if npad:
        count("padding_atoms_checked", npad)
        if not np.array_equal(out["x_final"][~real].view(np.int64), C0[~real].view(np.int64)):
            violate("padding-coordinates-bitwise-unchanged", max_shift=float(np.abs(out["x_final"][~real] - C0[~real]).max()),
                    pad_value=case.get("pad_value"))
        for r in rec:
            if not np.array_equal(r["xa"][~real].view(np.int64), C0[~real].view(np.int64)):
                violate("padding-coordinates-bitwise-unchanged", during_run=True,
                        max_shift=float(np.abs(r["xa"][~real] - C0[~real]).max()))
                break
    return {"n": n, "m": m, "E": E, "by_criterion": by_criterion, "by_cap": by_cap, "tie": tie, "rF": rF, "rE": rE,
            "text": text}


def _fresh_force(count, margin, violate, cells, case, S, ch, rec, idx):
    """recorded (F, E) of the evaluations idx vs independent single points at the recorded coordinates"""
    from vlib import run

    nmol = S.shape[0]
    real = S > 0
    eps_eff, A = _eps_eff(case), _amp(case)
    # ---- independent single points at recorded x_i ------------------------------------------------------
    # C04's force bound is 2e3 eps_eff A; here the SCF is restarted from the density of the previous geometry at every
    # evaluation (fixed mixing measured at 0.24 of that bound), so 5x that allowance keeps the margin >= 5x while a stale
    # or sign-flipped force is >= 1e-3 eV/A
    tolF = 1e4 * (eps_eff + EPS_REF) * A + 1e-9
    if case.get("dispersion"):
        # back-propagated vs analytical force of the same energy (measured 2e-8 eV/A on the methane dimer; the dispersion
        # force itself is 1e-3..1e-2 eV/A there)
        tolF = max(tolF, TOL_F_CROSS)
        cells.add("dispersion/AM1-FS1/independent-force-by-%s" % _ind_grad(case))
    tolE = 100 * (eps_eff + EPS_REF) * A + 1e-9  # C04's 20 eps_eff A, same x5 allowance (SP2 at its 1e-7 floor: 6.7 eps_eff seen)
    # The independent evaluation is a cold start, so it may land on ANOTHER self-consistent solution than the warm-started
    # run (seen: MNDO PH3, cold Pulay converges, flagged converged, to a state 37 eV above the one every other solver and
    # the optimiser find).  That is C03/C04 territory, not a stale force: a row passes when the recorded (E, F) equal those
    # of SOME cold-started solver at the recorded x_i; the alternates are only run for rows the first one does not match.
    # Last resort (seen: AM1 H2S, the run's own first cold Pulay lands on a state 14 eV above the ground SCF solution
    # and the optimiser then follows it by density reuse, so NO cold start reproduces it): a fresh Molecule + driver at
    # x_i started from the density the run had at that evaluation.  Still a single point at the recorded geometry,
    # outside the optimiser: a stale / sign-flipped / wrong-geometry force cannot match it.
    def cold_solvers(i):
        yield "pulay", run.settings(case["method"], eps=EPS_REF, converger=(2,), grad=_ind_grad(case), extra=_X(case)), None
        yield "adaptive", run.settings(case["method"], eps=EPS_REF, converger=(1,), grad=_ind_grad(case), extra=_X(case)), None
        yield "mix0.3", run.settings(case["method"], eps=EPS_REF, converger=(0, 0.3), grad=_ind_grad(case), extra=_X(case)), None
        if rec[i].get("dm") is not None:
            warm = _settings(dict(case, grad=_ind_grad(case)))  # the run's own solver (another may leave the run's state)
            warm["scf_eps"] = EPS_REF
            yield "warm-from-recorded-density", warm, rec[i]["dm"]

    for i in idx:
        best = [(float("inf"), float("inf"), None)] * nmol
        ran = 0
        for sname, sett, P0 in cold_solvers(i):
            if all(bf <= tolF and be <= tolE for bf, be, _ in best):
                break
            sp = run.single_point(S, rec[i]["xb"], sett, charges=ch, mult=1, P0=P0)
            ran += 1
            ncv = sp["notconverged"]
            for k in range(nmol):
                if ncv is not None and bool(np.asarray(ncv).reshape(-1)[k]):
                    continue
                dFk = float(np.abs(sp["force"][k] - rec[i]["F"][k])[real[k]].max())
                dEk = float(abs(sp["Etot"].reshape(-1)[k] - rec[i]["E"][k]))
                if max(dFk / tolF, dEk / tolE) < max(best[k][0] / tolF, best[k][1] / tolE):
                    best[k] = (dFk, dEk, sname)
        if ran > 1:
            count("independent_alternate_cold_solver_runs", ran - 1)
        if any(bs is None for _, _, bs in best):
            count("independent_single_point_not_converged")
            continue
        count("independent_single_points")
        if any(bs != "pulay" for _, _, bs in best):
            count("cold_pulay_found_another_scf_solution")
        if any(bs == "warm-from-recorded-density" for _, _, bs in best):
            count("run_follows_a_solution_no_cold_start_finds")
        dF = max(bf for bf, _, _ in best)
        dE = max(be for _, be, _ in best)
        if margin("force_vs_independent_single_point", dF, tolF):
            violate("force-is-that-of-the-recorded-geometry", evaluation=i + 1, max_diff=dF, bound=tolF,
                    max_force=float(np.abs(rec[i]["F"]).max()), matched_solver=[bs for _, _, bs in best],
                    vs_previous_geometry=None if i == 0 else float(np.abs(
                        run.single_point(S, rec[i - 1]["xb"], _settings(case, cold=True), charges=ch, mult=1)["force"] - rec[i]["F"])[real].max()))
        if margin("energy_vs_independent_single_point", dE, tolE):
            violate("energy-is-that-of-the-recorded-geometry", evaluation=i + 1, max_diff=dE, bound=tolE,
                    matched_solver=[bs for _, _, bs in best])


def _run_reuse(case):
    """driver reuse: ONE Geometry_Optimization_SD object, several run() calls on fresh Molecules with different
    tolerances / caps; every run is judged with the per-run clauses (nothing of an earlier run may leak into the
    stop decision, the returned values or the textual report of a later one)."""
    from vlib import run

    viol, margins, mon, cells = [], {}, {}, set()
    tag = {"run": 0}

    def count(k, n=1):
        mon[k] = mon.get(k, 0) + int(n)

    def margin(name, val, bound):
        return _margin(margins, name, val, bound)

    def violate(clause, **detail):
        if len(viol) < 12:
            detail.update({"mols": case["mols"], "alpha": case["alpha"], "run_index": tag["run"],
                           "earlier_runs_stopped": list(history), "same_optimiser_object": True})
            viol.append({"clause": clause, "mech": None, "detail": detail})

    alpha = float(case["alpha"])
    drv = {}
    history = []
    obs_runs = []
    for j, rn in enumerate(case["runs"]):
        tag["run"] = j
        sub = dict(case)
        sub["geom_seed"] = int(rn["geom_seed"])
        S, C0, charges, mults = _batch(sub)
        ch = charges if len(set(charges)) > 1 else charges[0]
        sp0 = run.single_point(S, C0, _settings(case, cold=True), charges=ch, mult=1)
        if sp0["notconverged"] is not None and bool(np.any(sp0["notconverged"])):
            return {"ineligible": "start geometry not SCF-converged", "monitors": mon}
        m1 = float(np.abs(sp0["force"]).max())
        kind, val = rn["stop"]
        tol = {"ratio": val * m1, "cap": 1e-6, "abs": val}[kind]
        cap = int(rn["cap"])
        out = _sd_run(case, S, C0, charges, mults, alpha, tol, cap, drv=drv)
        count("onestep_calls", len(out["rec"]))
        count("sd_runs")
        if not out["rec"]:
            return {"inconclusive": "onestep wrapper saw no call", "monitors": mon}
        if any(r["nc"] is not None and r["nc"].any() for r in out["rec"]):
            return {"ineligible": "an SCF inside the optimisation was flagged not converged", "monitors": mon}
        jb = _judge_basic(count, margin, violate, cells, case, out, S, C0, alpha, tol, cap)
        how = "criterion" if jb["by_criterion"] else ("cap" if jb["by_cap"] else "tie")
        count("reuse_runs_judged")
        if how == "cap" and "criterion" in history:
            count("reuse_cap_run_after_converged_run")
        if how == "criterion" and "cap" in history:
            count("reuse_converged_run_after_cap_run")
        history.append(how)
        obs_runs.append({"stopped": how, "evaluations": jb["n"], "cap": cap, "tol": tol, "last_max_force": float(jb["m"][-1]),
                         "report_tail": jb["text"].strip().splitlines()[-1][:100] if jb["text"].strip() else ""})
    cells.add("reuse/" + ">".join(history))
    cells.add("solver/%s/%s/%s" % (case["method"], case["solver"], case["grad"]))
    return {"nontrivial": len(history) >= 2, "violations": viol, "margins": margins, "monitors": mon,
            "cells": sorted(cells), "obs": {"runs": obs_runs}}


def _run_continue(case):
    """continuation / reuse of a Molecule that already carries force and Etot:
      split        run(cap N) then run(cap M) [then run(cap L)] on the SAME molecule + optimiser  ==  one uninterrupted
                   run(cap N+M[+L]) on fresh objects: same positions after every reported step, cap = number of true
                   energy/force evaluations in every leg
      sp-distort   single point with the optimiser's own driver, in-place distortion of molecule.coordinates, then run
    in both, the force / energy reported at the FIRST step of a run on such a molecule (and at its last step) must be
    those of an independent single point at the reported coordinates, and every leg obeys the per-run clauses."""
    import torch
    from vlib import run

    viol, margins, mon, cells = [], {}, {}, set()
    tag = {"leg": 0}

    def count(k, n=1):
        mon[k] = mon.get(k, 0) + int(n)

    def margin(name, val, bound):
        return _margin(margins, name, val, bound)

    def violate(clause, **detail):
        if len(viol) < 12:
            detail.update({"mols": case["mols"], "alpha": case["alpha"], "mode": case["mode"], "leg": tag["leg"],
                           "legs": case["legs"]})
            viol.append({"clause": clause, "mech": None, "detail": detail})

    S, C0, charges, mults = _batch(case)
    nmol = S.shape[0]
    real = S > 0
    ch = charges if len(set(charges)) > 1 else charges[0]
    alpha = float(case["alpha"])
    tol = 1e-12  # never met: every leg ends at its cap
    legs = [int(x) for x in case["legs"]]
    cells.add("continue/%s/legs%d" % (case["mode"], len(legs)))
    cells.add("solver/%s/%s/%s" % (case["method"], case["solver"], case["grad"]))
    drv = {}
    obs = {"legs": []}
    if case["mode"] == "split":
        ref = _sd_run(case, S, C0, charges, mults, alpha, tol, sum(legs))
        count("onestep_calls", len(ref["rec"]))
        if any(r["nc"] is not None and r["nc"].any() for r in ref["rec"]):
            return {"ineligible": "an SCF inside the optimisation was flagged not converged", "monitors": mon}
        path = []
        x_start = C0
        for j, cap in enumerate(legs):
            tag["leg"] = j
            out = _sd_run(case, S, x_start, charges, mults, alpha, tol, cap, drv=drv, reuse_mol=(j > 0))
            count("onestep_calls", len(out["rec"]))
            count("sd_runs")
            if not out["rec"]:
                return {"inconclusive": "onestep wrapper saw no call", "monitors": mon}
            if any(r["nc"] is not None and r["nc"].any() for r in out["rec"]):
                return {"ineligible": "an SCF inside the optimisation was flagged not converged", "monitors": mon}
            _judge_basic(count, margin, violate, cells, case, out, S, x_start, alpha, tol, cap)
            if j > 0:
                count("continuation_second_run_first_steps_checked")
            _fresh_force(count, margin, violate, cells, case, S, ch, out["rec"], sorted({0, len(out["rec"]) - 1}))
            path += out["rec"]
            x_start = out["x_final"]
            obs["legs"].append({"cap": cap, "reported_steps": len(out["rec"]), "true_evaluations": sum(r["nes"] for r in out["rec"]),
                                "first_max_force": float(np.abs(out["rec"][0]["F"]).max())})
        tag["leg"] = -1
        if len(path) != len(ref["rec"]):
            violate("continued-run-equals-uninterrupted-run", steps_split=len(path), steps_uninterrupted=len(ref["rec"]))
        pre = min(len(path), len(ref["rec"]))
        d = max(float(np.abs(path[i]["xa"] - ref["rec"][i]["xa"])[real].max()) for i in range(pre))
        count("continuation_steps_compared", pre)
        if margin("continued_vs_uninterrupted_path", d, 1e-10):
            i_bad = next(i for i in range(pre) if not (float(np.abs(path[i]["xa"] - ref["rec"][i]["xa"])[real].max()) <= 1e-10))
            violate("continued-run-equals-uninterrupted-run", max_diff_A=d, first_differing_step=i_bad + 1,
                    max_force_split=float(np.abs(path[i_bad]["F"]).max()), max_force_uninterrupted=float(np.abs(ref["rec"][i_bad]["F"]).max()))
        obs["max_path_diff_A"] = d
    else:
        # single point first (driver of a throw-away run of one step gives us optimiser + molecule + wrappers)
        out0 = _sd_run(case, S, C0, charges, mults, alpha, tol, 1, drv=drv)
        count("onestep_calls", len(out0["rec"]))
        mol = drv["mol"]
        g = np.random.default_rng(case["geom_seed"] + 7)
        delta = g.normal(0, 0.04, C0.shape) * real[..., None]
        with torch.no_grad():
            mol.coordinates.copy_(run.tens(C0 + delta))  # in-place: force / Etot / dm of the old geometry stay on the molecule
        x_start = mol.coordinates.detach().clone().numpy()
        tag["leg"] = 1
        out = _sd_run(case, S, x_start, charges, mults, alpha, tol, legs[0], drv=drv, reuse_mol=True)
        count("onestep_calls", len(out["rec"]))
        count("sd_runs")
        if not out["rec"]:
            return {"inconclusive": "onestep wrapper saw no call", "monitors": mon}
        if any(r["nc"] is not None and r["nc"].any() for r in out["rec"]):
            return {"ineligible": "an SCF inside the optimisation was flagged not converged", "monitors": mon}
        _judge_basic(count, margin, violate, cells, case, out, S, x_start, alpha, tol, legs[0])
        count("continuation_second_run_first_steps_checked")
        _fresh_force(count, margin, violate, cells, case, S, ch, out["rec"], sorted({0, len(out["rec"]) - 1}))
        obs["legs"].append({"cap": legs[0], "reported_steps": len(out["rec"]), "true_evaluations": sum(r["nes"] for r in out["rec"])})
    return {"nontrivial": True, "violations": viol, "margins": margins, "monitors": mon, "cells": sorted(cells), "obs": obs}


def run_case(case):
    from vlib import run

    if case.get("kind") == "reuse":
        return _run_reuse(case)
    if case.get("kind") == "continue":
        return _run_continue(case)

    viol, margins, mon, cells = [], {}, {}, set()

    def count(k, n=1):
        mon[k] = mon.get(k, 0) + int(n)

    def margin(name, val, bound):
        return _margin(margins, name, val, bound)

    def violate(clause, **detail):
        if len(viol) < 12:
            detail.update({"mols": case["mols"], "alpha": case["alpha"]})
            viol.append({"clause": clause, "mech": None, "detail": detail})

    S, C0, charges, mults = _batch(case)
    nmol = S.shape[0]
    real = S > 0
    alpha, cap = float(case["alpha"]), int(case["cap"])
    ch = charges if len(set(charges)) > 1 else charges[0]
    # tolerance from an independent evaluation of the start geometry
    sp0 = run.single_point(S, C0, _settings(case, cold=True), charges=ch, mult=1)
    if sp0["notconverged"] is not None and bool(np.any(sp0["notconverged"])):
        return {"ineligible": "start geometry not SCF-converged"}
    m1 = float(np.abs(sp0["force"]).max())
    kind, val = case["stop"]
    tol = {"ratio": val * m1, "cap": 1e-6, "abs": val}[kind]
    out = _sd_run(case, S, C0, charges, mults, alpha, tol, cap)
    rec = out["rec"]
    n = len(rec)
    count("onestep_calls", n)
    count("sd_runs")
    if n == 0:
        return {"inconclusive": "onestep wrapper saw no call"}
    if any(r["nc"] is not None and r["nc"].any() for r in rec):
        return {"ineligible": "an SCF inside the optimisation was flagged not converged", "monitors": mon}
    eps_eff, A = _eps_eff(case), _amp(case)
    if case.get("dispersion"):
        count("dispersion_runs")
    solver_cell = "%s/%s/%s" % (case["method"], case["solver"], case["grad"])
    cells.add("solver/" + solver_cell)
    cells.add("alpha/%g" % alpha)
    cells.add("layout/nmol%d/pad%s" % (nmol, "yes" if (~real).any() else "no"))
    jb = _judge_basic(count, margin, violate, cells, case, out, S, C0, alpha, tol, cap)
    if tol < 10.0 * float(case["eps"]):
        count("runs_with_force_tol_below_10_scf_eps")
        cells.add("tolerance/force_tol-%g/scf_eps-%g" % (tol, case["eps"]))
        if bool((jb["m"] < 10.0 * float(case["eps"])).any()):
            count("runs_with_force_tol_below_10_scf_eps_that_reached_it")
    m, E, by_criterion, by_cap, tie, rF, rE, text = (jb[k] for k in ("m", "E", "by_criterion", "by_cap", "tie", "rF", "rE", "text"))
    # ---- independent single points at recorded x_i ------------------------------------------------------
    idx = list(range(n)) if n <= 8 else sorted(set([0, 1, 2, n - 3, n - 2, n - 1] + [int(i) for i in np.random.default_rng(case["geom_seed"] + 1).choice(n, 3, replace=False)]))
    _fresh_force(count, margin, violate, cells, case, S, ch, rec, idx)
    # ---- row alone vs in batch --------------------------------------------------------------------------------------------
    if nmol > 1:
        for k in range(nmol):
            nk = int(real[k].sum())
            Sk, Ck = S[k:k + 1, :nk], C0[k:k + 1, :nk]
            alone = _sd_run(case, Sk, Ck, [charges[k]], [mults[k]], alpha, tol, cap)
            count("onestep_calls", len(alone["rec"]))
            if any(r["nc"] is not None and r["nc"].any() for r in alone["rec"]):
                count("alone_run_not_converged")
                continue
            pre = min(n, len(alone["rec"]))
            # x -> x + alpha F(x) amplifies any difference by |1 - alpha lambda| per evaluation; for alpha <= 2e-3 that is
            # <= 1 for every bond type of the library (the descent precondition), so the layout-dependent rounding of the
            # forces (1e-9 eV/A) stays at n alpha 1e-9.  Beyond it the map can be expansive (seen: alpha = 2e-2, C2H4, 40
            # evaluations, 5e-5 A), so only the first 3 evaluations are judged there and the rest is recorded.
            full = pre
            if alpha > ALPHA_DESCENT:
                pre = min(pre, 3)
                dfull = max(float(np.abs(alone["rec"][i]["xa"][0] - rec[i]["xa"][k, :nk]).max()) for i in range(full))
                if dfull > TOL_PATH:
                    count("alone_vs_batch_amplified_at_large_alpha_recorded")
            count("alone_vs_batch_rows")
            count("alone_vs_batch_prefix_evaluations", pre)
            d = max(float(np.abs(alone["rec"][i]["xa"][0] - rec[i]["xa"][k, :nk]).max()) for i in range(pre))
            # mechanism classifier: at the first evaluation the geometry is bitwise the same and both SCFs start cold; if the
            # energies already differ there the two runs sit on different self-consistent solutions (the SCF driver's
            # answer for this molecule depends on its batch mates) and the optimiser merely follows them
            dE1 = abs(float(alone["rec"][0]["E"][0]) - float(rec[0]["E"][k]))
            # (the listed finding is Pulay's cold start reaching ANOTHER stationary point: eV-sized gap, Pulay solver, no SP2;
            #  anything else - small energy offsets, SP2, fixed / adaptive mixing - is not that mechanism)
            mech = MECH_SCF if (case["solver"] == "pulay" and dE1 > 1e-3 and math.isfinite(dE1)) else None
            # energies along the judged prefix: same molecule, same algorithm, only the batch layout differs
            dEk = max(abs(float(alone["rec"][i]["E"][0]) - float(rec[i]["E"][k])) for i in range(pre))
            tolEiso = 100.0 * float(case["eps"]) * _amp(case) + 1e-9
            if case["solver"] in ("sp2", "sp2mix") and len(set(case["mols"])) > 1:
                count("sp2_heterogeneous_batch_steps_compared_with_alone", pre)
                cells.add("sp2-batch/%s/sp2-%g" % (case["solver"], float(case["solver_par"])))
            if mech is None and margin("alone_vs_batch_energy", dEk, tolEiso):
                i_bad = next(i for i in range(pre) if not (abs(float(alone["rec"][i]["E"][0]) - float(rec[i]["E"][k])) <= tolEiso))
                viol.append({"clause": "energy-independent-of-batch-mates", "mech": None,
                             "detail": {"molecule": int(k), "name": case["mols"][k], "max_diff_eV": dEk, "bound": tolEiso,
                                        "first_differing_evaluation": i_bad + 1, "prefix": pre, "mols": case["mols"], "alpha": alpha,
                                        "solver": case["solver"], "solver_par": case["solver_par"], "method": case["method"],
                                        "scf_eps": case["eps"], "E_alone": float(alone["rec"][i_bad]["E"][0]),
                                        "E_in_batch": float(rec[i_bad]["E"][k])}})
            if mech is None and margin("alone_vs_batch_path", d, TOL_PATH) or mech is not None and d > TOL_PATH:
                count("alone_vs_batch_scf_solution_differs", mech is not None)
                viol.append({"clause": "path-independent-of-batch-mates", "mech": mech,
                             "detail": {"molecule": int(k), "name": case["mols"][k], "max_diff_A": d, "prefix": pre,
                                        "E_first_evaluation_alone": float(alone["rec"][0]["E"][0]),
                                        "E_first_evaluation_in_batch": float(rec[0]["E"][k]), "mols": case["mols"],
                                        "alpha": alpha, "solver": case["solver"], "method": case["method"],
                                        "species": S.tolist(), "start_coordinates": C0.tolist()}})
            # the lone molecule must obey the same stop rule on its own forces
            ma = np.array([float(np.abs(r["F"]).max()) for r in alone["rec"]])
            meta = ma <= tol
            fa = int(np.argmax(meta)) + 1 if meta.any() else None
            if len(alone["rec"]) != (min(fa, cap) if fa is not None else cap):
                violate("stops-at-first-criterion-or-cap", alone=True, molecule=int(k), evaluations=len(alone["rec"]), cap=cap, tol=tol,
                        max_force_per_evaluation=ma.tolist()[:45])
    obs = {"evaluations": n, "cap": cap, "tol": tol, "first_max_force": float(m[0]), "last_max_force": float(m[-1]),
           "stopped": "criterion" if by_criterion else ("cap" if by_cap else "tie"), "returned": [rF, rE],
           "E_first": E[0].tolist(), "E_last": E[-1].tolist(), "report_tail": text.strip().splitlines()[-1][:120] if text.strip() else ""}
    return {"nontrivial": n >= 2, "violations": viol, "margins": margins, "monitors": mon, "cells": sorted(cells), "obs": obs}
