"""C16 -- CIS / RPA excited states are true eigenpairs of the response problem.

Oracle: executable reference model.  After every real `Electronic_Structure` call the dense singlet
CIS matrix A (and the RPA matrix B) is assembled in numpy (vlib/c16_dense.py) from what the call
returned -- orbital energies, MO coefficients, the two-centre NDDO integral blocks `molecule.w`, the
one-centre parameters -- diagonalised with LAPACK, and the returned energies / amplitudes are judged
against it.  The repository's own sigma builder applied to unit vectors is compared with the dense
matrices as a *consistency monitor* (it names the mechanism when the two disagree, it is not the oracle);
the dense integrals themselves are guarded by (ss|ss) = Klopman-Ohno(R) per pair and by
C^T (Hcore + G[P]) C = diag(e_mo) (a failing guard makes the case inconclusive, never a violation).

Solver paths driven: rcis_batch (one molecule, homogeneous batches, orbital windows, supplied start
vectors, amplitude reuse along geometry sequences with and without `make_best_guess`), rcis_any_batch
(mixed batches with padding), rpa (default start, supplied start, reuse of the orthonormalised X amplitudes,
orbital window).

Stopping rule of the code under test (read from rcis_batch.py / rcis_new.py / rpa.py, the documentation only says
"convergence criterion"): a root is converged when  max_ia |(A x - E x)_ia| <= tolerance  (RPA: the larger of the
inf-norms of (A-B)(X-Y) - w(X+Y) and (A+B)(X+Y) - w(X-Y));  a molecule ALSO leaves the loop when every new
correction vector falls below vector_tol (0.01 sqrt(nov) tol, RPA 0.02 tol) -- the "stagnation exit", observed by
wrapping `orthogonalize_to_current_subspace`.

Clauses and bounds (tol = requested tolerance, nov = active singles, m = roots returned)
  ascending            E_{k+1} >= E_k - 1e-12
  positive             E_k > 0 when the dense spectrum says the reference is stable
  eigenvalues          -1e-9 <= E_k - lambda_k <= sqrt(m nov) tol + 1e-9      (index-wise: multiplicity aware, a skipped
                       root shows up as E_k matching lambda_j, j > k);  RPA: |E_k - w_k| <= c_k sqrt(m nov) tol + 1e-9,
                       c_k = 1.25 * [sqrt(w_k / mu_min(A-B)) + sqrt(mu_max(A-B) / w_k)] / 2  from the dense matrices
  orthonormal          |X X^T - 1| <= 1e-8     (RPA: |X X^T - Y Y^T - 1| <= 1e-8)
  residual             inf-norm with the DENSE matrices <= 1.05 tol + 1e-11  (the code's own rule, 5 % allowance)
  eigenvector          ||(1 - P_level) x_k|| <= 3 sqrt(nov) 1.05 tol / gap + 1e-8   (Davis-Kahan, P_level = projector on the
                       dense eigenspace of the level E_k belongs to; degenerate levels handled as subspaces)
  same answer          energies of two runs at one geometry (random start, reuse modes, batch vs alone) agree within the sum
                       of their eigenvalue bounds + 2e-6 (SCF allowance, 1e4 x scf_eps); complete levels are compared through
                       AO-basis transition-density projectors, sin(theta) <= 3 [2 sqrt(m_l nov) 1.05 tol + 2e-6] / gap + 1e-7;
                       skipped (counted) when the two runs sit on different SCF solutions (|dEtot| > 1e-5)
  RPA <= CIS           E_RPA,k - E_CIS,k <= RPA eigenvalue bound + 1e-9

Mechanism keys (deterministic classifiers over the witness)
  davidson-root-skipped-{symmetric,asymmetric}-geometry-{default-guess,amplitude-reuse,random-guess}
        every returned pair is an eigenpair but a lower dense eigenvalue is missing; "symmetric" = the nuclear framework has
        a non-trivial point-group operation (degenerate principal moments or a sign-flip operation in the principal frame)
  davidson-stagnation-exit-residual-above-tol      residual > 1.05 tol after a stagnation exit, within twice the natural
        scale of that rule (vector_tol * max|E - (e_a - e_i)|);   ...-residual-far-above-tol  beyond it
  residual-above-tol-without-stagnation-exit-<start>
  rcis-any-batch-negative-roots-vs-zero-padding    unstable reference inside a mixed batch: zeros returned instead of roots
  rpa-orbital-window-silently-ignored
  sigma-build-differs-from-dense                   the monitor saw the repository's sigma vectors disagree with dense A / B
  <clause>-<solver>-<start>                        everything else
"""
import math

import numpy as np

from vlib import gen

PROPERTY = "C16"
RULE = ("case kinds: point (one geometry; CIS default start + random orthonormal starts, RPA default + random start, "
        "RPA<=CIS), window (CIS and RPA in an orbital window), seq (5-point geometry sequence on ONE Molecule object, amplitude "
        "reuse with make_best_guess / raw reuse / no reuse, each point also solved fresh), hbatch (same species, "
        "different geometries, vs alone), ubatch (3-4 geometries of one molecule, near-equilibrium + strongly distorted + "
        "stretched, n_states 1-3, EVERY batch order, each member vs dense and vs alone), maxiter (user iteration cap 1,2,3,4,6,"
        "default: raise or true eigenpairs), lbatch (same-species batch whose rows carry different per-atom learned "
        "g_ss/g_sp/g_pp/g_p2/h_sp/zeta, both orders, each row vs dense from its own values and vs alone), leps (user "
        "scf_eps 1e-3..1e-5 > 0.1 x tolerance: roots vs the dense spectrum of an independently tight SCF), mreeval (2nd / 3rd "
        "evaluation of ONE Molecule holding a mixed batch with duplicate (nocc, norb) groups after 0.10-0.15 A displacements: "
        "each row vs dense at the new geometry and vs a fresh Molecule), mbatch (different molecules padded into one batch -> rcis_any_batch, vs alone). "
        "Every finished solve is judged against the dense A/B built from its own returned orbitals.  A case is "
        "non-trivial when at least one judged solve had more singles than requested roots and the Davidson loop "
        "needed >= 2 sigma builds; distinct by SHA-1 of the case")
ASSUMPTIONS = [
    "float64 CPU; scf_eps = 1e-10 (<= 0.1 x CIS tolerance, the package's own requirement)",
    "convergence rule read from the code: a root is converged when the inf-norm of A x - E x (RPA: the larger "
    "inf-norm of (A-B)(X-Y) - w(X+Y) and (A+B)(X+Y) - w(X-Y)) is <= tolerance; bounds below are that rule times "
    "the stated allowance",
    "eigenvalue bound: Kahan's residual theorem for m orthonormal Ritz vectors, |E_k - lambda_k| <= ||R||_F <= "
    "sqrt(m nov) tol (+1e-9); for RPA the same through the symmetric reduction, times "
    "1.25 * (sqrt(w/mu_min(A-B)) + sqrt(mu_max(A-B)/w))/2 computed from the dense matrices",
    "positivity is only demanded when the dense matrices say the reference is stable",
    "an exception raised by the solver (iteration cap, unstable reference, unsupported call shape) is a loud outcome, "
    "counted in monitors, never a violation of this property",
]
REQUIRED_MONITORS = ["roots_checked", "rpa_roots_checked", "degenerate_roots_checked", "sigma_crosschecks",
                     "random_start_solves", "reuse_solves", "mixed_batch_mols_judged", "homo_batch_mols_judged",
                     "window_solves", "iterative_solves", "uneven_rpa_batch_orders", "uneven_cis_batch_orders",
                     "max_iter_cap_raised", "max_iter_returned_and_judged", "learned_batch_rows_judged",
                     "loose_user_eps_roots_vs_tight_reference", "reevaluated_duplicate_group_rows_with_mo_reorder"]
CASE_TIMEOUT = 900.0
MIN_NONTRIVIAL = 8
BUDGET_S = {"quick": 200, "thorough": 1700}

SCF_EPS = 1e-10
SCF_ALLOW = 1e-6          # allowance for two SCF solutions of the same geometry reached through different histories (1e4 x eps)
K_LOOSE = 1e3             # roots / Fock self-consistency vs the documented SCF threshold 0.1 x tol: max|dP| <= 15 eps times a
                          # Lipschitz constant of a few tens (eV per unit density) -> 1e3 x eps; observed on main <= 1.5 x eps
ORTHO_TOL = 1e-8
RES_ALLOW = 1.05
RES_ABS = 1e-11
VEC_ALLOW = 3.0           # allowance on the Davis-Kahan eigenvector bounds  sin(theta) <= ||r||_2 / gap
EIG_ABS = 1e-9
GUARD_FOCK = 1e-6
GUARD_SS = 1e-9
SIGMA_TOL = 1e-9
TOLS = [1e-4, 1e-5, 1e-6, 1e-7, 1e-8, 1e-9]
METHODS = ["AM1", "PM3", "MNDO", "PM6_SP"]
SYMMETRIC = ["CH4", "NH3", "C2H4", "BH3", "CO2", "N2", "C2H2", "SiH4", "AlH3", "BF3", "NH4+", "C2H6", "HCN", "BeH2",
             "H3O+", "PH3", "CH3F", "CH3Cl", "N2O", "C6H6", "AlCl3", "PCl3"]
NOV_MAX = 400


# ---------------------------------------------------------------------------------------
# extra molecules: larger (nov 60..400, where the Davidson loop really iterates) and highly symmetric ones
# ---------------------------------------------------------------------------------------
def _ring(Zr, radius, n, phase=0.0, z=0.0):
    return [(Zr, radius * math.cos(2 * math.pi * k / n + phase), radius * math.sin(2 * math.pi * k / n + phase), z)
            for k in range(n)]


def _tetra(Zc, Zl, d):
    a = d / math.sqrt(3)
    out = [(Zl, a, a, a), (Zl, -a, -a, a), (Zl, -a, a, -a), (Zl, a, -a, -a)]
    return ([(Zc, 0, 0, 0)] if Zc else []) + out


def _cyclopropane():
    r = 1.51 / math.sqrt(3)
    out = []
    c, s = math.cos(math.radians(57.0)), math.sin(math.radians(57.0))
    for k in range(3):
        t = 2 * math.pi * k / 3
        ux, uy = math.cos(t), math.sin(t)
        out.append((6, r * ux, r * uy, 0.0))
        for sg in (1, -1):
            out.append((1, r * ux + 1.083 * c * ux, r * uy + 1.083 * c * uy, sg * 1.083 * s))
    return out


def _allene():
    x, dz = 1.087 * math.sin(math.radians(59.0)), 1.087 * math.cos(math.radians(59.0))
    return [(6, 0, 0, 0), (6, 0, 0, 1.308), (6, 0, 0, -1.308), (1, x, 0, 1.308 + dz), (1, -x, 0, 1.308 + dz),
            (1, 0, x, -1.308 - dz), (1, 0, -x, -1.308 - dz)]


def _propane():
    return [(6, 0, 0.5863, 0), (6, 1.2745, -0.2627, 0), (6, -1.2745, -0.2627, 0), (1, 0, 1.2449, 0.8760), (1, 0, 1.2449, -0.8760),
            (1, 2.1762, 0.3586, 0), (1, 1.3011, -0.9074, 0.8827), (1, 1.3011, -0.9074, -0.8827),
            (1, -2.1762, 0.3586, 0), (1, -1.3011, -0.9074, 0.8827), (1, -1.3011, -0.9074, -0.8827)]


def _butadiene():
    def rot(v, deg):
        c, s = math.cos(math.radians(deg)), math.sin(math.radians(deg))
        return (v[0] * c - v[1] * s, v[0] * s + v[1] * c)
    c2 = (-0.73, 0.0)
    d21 = (-math.cos(math.radians(56.0)), math.sin(math.radians(56.0)))
    c1 = (c2[0] + 1.34 * d21[0], c2[1] + 1.34 * d21[1])
    b = (d21[0] + 1.0, d21[1])
    nb = math.hypot(*b)
    h2 = (c2[0] - 1.09 * b[0] / nb, c2[1] - 1.09 * b[1] / nb)
    u = (-d21[0], -d21[1])
    ha, hb = rot(u, 120.0), rot(u, -120.0)
    h1a = (c1[0] + 1.09 * ha[0], c1[1] + 1.09 * ha[1])
    h1b = (c1[0] + 1.09 * hb[0], c1[1] + 1.09 * hb[1])
    half = [(6, c1), (6, c2), (1, h2), (1, h1a), (1, h1b)]
    return [(z, p[0], p[1], 0.0) for z, p in half] + [(z, -p[0], -p[1], 0.0) for z, p in half]


def _neopentane():
    dirs = [np.array(v, float) / math.sqrt(3) for v in ((1, 1, 1), (-1, -1, 1), (-1, 1, -1), (1, -1, -1))]
    out = [(6, 0.0, 0.0, 0.0)]
    hs = []
    for i, d in enumerate(dirs):
        cm = 1.54 * d
        out.append((6,) + tuple(cm))
        for j, e in enumerate(dirs):
            if j == i:
                continue
            u = -(e - (e @ d) * d)
            u /= np.linalg.norm(u)
            h = cm + 1.09 * (d / 3.0 + (2 * math.sqrt(2) / 3.0) * u)
            hs.append((1,) + tuple(h))
    return out + hs


def _cubane():
    a, b = 1.57 / 2, 1.57 / 2 + 1.09 / math.sqrt(3)
    sg = [(x, y, z) for x in (1, -1) for y in (1, -1) for z in (1, -1)]
    return [(6, a * x, a * y, a * z) for x, y, z in sg] + [(1, b * x, b * y, b * z) for x, y, z in sg]


_EXTRA = {
    "C3H6c": (_cyclopropane, 0),
    "C3H4": (_allene, 0),
    "C3H8": (_propane, 0),
    "C4H6": (_butadiene, 0),
    "C5H12": (_neopentane, 0),
    "C8H8": (_cubane, 0),
    "C3N3H3": (lambda: _ring(6, 1.29, 3) + _ring(7, 1.38, 3, math.pi / 3) + _ring(1, 2.37, 3), 0),
    "B3N3H6": (lambda: _ring(5, 1.46, 3) + _ring(7, 1.40, 3, math.pi / 3) + _ring(1, 2.66, 3) + _ring(1, 2.41, 3, math.pi / 3), 0),
    "P4": (lambda: _tetra(0, 15, 2.21 * math.sqrt(3) / (2 * math.sqrt(2))), 0),
    "CCl4": (lambda: _tetra(6, 17, 1.77), 0),
    "CF4": (lambda: _tetra(6, 9, 1.32), 0),
    "C5H5-": (lambda: _ring(6, 1.1994, 5) + _ring(1, 2.2794, 5), -1),
    "C7H7+": (lambda: _ring(6, 1.6133, 7) + _ring(1, 2.6933, 7), 1),
}
EXTRA_SYM = ["C3H6c", "C3H4", "C4H6", "C5H12", "C8H8", "C3N3H3", "B3N3H6", "P4", "CCl4", "CF4", "C5H5-", "C7H7+"]


def molecule(name):
    if name in _EXTRA:
        fn, q = _EXTRA[name]
        atoms = sorted(fn(), key=lambda a: -a[0])
        return [int(a[0]) for a in atoms], np.array([[float(a[1]), float(a[2]), float(a[3])] for a in atoms]), q, 1
    return gen.molecule(name)


def available(name, method):
    return all(z in gen.ELEMENTS[method] for z in molecule(name)[0])


# ---------------------------------------------------------------------------------------
# case generation (parent process: numpy only)
# ---------------------------------------------------------------------------------------
def _dims(name):
    Z, X, q, m = molecule(name)
    nel = sum(gen.VALENCE[z] for z in Z) - q
    nocc = nel // 2
    norb = sum(4 if z > 1 else 1 for z in Z)
    return nocc, norb - nocc


def _pool():
    out = []
    for n in gen.CLOSED_NEUTRAL + gen.IONS + list(_EXTRA):
        no, nv = _dims(n)
        if 1 <= no * nv <= NOV_MAX and no >= 1 and nv >= 1:
            out.append(n)
    return out


def _methods_for(name):
    return [m for m in METHODS if available(name, m)]


def _pick(g, seq):
    return seq[int(g.integers(0, len(seq)))]


def _geom_spec(g, name, sym):
    if sym:
        return {"mol": name, "mode": "sym", "seed": int(g.integers(0, 2**31)), "rot": _pick(g, ["haar", "haar", "none"])}
    return {"mol": name, "mode": "distort", "seed": int(g.integers(0, 2**31)), "sigma": float(_pick(g, [0.02, 0.05, 0.1])),
            "rot": "haar"}


def _nstates(g, nov, cap=12):
    hi = min(nov, cap)
    r = g.random()
    if r < 0.15:
        return hi
    if r < 0.30:
        return 1
    return int(g.integers(1, hi + 1))


def gen_cases(tier, seed):
    g = gen.rng("C16", tier)
    pool = _pool()
    big = [n for n in pool if _dims(n)[0] * _dims(n)[1] >= 60]
    sym = [n for n in SYMMETRIC + EXTRA_SYM if n in pool]
    if tier == "quick":
        n_point, n_window, n_seq, n_hb, n_mb, n_ub, n_mi, n_lp = 20, 10, 12, 8, 8, 8, 4, 6
        nstart = 2
        # quick tier: no single case above ~40 s -- cubane (nov 400) only in the thorough tier, sequences on nov <= 100
        pool = [n for n in pool if _dims(n)[0] * _dims(n)[1] <= 310]
        big = [n for n in big if n in pool]
        sym = [n for n in sym if n in pool]
    else:
        n_point, n_window, n_seq, n_hb, n_mb, n_ub, n_mi, n_lp = 420, 160, 170, 110, 110, 140, 70, 100
        nstart = 3
    cases = []

    def choose_mol(i, n):
        # first the five named symmetric molecules (undistorted), then alternate symmetric / distorted / larger
        named = ["CH4", "NH3", "C2H4", "BH3", "CO2"]
        if i < len(named):
            return named[i], True
        r = i % 3
        if r == 0:
            return _pick(g, sym), True
        if r == 1:
            return _pick(g, big), False
        return _pick(g, pool), False

    # ---- sequences first (most expensive)
    seq_modes = ["reuse-best-guess", "reuse-raw"] if tier == "quick" else ["reuse-best-guess", "reuse-raw", "no-reuse"]
    for i in range(n_seq):
        name, is_sym = choose_mol(i, n_seq)
        for _ in range(40):
            if tier != "quick" or _dims(name)[0] * _dims(name)[1] <= 100:
                break
            name, is_sym = choose_mol(5 + int(g.integers(0, 3000)), n_seq)
        no, nv = _dims(name)
        method = _pick(g, _methods_for(name))
        xm = "rpa" if i % 4 == 3 else "cis"
        if is_sym:
            path = {"mode": _pick(g, ["scale", "axis", "axis"]), "f0": float(_pick(g, [0.90, 0.94, 0.97])),
                    "f1": float(_pick(g, [1.06, 1.12, 1.20])), "axis": int(g.integers(0, 3)), "rot": _pick(g, ["haar", "none"]),
                    "seed": int(g.integers(0, 2**31))}
        else:
            path = {"mode": "walk", "sigma0": 0.05, "step": float(_pick(g, [0.01, 0.03, 0.06])), "rot": "haar",
                    "seed": int(g.integers(0, 2**31))}
        cases.append({"kind": "seq", "mol": name, "method": method, "xm": xm, "n_states": _nstates(g, no * nv, 8),
                      "tol": float(_pick(g, TOLS)), "path": path, "modes": seq_modes})
    # ---- homogeneous batches
    for i in range(n_hb):
        name, is_sym = choose_mol(i + 2, n_hb)
        no, nv = _dims(name)
        method = _pick(g, _methods_for(name))
        nb = int(g.integers(2, 5))
        geoms = [_geom_spec(g, name, is_sym and k == 0) for k in range(nb)]
        if g.random() < 0.3:
            geoms.append(dict(geoms[0]))  # an exact duplicate geometry inside the batch
        cases.append({"kind": "hbatch", "mol": name, "method": method, "xm": "rpa" if i % 4 == 3 else "cis",
                      "n_states": _nstates(g, no * nv), "tol": float(_pick(g, TOLS)), "geoms": geoms})
    # ---- homogeneous batches with deliberately UNEVEN convergence, every batch order (members leave the Davidson loop in
    #      different iterations and with different subspace sizes: the per-molecule bookkeeping -- done masks, zero_pad
    #      offsets, active-index vs molecule-index -- is only exercised then)
    ub_pool = [n for n in ("CH2O", "NH3", "HCN", "CH3OH", "HCOOH", "C2H4", "CH3F", "HNO", "CH4", "C2H6", "SO2", "CO2",
                           "CH3NH2", "HOOH", "C2H2", "N2O", "CH3Cl") + (("C3H8", "C4H6", "C3H4", "C3H6c") if tier != "quick" else ())
               if n in pool and (tier != "quick" or _dims(n)[0] * _dims(n)[1] <= 36)]
    for i in range(n_ub):
        name = "CH2O" if i < 2 else _pick(g, ub_pool)
        no, nv = _dims(name)
        method = _pick(g, _methods_for(name))
        nb = 3 if (tier == "quick" or g.random() < 0.6) else 4
        geoms = []
        for k in range(nb):
            # one exactly symmetric member (its Davidson run finishes early: symmetry-pure start vectors), the others
            # strongly distorted / stretched / near equilibrium
            style = ["sym", "far", _pick(g, ["stretched", "near"]), "near"][k]
            if style == "sym":
                sp = {"mol": name, "mode": "sym", "seed": int(g.integers(0, 2**31)), "rot": "haar"}
            else:
                sp = {"mol": name, "mode": "distort", "seed": int(g.integers(0, 2**31)), "rot": "haar",
                      "sigma": 0.01 if style == "near" else float(_pick(g, [0.12, 0.15]))}
            if style == "stretched":
                f = float(_pick(g, [0.88, 1.15, 1.25]))
                sp["scale"] = [f, f, f]
            geoms.append(sp)
        if nb == 3:
            orders = [[0, 1, 2], [0, 2, 1], [1, 0, 2], [1, 2, 0], [2, 0, 1], [2, 1, 0]]
        else:
            orders = [[int(x) for x in g.permutation(nb)] for _ in range(6)]
        cases.append({"kind": "ubatch", "mol": name, "method": method, "xm": "rpa" if i % 2 == 0 else "cis",
                      "n_states": int(g.integers(1, min(3, no * nv) + 1)), "tol": float(_pick(g, [1e-6, 1e-7, 1e-8])),
                      "geoms": geoms, "orders": orders})
    # ---- user iteration cap: `excited_states["max_iter"]` below / around the iterations needed.  The call must either
    #      raise (loud) or return eigenpairs that satisfy every clause; unconverged roots returned silently are the violation
    mi_pool = [n for n in ("C2H6", "CH3NH2", "HCOOH", "PCl3", "BF3", "AlCl3", "C3H4", "CCl4", "CF4", "SiH3Cl", "CH3OH")
               + (("C3H8", "C3H6c", "C4H6", "C3N3H3") if tier != "quick" else ()) if n in pool]
    for i in range(n_mi):
        name = _pick(g, mi_pool)
        no, nv = _dims(name)
        cases.append({"kind": "maxiter", "mol": name, "method": _pick(g, _methods_for(name)),
                      "geom": {"mol": name, "mode": "distort", "seed": int(g.integers(0, 2**31)),
                               "sigma": float(_pick(g, [0.05, 0.1])), "rot": "haar"},
                      "n_states": int(g.integers(3, 7)), "tol": float(_pick(g, [1e-6, 1e-7, 1e-8])),
                      "caps": [1, 2, 3, 4, 6, None], "nbatch": 1 if i % 2 == 0 else 2,
                      "geom2_seed": int(g.integers(0, 2**31))})
    # ---- per-atom LEARNED parameters that differ between the rows of a same-species batch (the ML interface):
    #      every row has its own response matrix; both batch orders; each row vs dense (own values) and vs alone
    lp_pool = [n for n in ("CH2O", "C2H4", "HCN", "NH3", "CH3F", "H2O", "CO2", "HNO", "CH3OH", "C2H2", "N2O", "HCOOH")
               + (("C2H6", "CH3NH2", "C3H8", "C4H6") if tier != "quick" else ()) if n in pool]
    for i in range(n_lp):
        name = _pick(g, lp_pool)
        no, nv = _dims(name)
        names_l = ["g_ss", "g_sp", "g_pp", "g_p2", "h_sp"] + (["zeta_s", "zeta_p"] if g.random() < 0.5 else [])
        if g.random() < 0.3:
            names_l = [n for n in names_l if g.random() < 0.6] or ["g_pp", "h_sp"]
        cases.append({"kind": "lbatch", "mol": name, "method": _pick(g, [m for m in _methods_for(name) if m != "PM6_SP"] or ["AM1"]),
                      "xm": "rpa" if i % 2 else "cis", "n_states": int(g.integers(1, min(6, no * nv) + 1)),
                      "tol": float(_pick(g, [1e-6, 1e-7, 1e-8])), "nbatch": int(g.integers(2, 4)),
                      "sigma": float(_pick(g, [0.0, 0.03, 0.08])), "geom_seed": int(g.integers(0, 2**31)),
                      "learned": names_l, "spread": float(_pick(g, [1e-4, 1e-3, 5e-3, 1e-2])),
                      "par_seed": int(g.integers(0, 2**31))})
    # ---- mixed batches (rcis_any_batch)
    for i in range(n_mb):
        method = _pick(g, METHODS)
        names = [n for n in pool if available(n, method) and _dims(n)[0] * _dims(n)[1] <= 200]
        k = int(g.integers(2, 5))
        chosen = []
        for t in range(k):
            chosen.append(_pick(g, [n for n in sym if n in names] if (t == 0 and i % 2 == 0) else names))
        chosen = [n for n in chosen if available(n, method)] or [_pick(g, names)]
        if len(set(chosen)) == 1:
            chosen.append(_pick(g, [n for n in names if n != chosen[0]]))
        nmin = min(_dims(n)[0] * _dims(n)[1] for n in chosen)
        cases.append({"kind": "mbatch", "method": method, "n_states": _nstates(g, nmin, 8), "tol": float(_pick(g, TOLS)),
                      "geoms": [_geom_spec(g, n, n in sym and g.random() < 0.5) for n in chosen],
                      "extra_pad": int(g.integers(0, 2)), "pad": _pick(g, [0.0, "random"]),
                      "pad_seed": int(g.integers(0, 2**31))})
    # ---- single points
    for i in range(n_point):
        name, is_sym = choose_mol(i, n_point)
        no, nv = _dims(name)
        method = _pick(g, _methods_for(name))
        cases.append({"kind": "point", "mol": name, "method": method, "geom": _geom_spec(g, name, is_sym),
                      "n_states": _nstates(g, no * nv), "tol": float(_pick(g, TOLS)),
                      "starts": [int(g.integers(0, 2**31)) for _ in range(nstart)]})
    # ---- enumerated on purpose: solves in which every preconditioned correction falls below the discard threshold while
    #      a root is still above the tolerance (the stagnation exit; cf. mechanism davidson-stagnation-exit-residual-above-tol)
    for name, method, ns, tl in (("C7H7+", "AM1", 6, 1e-6), ("C3N3H3", "AM1", 8, 1e-4), ("B3N3H6", "AM1", 6, 1e-6)):
        cases.append({"kind": "point", "mol": name, "method": method,
                      "geom": {"mol": name, "mode": "sym", "seed": 1, "rot": "haar"}, "n_states": ns, "tol": tl, "starts": []})
    # ---- orbital windows
    for i in range(n_window):
        name, is_sym = choose_mol(i + 1, n_window)
        no, nv = _dims(name)
        nb = int(g.integers(1, no + 1))
        ma = int(g.integers(1, nv + 1))
        method = _pick(g, _methods_for(name))
        cases.append({"kind": "window", "mol": name, "method": method, "geom": _geom_spec(g, name, is_sym),
                      "window": [nb, ma], "n_states": _nstates(g, nb * ma), "tol": float(_pick(g, TOLS)),
                      "starts": [int(g.integers(0, 2**31))]})
    # ---- round-4 classes (own PRNG stream: the cases above stay what they were)
    g4 = gen.rng("C16", tier, "round4")
    n_le, n_re = (6, 6) if tier == "quick" else (90, 90)
    # (i) loose USER scf_eps: the package promises to tighten the SCF to 0.1 x tolerance.  Roots of the loose-eps call are
    #     compared with the dense spectrum of an INDEPENDENTLY tight SCF (a reference built from the same orbitals cannot see
    #     a tightening that did not happen)
    le_pool = [n for n in ("HCOOH", "CH3OH", "CH3NH2", "CH2O", "HNO", "CH3F", "HOOH", "SO2", "CH3Cl", "CH3SH", "N2O", "HCN")
               + (("C4H6", "C3H8", "C2H6") if tier != "quick" else ("C4H6",)) if n in _pool()]
    for i in range(n_le):
        name = ["HCOOH", "C4H6"][i] if i < 2 else _pick(g4, le_pool)
        no, nv = _dims(name)
        tol = float(_pick(g4, [1e-7, 1e-7, 1e-8, 1e-6]))
        cases.append({"kind": "leps", "mol": name, "method": _pick(g4, _methods_for(name)), "xm": "rpa" if i % 2 else "cis",
                      "geom": {"mol": name, "mode": "distort", "seed": int(g4.integers(0, 2**31)), "sigma": 0.05, "rot": "haar"},
                      "n_states": int(g4.integers(1, min(6, no * nv) + 1)), "tol": tol,
                      "user_eps": [e for e in (1e-3, 1e-4, 1e-5) if e > 0.1 * tol]})
    # (ii) SECOND / THIRD evaluation of one Molecule object holding a MIXED batch with duplicate (nocc, norb) groups, after
    #      displacements large enough to reorder MOs; every row vs dense at the new geometry and vs a fresh Molecule
    dup_groups = [["CH3OH", "CH3OH", "H2O"], ["CH3NH2", "CH3NH2", "NH3"], ["CH4", "CH4", "CH2O"], ["N2", "CO", "H2O"],
                  ["C2H6", "C2H6", "CH3F", "CH3F"], ["NH3", "NH3", "NH3", "HCN"], ["CH3F", "CH3F", "C2H4"],
                  ["CH2O", "CH2O", "CH3OH", "CH3OH"], ["HCOOH", "HCOOH", "H2O"], ["NO+", "CN-", "CH4"]]
    for i in range(n_re):
        method = _pick(g4, ["AM1", "PM3", "MNDO"])
        grp = dup_groups[0] if i == 0 else _pick(g4, dup_groups)
        grp = [n for n in grp if available(n, method)]
        order = [int(x) for x in g4.permutation(len(grp))] if i % 2 else list(range(len(grp)))
        nmin = min(_dims(n)[0] * _dims(n)[1] for n in grp)
        cases.append({"kind": "mreeval", "method": method, "n_states": int(g4.integers(1, min(5, nmin) + 1)),
                      "tol": float(_pick(g4, [1e-6, 1e-7, 1e-8])),
                      "geoms": [{"mol": grp[k], "mode": _pick(g4, ["sym", "distort"]), "seed": int(g4.integers(0, 2**31)),
                                 "sigma": 0.03, "rot": "haar"} for k in order],
                      "displacement": float(_pick(g4, [0.10, 0.15, 0.15])), "steps": 2,
                      "disp_seed": int(g4.integers(0, 2**31)), "reuse_P0": bool(g4.random() < 0.5), "extra_pad": int(g4.integers(0, 2))})
    if tier == "quick":
        # heaviest first (estimated solves x size), so that 16 workers finish together
        def cost(c):
            names = [c["mol"]] if "mol" in c else [gs["mol"] for gs in c["geoms"]]
            nov = max(_dims(n)[0] * _dims(n)[1] for n in names)
            if c.get("window"):
                nov = c["window"][0] * c["window"][1]
            nsolve = {"seq": 5 + 5 * len(c.get("modes", [1, 2, 3])), "hbatch": 2 * len(c.get("geoms", [])),
                      "mbatch": 2 * len(c.get("geoms", [])), "point": 3 + 2 * len(c.get("starts", [])),
                      "ubatch": len(c.get("geoms", [])) * (1 + len(c.get("orders", []))),
                      "maxiter": len(c.get("caps", [])) * c.get("nbatch", 1), "lbatch": 3 * c.get("nbatch", 2),
                      "leps": 1 + len(c.get("user_eps", [])), "mreeval": 6 * len(c.get("geoms", [])),
                      "window": 2 + len(c.get("starts", []))}[c["kind"]]
            return nsolve * (1.0 + (nov / 60.0) ** 2)
        order = sorted(range(len(cases)), key=lambda i: (-cost(cases[i]), i))
        return [cases[i] for i in order]
    # interleave the kinds (a budget cut then still leaves balanced coverage); sequences lead each round (most expensive)
    count, seen = {}, {}
    for c in cases:
        count[c["kind"]] = count.get(c["kind"], 0) + 1
    keyed = []
    for idx, c in enumerate(cases):
        k = c["kind"]
        seen[k] = seen.get(k, 0) + 1
        keyed.append(((seen[k] - 0.5) / count[k], idx, c))
    keyed.sort(key=lambda t: (t[0], t[1]))
    return [c for _, _, c in keyed]


# ---------------------------------------------------------------------------------------
# geometry
# ---------------------------------------------------------------------------------------
def geometry(spec):
    Z, X, q, m = molecule(spec["mol"])
    X = np.array(X, float)
    g = np.random.default_rng(spec["seed"])
    if spec.get("scale") is not None:
        X = X * np.asarray(spec["scale"], float)[None, :]
    if spec["mode"] == "distort":
        X = gen.distort(X, g, sigma=spec.get("sigma", 0.05))
    if spec.get("rot", "haar") == "haar":
        R = gen.generic_rotation(X, np.random.default_rng(spec["seed"] + 1))
        X = X @ R.T
    return Z, X, q, m


def path_geometries(name, path, npts=5):
    Z, X0, q, m = molecule(name)
    X0 = np.array(X0, float)
    g = np.random.default_rng(path["seed"])
    out = []
    if path["mode"] == "walk":
        X = gen.distort(X0, g, sigma=path["sigma0"])
        for t in range(npts):
            out.append(X.copy())
            Y = X + g.normal(0, path["step"], X.shape)
            X = Y if gen.min_dist(Y) > 0.6 else X
    else:
        for t in range(npts):
            f = path["f0"] + (path["f1"] - path["f0"]) * t / (npts - 1)
            s = np.ones(3)
            if path["mode"] == "scale":
                s[:] = f
            else:
                s[path["axis"]] = f
            out.append(X0 * s[None, :])
    if path.get("rot") == "haar":
        R = gen.generic_rotation(out[0], np.random.default_rng(path["seed"] + 1))
        out = [x @ R.T for x in out]
    return Z, out, q, m


# ---------------------------------------------------------------------------------------
# worker side: monitors
# ---------------------------------------------------------------------------------------
_H = {"ok": False, "missing": None, "sigma_calls": 0, "sigma_vecs": 0, "solver_calls": {}, "ortho": {}}


def setup_worker():
    """Wrap the three solvers and the two sigma builders with counting wrappers (every alias re-bound)."""
    import functools
    import sys

    try:
        import seqm.basics as B
        import seqm.seqm_functions.rcis_batch as RB
        import seqm.seqm_functions.rcis_new as RN
        import seqm.seqm_functions.rpa as RP
    except Exception as exc:  # pragma: no cover
        _H["missing"] = "import failed: %r" % (exc,)
        return
    need = [(RB, "rcis_batch"), (RN, "rcis_any_batch"), (RP, "rpa"), (RB, "matrix_vector_product_batched"),
            (RN, "matrix_vector_product_any_batched"), (RB, "get_occ_virt"), (RB, "orthogonalize_to_current_subspace")]
    for mod, nm in need:
        if not hasattr(mod, nm):
            _H["missing"] = "%s.%s" % (mod.__name__, nm)
            return
    _H["orig"] = {nm: getattr(mod, nm) for mod, nm in need}

    def rebind(orig, new):
        for m in list(sys.modules.values()):
            if m is None or not getattr(m, "__name__", "").startswith("seqm"):
                continue
            for k, v in list(vars(m).items()):
                if v is orig:
                    setattr(m, k, new)

    def count_solver(nm):
        orig = _H["orig"][nm]

        @functools.wraps(orig)
        def w(*a, **k):
            _H["solver_calls"][nm] = _H["solver_calls"].get(nm, 0) + 1
            return orig(*a, **k)
        rebind(orig, w)

    def count_sigma(nm):
        orig = _H["orig"][nm]

        @functools.wraps(orig)
        def w(mol, V, *a, **k):
            _H["sigma_calls"] += 1
            _H["sigma_vecs"] += int(V.shape[1])
            return orig(mol, V, *a, **k)
        rebind(orig, w)

    orig_ortho = _H["orig"]["orthogonalize_to_current_subspace"]

    @functools.wraps(orig_ortho)
    def ortho(V, newsubspace, vend, tol):
        # which molecule of the batch: V is the view V_all[i] of a contiguous (nmol, maxsub, nov) tensor
        try:
            b = int(V.storage_offset()) // max(1, int(V.shape[0]) * int(V.shape[1]))
        except Exception:
            b = -1
        v0 = int(vend)
        out = orig_ortho(V, newsubspace, vend, tol)
        _H["ortho"].setdefault(b, []).append((_H["sigma_calls"], int(newsubspace.shape[0]), int(out) - v0))
        return out
    rebind(orig_ortho, ortho)
    for nm in ("rcis_batch", "rcis_any_batch", "rpa"):
        count_solver(nm)
    for nm in ("matrix_vector_product_batched", "matrix_vector_product_any_batched"):
        count_sigma(nm)
    _H["ok"] = True


_OPEN = {"keys": None}


def _open_keys():
    """keys of the OPEN known findings of this property (read-only)"""
    if _OPEN["keys"] is None:
        try:
            from vlib import verdict
            _OPEN["keys"] = {e.get("key") for e in verdict.load_known(PROPERTY)}
        except Exception:
            _OPEN["keys"] = set()
    return _OPEN["keys"]


class Acc:
    def __init__(self):
        self.viol, self.margins, self.mon, self.cells, self.notes = [], {}, {}, [], []
        self.nontrivial = False
        self.guard_fail = None
        self.sig_bad = False      # sticky per case: the sigma-builder monitor disagreed with the dense matrices
        self.info = {}

    def note_max(self, name, val):
        val = float(val) if math.isfinite(float(val)) else 1e300
        if name not in self.info or val > self.info[name]:
            self.info[name] = val

    def m(self, name, n=1):
        self.mon[name] = self.mon.get(name, 0) + n

    # margins of one judged solve are collected in a scope; when that solve is matched by an OPEN known finding its
    # margins are kept out of the report (they describe the listed defect, not the bounds' head-room)
    def begin_solve(self):
        self._scope = {}
        self._scope_mechs = []

    def end_solve(self):
        sc, mechs = getattr(self, "_scope", None), getattr(self, "_scope_mechs", [])
        self._scope = None
        if sc is None:
            return
        if mechs and any(k in _open_keys() for k in mechs):
            self.m("solves_matched_by_open_finding")
            return
        for k, r in sc.items():
            if k not in self.margins or r > self.margins[k]:
                self.margins[k] = r

    def margin(self, name, val, bound):
        """-> True when the bound is NOT met.  NaN-safe: a non-finite observation never passes (stored as 1e300)."""
        r = float(val) / float(bound)
        if not math.isfinite(r):
            r = 1e300
        tgt = self._scope if getattr(self, "_scope", None) is not None else self.margins
        if name not in tgt or r > tgt[name]:
            tgt[name] = r
        return not (r <= 1.0)

    def v(self, clause, mech, **detail):
        # at most two witnesses per (clause, mechanism) and twelve per case
        same = sum(1 for x in self.viol if x["clause"] == clause and x["mech"] == mech)
        self.m("violations_seen/" + str(mech))
        if getattr(self, "_scope", None) is not None:
            self._scope_mechs.append(mech)
        if same < 2 and len(self.viol) < 12:
            self.viol.append({"clause": clause, "mech": mech, "detail": detail})


# ---------------------------------------------------------------------------------------
# running the real code
# ---------------------------------------------------------------------------------------
def _settings(method, xm, n_states, tol, window=None, best=True, max_iter=None, learned=None):
    from vlib import run
    exc = {"n_states": int(n_states), "tolerance": float(tol), "method": xm, "make_best_guess": bool(best)}
    if window is not None:
        exc["orbital_window"] = [int(window[0]), int(window[1])]
    if max_iter is not None:
        exc["max_iter"] = int(max_iter)
    sett = run.settings(method, eps=SCF_EPS, converger=(2,), grad="analytical", excited=exc)
    if learned:
        sett["learned"] = list(learned)
    return sett


def _call(es, mol, **kw):
    """one Electronic_Structure call; -> dict(raised=..., iters=..., notconverged=...)"""
    from vlib import run
    _H["sigma_calls"] = 0
    _H["sigma_vecs"] = 0
    _H["ortho"] = {}
    before = dict(_H["solver_calls"])
    try:
        with run.quiet():
            es(mol, **kw)
    except Exception as exc:
        return {"raised": "%s: %s" % (type(exc).__name__, str(exc).replace("\n", " ")[:240])}
    nc = getattr(es, "notconverged", None)
    path = [k for k, v in _H["solver_calls"].items() if v > before.get(k, 0)]
    # stagnation exit of molecule b: in its last Davidson iteration every correction vector was discarded
    stag = {}
    for b, calls in _H["ortho"].items():
        last = calls[-1][0]
        lastcalls = [c for c in calls if c[0] == last]
        stag[b] = {"exit": sum(c[2] for c in lastcalls) == 0, "offered": sum(c[1] for c in lastcalls),
                   "discarded_total": sum(c[1] - c[2] for c in calls)}
    # Davidson iteration in which molecule b left the loop (1 + iteration of its last correction step)
    last_iter = {b: calls[-1][0] + (0 if stag[b]["exit"] else 1) for b, calls in _H["ortho"].items()}
    return {"raised": None, "iters": _H["sigma_calls"], "vecs": _H["sigma_vecs"], "stagnation": stag,
            "last_iter": last_iter,
            "scf_bad": [bool(x) for x in nc.reshape(-1).tolist()] if nc is not None else None,
            "path": path[0] if len(path) == 1 else ",".join(path)}


def _fresh(Z, X, sett, q=0, m=1, learned=None, **kw):
    from vlib import run
    with run.quiet():
        # (the package writes into the dict it is given: hand every consumer its own copy)
        mol, es, _ = run.build(Z, X, sett, q, m, learned=dict(learned) if learned is not None else None)
    if learned is not None:
        kw["learned_parameters"] = dict(learned)
    info = _call(es, mol, **kw)
    return mol, es, info


def _random_start(seed, nroots, nov, nmol=1):
    import torch
    g = np.random.default_rng(seed)
    out = []
    for b in range(nmol):
        Q, _ = np.linalg.qr(g.normal(size=(nov, nroots)))
        out.append(Q.T.copy())
    return torch.as_tensor(np.stack(out))


# ---------------------------------------------------------------------------------------
# the reference and the judge
# ---------------------------------------------------------------------------------------
def _extract(mol, b):
    am = mol.atom_molid.detach().cpu().numpy()
    pm = mol.pair_molid.detach().cpu().numpy()
    atoms = np.nonzero(am == b)[0]
    first = int(atoms[0])
    Z = mol.Z.detach().cpu().numpy()[atoms].astype(int)
    sel = np.nonzero(pm == b)[0]
    ii = mol.idxi.detach().cpu().numpy()[sel] - first
    jj = mol.idxj.detach().cpu().numpy()[sel] - first
    par = {k: mol.parameters[k].detach().cpu().numpy()[atoms] for k in ("g_ss", "g_sp", "g_pp", "g_p2", "h_sp")}
    norb, nocc = int(mol.norb[b]), int(mol.nocc[b])
    return {"Z": Z, "X": mol.coordinates[b].detach().cpu().numpy()[: len(atoms)], "pairs": list(zip(ii.tolist(), jj.tolist())),
            "w": mol.w.detach().cpu().numpy()[sel], "par": par, "norb": norb, "nocc": nocc,
            "C": mol.molecular_orbitals[b].detach().cpu().numpy()[:norb, :norb].copy(),
            "e": mol.e_mo[b].detach().cpu().numpy()[:norb].copy()}


def _reference(acc, mol, b, window, hetero, cache, do_sigma):
    """dense A, B and their spectra for molecule b of the batch, from the call's own outputs."""
    from vlib import c16_dense as D
    key = ("ref", b, tuple(window) if window else None)
    if key in cache:
        return cache[key]
    d = _extract(mol, b)
    par = d["par"]
    if not D.all_finite(d["w"], d["C"], d["e"], d["X"], *par.values()):
        acc.guard_fail = "orbitals / integrals / parameters returned by the call are not finite: no reference can be built"
        d["C"] = np.nan_to_num(d["C"]); d["e"] = np.nan_to_num(d["e"]); d["w"] = np.nan_to_num(d["w"])
        par = d["par"] = {k: np.nan_to_num(v) for k, v in par.items()}
    G = D.eri_ao(d["Z"], d["pairs"], d["w"], par["g_ss"], par["g_sp"], par["g_pp"], par["g_p2"], par["h_sp"])
    nocc, norb = d["nocc"], d["norb"]
    if window:
        occ = list(range(nocc - window[0], nocc))
        virt = list(range(nocc, nocc + window[1]))
    else:
        occ, virt = list(range(nocc)), list(range(nocc, norb))
    ref = {"occ": occ, "virt": virt, "nov": len(occ) * len(virt), "d": d}
    # --- guards on the integrals the oracle was built from
    if d["pairs"]:
        ss = np.abs(D.ss_klopman(d["Z"], d["X"], d["pairs"], par["g_ss"]) - d["w"][:, 0, 0]).max()
        acc.margin("guard_ss_klopman", ss, GUARD_SS)
        if not (ss <= GUARD_SS):
            acc.guard_fail = "pair -> atom mapping of molecule.w not as assumed (|dss| = %.2e)" % ss
    fock_clause = cache.get("fock_clause")       # (bound, what): self-consistency of the solver's orbitals judged as a CLAUSE
    if not do_sigma and fock_clause is None:
        cache[("hcore", id(mol))] = None
    if ("hcore", id(mol)) not in cache:
        try:
            from seqm.seqm_functions.hcore import hcore
            import torch
            with torch.no_grad():
                M = hcore(mol)[0]
            ms = int(mol.molsize)
            H = M.reshape(int(mol.nmol), ms, ms, 4, 4).transpose(2, 3).reshape(int(mol.nmol), 4 * ms, 4 * ms)
            H = H.triu() + H.triu(1).transpose(1, 2)
            cache[("hcore", id(mol))] = H.detach().cpu().numpy()
        except Exception as exc:
            cache[("hcore", id(mol))] = None
            acc.m("fock_guard_unavailable")
    H = cache[("hcore", id(mol))]
    if H is not None:
        offs, _ = D.ao_offsets(d["Z"])
        idx = [4 * k + t for k, ao in enumerate(offs) for t in range(len(ao))]
        # heavy atoms first in the packed basis, hydrogens after: the order of `idx` already is the packed order
        Hp = H[b][np.ix_(idx, idx)]
        C = d["C"]
        P = 2.0 * C[:, :nocc] @ C[:, :nocc].T
        Fmo = C.T @ (Hp + D.fock_2e(G, P)) @ C
        fdiag = np.diag(Fmo).copy()
        off = float(np.abs(Fmo - np.diag(fdiag)).max())       # do the returned orbitals diagonalise their own Fock matrix?
        dmis = float(np.abs(fdiag - d["e"]).max())            # are the returned orbital energies those of these orbitals?
        if not (math.isfinite(off) and math.isfinite(dmis)):
            off = dmis = float("nan")
        acc.m("fock_guard_checks")
        if fock_clause is not None:
            bound, what = fock_clause
            if acc.margin("scf_consistency_of_solver_orbitals", max(off, dmis) if off == off else off, bound):
                acc.v("orbitals-not-self-consistent", "solver-orbitals-not-converged-to-documented-scf-threshold",
                      max_offdiagonal_fock_mo=off, max_orbital_energy_mismatch=dmis, bound=bound, what=what)
        else:
            acc.margin("guard_fock", off, GUARD_FOCK)
            if not (off <= GUARD_FOCK):
                acc.guard_fail = "C^T (Hcore + G[P]) C is not diagonal (%.2e): dense integrals or orbitals not as assumed" % off
            elif acc.margin("orbital_energies_belong_to_orbitals", dmis, GUARD_FOCK):
                # the orbitals DO diagonalise their Fock matrix (so the dense integrals are right), but the orbital energies
                # handed to the response solver are not the eigenvalues of these orbitals
                acc.v("orbital-energies-do-not-belong-to-orbitals", "e-mo-inconsistent-with-returned-orbitals",
                      molecule_in_batch=b, mismatch=dmis, returned_e_mo=d["e"].tolist(), fock_diagonal=fdiag.tolist())
                ref["e_returned"] = d["e"].copy()
                d["e"] = fdiag        # judge against the matrix DEFINED by the returned orbitals
    A, B = D.dense_AB(G, d["C"], d["e"], occ, virt)
    ref["A"], ref["B"] = A, B
    # --- consistency monitor: the repository's sigma builder on unit vectors
    ref["sigma_dA"] = ref["sigma_dB"] = None
    if do_sigma:
        try:
            import torch
            o = _H["orig"]
            with torch.no_grad():
                if hetero:
                    skey = ("sig_any", id(mol))
                    if skey not in cache:
                        no, nv, Cocc, Cvirt, ea = o["get_occ_virt"](mol, None, mol.e_mo)
                        V = torch.eye(no * nv, dtype=mol.w.dtype).unsqueeze(0).repeat(int(mol.nmol), 1, 1)
                        Ar, Br = o["matrix_vector_product_any_batched"](mol, V, mol.w, ea, Cocc, Cvirt, makeB=True)
                        cache[skey] = (Ar.numpy(), Br.numpy(), no, nv)
                    Ar, Br, no, nv = cache[skey]
                    valid = [i * nv + a for i in range(len(occ)) for a in range(len(virt))]
                    Ar, Br = Ar[b][np.ix_(valid, valid)], Br[b][np.ix_(valid, valid)]
                else:
                    skey = ("sig", id(mol), key[2])
                    if skey not in cache:
                        no, nv, Cocc, Cvirt, ea = o["get_occ_virt"](mol, window, mol.e_mo)
                        V = torch.eye(no * nv, dtype=mol.w.dtype).unsqueeze(0).repeat(int(mol.nmol), 1, 1)
                        Ar, Br = o["matrix_vector_product_batched"](mol, V, mol.w, ea, Cocc, Cvirt, makeB=True)
                        cache[skey] = (Ar.numpy(), Br.numpy())
                    Ar, Br = cache[skey]
                    Ar, Br = Ar[b], Br[b]
            A_mon, B_mon = A, B
            if "e_returned" in ref:      # the sigma builder was fed the returned orbital energies: compare like with like
                A_mon, B_mon = D.dense_AB(G, d["C"], ref["e_returned"], occ, virt)
            ref["sigma_dA"] = float(np.abs(Ar - A_mon).max())
            ref["sigma_dB"] = float(np.abs(Br - B_mon).max())
            acc.m("sigma_crosschecks")
            acc.margin("monitor_sigma_vs_dense_A", ref["sigma_dA"], SIGMA_TOL)
            acc.margin("monitor_sigma_vs_dense_B", ref["sigma_dB"], SIGMA_TOL)
        except Exception as exc:
            acc.m("sigma_crosscheck_failed")
            acc.notes.append("sigma cross-check raised %r" % (exc,))
    lam, U = D.cis_eig(A)
    ref["lam"], ref["U"] = lam, U
    ref["rpa"] = None
    cache[key] = ref
    return ref


def _rpa_ref(ref):
    from vlib import c16_dense as D
    if ref.get("rpa") is None:
        r = D.rpa_eig(ref["A"], ref["B"])
        ref["rpa"] = r if r is not None else False
    return ref["rpa"]


def _amps(mol, b, xm, ref, hetero):
    """-> E[m], X[m,nov], Y[m,nov] or None, leak (norm of amplitude stored outside the molecule's own block)"""
    E = mol.cis_energies[b].detach().cpu().numpy().copy()
    amp = mol.cis_amplitudes.detach().cpu().numpy()
    no, nv = len(ref["occ"]), len(ref["virt"])
    leak = 0.0
    if xm == "rpa":
        X, Y = amp[0, b], amp[1, b]
    else:
        X, Y = amp[b], None
    if hetero:
        nomax, nvmax = int(mol.nocc.max()), int((mol.norb - mol.nocc).max())
        Xf = X.reshape(X.shape[0], nomax, nvmax)
        X = Xf[:, :no, :nv].reshape(X.shape[0], no * nv)
        outside = Xf.copy()
        outside[:, :no, :nv] = 0.0
        leak = float(np.abs(outside).max())
    # rows that are pure padding (mixed batches: molecules with fewer roots than the batch maximum)
    keep = [k for k in range(len(E)) if not (E[k] == 0.0 and not np.any(X[k]))]
    pad = len(E) - len(keep)
    if pad and keep != list(range(len(keep))):
        keep = list(range(len(E)))  # padding must be trailing; otherwise judge everything
        pad = 0
    X = X[keep]
    Y = Y[keep] if Y is not None else None
    return E[keep], X, Y, leak, pad


def _judge(acc, mol, b, run, cache, do_sigma=True):
    acc.begin_solve()
    try:
        return _judge_inner(acc, mol, b, run, cache, do_sigma)
    finally:
        acc.end_solve()


def _judge_inner(acc, mol, b, run, cache, do_sigma=True):
    """run: dict(xm, tol, n_req, window, hetero, solver, start, label, iters).  Returns a small record."""
    xm, tol, n_req, window, hetero = run["xm"], run["tol"], run["n_req"], run.get("window"), run.get("hetero", False)
    ref = _reference(acc, mol, b, window, hetero, cache, do_sigma)
    nov = ref["nov"]
    E, X, Y, leak, pad = _amps(mol, b, xm, ref, hetero)
    m = len(E)
    solver, start = run["solver"], run["start"]
    if (ref["sigma_dA"] is not None and not (ref["sigma_dA"] <= SIGMA_TOL)) or \
            (xm == "rpa" and ref["sigma_dB"] is not None and not (ref["sigma_dB"] <= SIGMA_TOL)):
        acc.sig_bad = True
    sig_bad = acc.sig_bad

    st = (run.get("stag") or {}).get(b)
    stag_exit = bool(st and st["exit"])
    if stag_exit:
        acc.m("stagnation_exits")

    def mech(clause, value=None):
        """deterministic mechanism classifier over the witness"""
        if sig_bad:
            return "sigma-build-differs-from-dense"
        cap = run.get("max_iter")
        if cap is not None and (run.get("iters") or 0) >= cap:
            # the user's iteration cap was reached and the call still returned: whatever clause fails, this is the mechanism
            return "cap-reached-but-returned-silently"
        startclass = "amplitude-reuse" if start.startswith("reuse") else start
        if clause == "residual-above-tol":
            if not stag_exit:
                return "residual-above-tol-without-stagnation-exit-%s" % startclass
            # natural scale of the stagnation rule: corrections r/(E-d) are dropped below vector_tol, so |r| up to about
            # vector_tol * max|E-d| passes silently (vector_tol = 0.01 sqrt(nov) tol in CIS, 0.02 tol in RPA)
            d = (ref["d"]["e"][ref["virt"]][None, :] - ref["d"]["e"][ref["occ"]][:, None]).ravel()
            dmax = float(np.max(np.abs(E[:, None] - d[None, :])))
            scale = (0.02 if xm == "rpa" else 0.01 * math.sqrt(nov)) * dmax
            wit["stagnation_scale_over_tol"] = scale
            if value is not None and value <= 2.0 * max(scale, 1.0) * tol:
                return "davidson-stagnation-exit-residual-above-tol"
            return "davidson-stagnation-exit-residual-far-above-tol"
        if clause == "root-skipped":
            # the listed mechanism: Davidson converged on a set of TRUE eigenpairs that is not the lowest one, on a
            # nuclear framework with a non-trivial point-group operation.  Anything else keeps a different key.
            sym = _is_symmetric(ref["d"]["Z"], ref["d"]["X"])
            wit["geometry_symmetric"] = bool(sym)
            spec = ref["rpa"][0] if xm == "rpa" else ref["lam"]
            bnd = float(value) if value is not None else EIG_ABS
            used, genuine = set(), True
            for ek in E:                       # injective, multiplicity-aware match of every returned root
                cand = [j for j in np.nonzero(np.abs(spec - ek) <= bnd)[0] if j not in used]
                if not cand:
                    genuine = False
                    break
                used.add(int(cand[0]))
            if xm == "rpa":
                u_, v_ = X + Y, X - Y
                r1_ = v_ @ (ref["A"] - ref["B"]).T - E[:, None] * u_
                r2_ = u_ @ (ref["A"] + ref["B"]).T - E[:, None] * v_
                res_ = max(float(np.abs(r1_).max()), float(np.abs(r2_).max()))
                ortho_ = float(np.abs(X @ X.T - Y @ Y.T - np.eye(len(E))).max())
            else:
                res_ = float(np.abs(X @ ref["A"].T - E[:, None] * X).max())
                ortho_ = float(np.abs(X @ X.T - np.eye(len(E))).max())
            # (a residual slightly above tol after a stagnation exit is a separate, separately keyed matter)
            genuine = genuine and ortho_ <= ORTHO_TOL and res_ <= 10.0 * tol + RES_ABS
            wit["returned_set_are_true_eigenpairs"] = bool(genuine)
            wit["skipped_dense_indices"] = [int(j) + 1 for j in range(max(used) if used else 0) if j not in used][:8]
            if not genuine:
                return "root-skipped-returned-set-not-eigenpairs-%s-%s" % (solver, startclass)
            return "davidson-root-skipped-%s-geometry-%s" % ("symmetric" if sym else "asymmetric", startclass)
        return "%s-%s-%s" % (clause, solver, startclass)

    wit = {"label": run["label"], "molecule_in_batch": b, "tol": tol, "n_states": n_req, "nov": nov, "window": window,
           "solver": solver, "start": start, "davidson_sigma_builds": run.get("iters"),
           "sigma_vs_dense": [ref["sigma_dA"], ref["sigma_dB"]], "returned": E.tolist(), "stagnation": st}
    rec = {"E": E, "ref": ref, "X": X, "ok": True, "Etot": float(mol.Etot[b]), "label": run["label"]}
    acc.m("solves_judged")
    # ---- finiteness gate (every later comparison assumes finite numbers; uninitialised amplitude memory may hold NaN/inf)
    from vlib import c16_dense as D
    amp_all = mol.cis_amplitudes.detach().cpu().numpy()
    amp_b = amp_all[:, b] if xm == "rpa" else amp_all[b]
    if not D.all_finite(E, X, amp_b, mol.cis_energies[b].detach().cpu().numpy()) or (Y is not None and not D.all_finite(Y)) \
            or not math.isfinite(rec["Etot"]):
        acc.margin("finite_results", float("nan"), 1.0)
        acc.v("non-finite-result", mech("non-finite-result"), **dict(wit, returned=[repr(float(x)) for x in E]))
        rec["ok"] = False
        rec["stop"] = True
        return rec
    acc.margin("finite_results", 0.0, 1.0)
    acc.cells.append("%s/%s/tol%g/%s/%s" % (solver, start, tol, "window" if window else "full",
                                            "symmetric" if _is_symmetric(ref["d"]["Z"], ref["d"]["X"]) else "asymmetric"))
    if nov > m and (run.get("iters") or 0) >= 2:
        acc.nontrivial = True
        acc.m("iterative_solves")
    if X.shape[1] != nov:
        # the amplitudes do not live in the requested active space
        if xm == "rpa" and window:
            full = _reference(acc, mol, b, None, hetero, cache, False)
            rf = _rpa_ref(full)
            same_as_full = bool(rf) and len(E) <= len(rf[0]) and bool(np.all(np.abs(E - rf[0][: len(E)]) <= 1e-3))
            acc.v("orbital-window-ignored", "rpa-orbital-window-silently-ignored", amplitude_dim=int(X.shape[1]),
                  window_dim=nov, equals_full_space_rpa=same_as_full, **wit)
        else:
            acc.v("amplitude-dimension-mismatch", mech("amplitude-dimension-mismatch"), amplitude_dim=int(X.shape[1]), **wit)
        rec["ok"] = False
        rec["stop"] = True
        return rec
    if hetero and xm != "rpa" and ref["lam"][0] <= 1e-6:
        # unstable reference inside a mixed batch: rcis_any_batch assumes that the zero eigenvalues contributed by the
        # padded subspace rows sort *below* every excitation energy; with negative roots it returns padding instead
        acc.m("mixed_batch_unstable_reference")
        lam = ref["lam"]
        bound = math.sqrt(max(m, 1) * nov) * tol + EIG_ABS
        Eall = mol.cis_energies[b].detach().cpu().numpy()
        bad = m < n_req or bool(np.any(np.abs(E[:n_req] - lam[:n_req]) > bound))
        if bad:
            # explained by the listed mechanism only if there ARE negative roots and every returned number is either an
            # exact zero (a padded subspace row) or a genuine dense eigenvalue
            explained = lam[0] < -bound and all(
                (e == 0.0) or bool(np.any(np.abs(lam - e) <= bound)) for e in Eall) and bool(np.any(Eall == 0.0))
            acc.v("unstable-reference-roots-replaced-by-padding",
                  "rcis-any-batch-negative-roots-vs-zero-padding" if explained and not sig_bad
                  else "unstable-reference-wrong-roots-rcis-any-batch",
                  dense_lowest=lam[: n_req + 2].tolist(), all_returned=Eall.tolist(), **wit)
        rec["ok"] = False
        return rec
    if m < n_req:
        acc.v("too-few-roots", mech("too-few-roots"), **wit)
        rec["ok"] = False
        return rec
    if pad:
        acc.m("padded_root_rows_ignored", pad)
    if acc.margin("pad_leak", leak, ORTHO_TOL):
        acc.v("amplitude-leaks-into-padding", mech("amplitude-leaks-into-padding"), leak=leak, **wit)
    # ---- ascending
    if m > 1:
        worst = float(np.max(E[:-1] - E[1:]))
        if acc.margin("ascending", max(worst, 0.0), 1e-12):
            acc.v("not-ascending", mech("not-ascending"), **wit)
    if xm != "rpa":
        lam, U = ref["lam"], ref["U"]
        wit["dense_lowest"] = lam[: m + 3].tolist()
        stable = lam[0] > 1e-6
        if stable and np.any(E <= 0):
            acc.v("not-positive", mech("not-positive"), **wit)
        bound = math.sqrt(m * nov) * tol + EIG_ABS
        for k in range(m):
            dk = float(E[k] - lam[k])
            acc.m("roots_checked")
            if acc.margin("cis_eig_upper", max(dk, 0.0), bound):
                later = np.nonzero(np.abs(lam[k + 1:] - E[k]) <= bound)[0]
                cl = "root-skipped" if len(later) else "eigenvalue-off"
                acc.v(cl, mech(cl, bound), root=k + 1, E=float(E[k]), dense=float(lam[k]), diff=dk, bound=bound, **wit)
                rec["ok"] = False
                break
            if acc.margin("cis_eig_variational_lower", max(-dk, 0.0), EIG_ABS):
                acc.v("eigenvalue-below-dense", mech("eigenvalue-off"), root=k + 1, E=float(E[k]), dense=float(lam[k]),
                      diff=dk, **wit)
                rec["ok"] = False
                break
            acc.note_max("cis |E-lambda| / (sqrt(nov) tol + 1e-9)", abs(dk) / (math.sqrt(nov) * tol + EIG_ABS))
        # ---- orthonormal
        Gm = X @ X.T
        if acc.margin("cis_orthonormal", np.abs(Gm - np.eye(m)).max(), ORTHO_TOL):
            acc.v("not-orthonormal", mech("not-orthonormal"), gram_dev=float(np.abs(Gm - np.eye(m)).max()), **wit)
        # ---- residual with the dense A
        R = X @ ref["A"].T - E[:, None] * X
        rinf = np.abs(R).max(axis=1)
        kworst = int(np.argmax(rinf))
        acc.note_max("cis residual/tol after %s" % ("stagnation exit" if stag_exit else "residual-criterion exit"), rinf[kworst] / tol)
        if acc.margin("cis_residual", rinf[kworst], RES_ALLOW * tol + RES_ABS):
            acc.v("residual-above-tol", mech("residual-above-tol", float(rinf[kworst])), root=kworst + 1, residual_inf=float(rinf[kworst]),
                  bound=RES_ALLOW * tol + RES_ABS, all_residuals=rinf.tolist(), **wit)
        # ---- eigenvectors inside the dense eigenspace of their (possibly degenerate) level
        for k in range(m):
            near = np.abs(lam - E[k]) <= max(10 * bound, 1e-6)
            if not near.any() or near.all():
                continue
            gap = float(np.min(np.abs(lam[~near] - E[k])))
            bv = VEC_ALLOW * math.sqrt(nov) * RES_ALLOW * tol / gap + 1e-8
            if int((np.abs(lam - lam[k]) <= 1e-6).sum()) > 1:
                acc.m("degenerate_roots_checked")
            if bv > 0.3:
                continue
            Uc = U[:, near]
            out = float(np.linalg.norm(X[k] - Uc @ (Uc.T @ X[k])))
            if acc.margin("cis_eigvec_outside_level", out, bv):
                acc.v("eigvec-outside-eigenspace", mech("eigvec-outside-eigenspace"), root=k + 1, outside=out, bound=bv, **wit)
    else:
        r = _rpa_ref(ref)
        if r is False:
            acc.m("rpa_reference_unstable_but_returned")
            rec["ok"] = False
            return rec
        om, Xd, Yd, mu_min, mu_max = r
        wit["dense_lowest"] = om[: m + 3].tolist()
        if np.any(E <= 0):
            acc.v("not-positive", mech("not-positive"), **wit)
        rec["rpa_bound"] = []
        for k in range(m):
            ck = 1.25 * 0.5 * (math.sqrt(om[k] / mu_min) + math.sqrt(mu_max / om[k]))
            bound = ck * math.sqrt(m * nov) * tol + EIG_ABS
            rec["rpa_bound"].append(bound)
            dk = float(E[k] - om[k])
            acc.m("rpa_roots_checked")
            if acc.margin("rpa_eig", abs(dk), bound):
                later = np.nonzero(np.abs(om[k + 1:] - E[k]) <= bound)[0]
                cl = "root-skipped" if (dk > 0 and len(later)) else "eigenvalue-off"
                acc.v(cl, mech(cl, bound), root=k + 1, E=float(E[k]), dense=float(om[k]), diff=dk, bound=bound, **wit)
                rec["ok"] = False
                break
            acc.note_max("rpa |E-omega| / (sqrt(nov) tol + 1e-9)", abs(dk) / (math.sqrt(nov) * tol + EIG_ABS))
        Gm = X @ X.T - Y @ Y.T
        if acc.margin("rpa_normalisation", np.abs(Gm - np.eye(m)).max(), ORTHO_TOL):
            acc.v("not-orthonormal", mech("not-orthonormal"), gram_dev=float(np.abs(Gm - np.eye(m)).max()), **wit)
        u, v = X + Y, X - Y
        Mm, Kp = ref["A"] - ref["B"], ref["A"] + ref["B"]
        r1 = v @ Mm.T - E[:, None] * u
        r2 = u @ Kp.T - E[:, None] * v
        rinf = np.maximum(np.abs(r1).max(axis=1), np.abs(r2).max(axis=1))
        kworst = int(np.argmax(rinf))
        acc.note_max("rpa residual/tol after %s" % ("stagnation exit" if stag_exit else "residual-criterion exit"), rinf[kworst] / tol)
        if acc.margin("rpa_residual", rinf[kworst], RES_ALLOW * tol + RES_ABS):
            acc.v("residual-above-tol", mech("residual-above-tol", float(rinf[kworst])), root=kworst + 1, residual_inf=float(rinf[kworst]),
                  bound=RES_ALLOW * tol + RES_ABS, all_residuals=rinf.tolist(), **wit)
        if int((np.abs(om[:m, None] - om[None, :]) <= 1e-6).sum()) > m:
            acc.m("degenerate_roots_checked")
    return rec


def _is_symmetric(Z, X, tol=1e-4):
    """does the nuclear framework have a non-trivial point-group operation?  (degenerate principal moments, or one of
    the seven sign-flip operations in the principal-axis frame maps the atoms onto themselves)"""
    Z = np.asarray(Z, float)
    X = np.asarray(X, float)
    X = X - (Z[:, None] * X).sum(0) / Z.sum()
    T = sum(z * ((x @ x) * np.eye(3) - np.outer(x, x)) for z, x in zip(Z, X))
    w, V = np.linalg.eigh(T)
    scale = max(w.max(), 1e-12)
    if min(abs(w[1] - w[0]), abs(w[2] - w[1])) <= 1e-6 * scale:
        return True
    Xp = X @ V
    for sx in (1, -1):
        for sy in (1, -1):
            for sz in (1, -1):
                if (sx, sy, sz) == (1, 1, 1):
                    continue
                Y = Xp * np.array([sx, sy, sz])
                ok = True
                for i in range(len(Z)):
                    dist = np.linalg.norm(Xp - Y[i], axis=1)
                    dist[Z != Z[i]] = 9e9
                    if dist.min() > tol:
                        ok = False
                        break
                if ok:
                    return True
    return False


def _levels(lam, m, sep):
    """complete levels (index lists) among the lowest m dense eigenvalues, separated by > sep from everything else"""
    out, k = [], 0
    while k < m:
        j = k
        while j + 1 < len(lam) and lam[j + 1] - lam[j] <= sep:
            j += 1
        if j < m:
            lo = lam[k] - lam[k - 1] if k > 0 else 9e9
            hi = lam[j + 1] - lam[j] if j + 1 < len(lam) else 9e9
            out.append((list(range(k, j + 1)), float(min(lo, hi))))
        k = j + 1
    return out


def _compare_runs(acc, base, var, tol_b, tol_v, n_req, nov, what, mech):
    """same answer from every start / history / batch composition: energies, and level projectors in the AO basis."""
    if not (base and var and base.get("ok") and var.get("ok")):
        return
    if not (abs(base["Etot"] - var["Etot"]) <= 1e-5):
        # the two runs sit on different SCF solutions: a ground-state matter (C03/C05), the CIS comparison is meaningless
        acc.m("cross_run_skipped_different_scf_solution")
        if len(acc.notes) < 6:
            acc.notes.append("different SCF solutions: %s Etot=%.6f lowest CIS %.4f | %s Etot=%.6f lowest CIS %.4f" % (
                base["label"], base["Etot"], base["E"][0], var["label"], var["Etot"], var["E"][0]))
        return
    Eb, Ev = base["E"], var["E"]
    n = min(n_req, len(Eb), len(Ev))
    bound = (math.sqrt(len(Eb) * nov) * tol_b + math.sqrt(len(Ev) * nov) * tol_v) + 2 * SCF_ALLOW + EIG_ABS
    if "rpa_bound" in base:
        bound = max(base["rpa_bound"][:n]) + max(var["rpa_bound"][:n]) + 2 * SCF_ALLOW
    d = float(np.abs(Eb[:n] - Ev[:n]).max())
    acc.m("cross_run_comparisons")
    if acc.margin("same_answer_energy/" + what, d, bound):
        acc.v("history-dependent-energy", mech, what=what, base=Eb[:n].tolist(), variant=Ev[:n].tolist(), diff=d, bound=bound)
    if "rpa_bound" in base or base["X"] is None:
        return
    # level projectors through AO-basis transition densities  T_k = C_occ x_k C_virt^T  (basis independent)
    rb, rv = base["ref"], var["ref"]
    if rb["nov"] != rv["nov"]:
        return

    def ao(rec, ks):
        r = rec["ref"]
        Co, Cv = r["d"]["C"][:, r["occ"]], r["d"]["C"][:, r["virt"]]
        no, nv = len(r["occ"]), len(r["virt"])
        return np.stack([(Co @ rec["X"][k].reshape(no, nv) @ Cv.T).ravel() for k in ks])

    for ks, gap in _levels(rb["lam"], n, 1e-5):
        if max(ks) >= len(base["X"]) or max(ks) >= len(var["X"]):
            continue
        bv = VEC_ALLOW * (2 * math.sqrt(len(ks) * nov) * RES_ALLOW * max(tol_b, tol_v) + 2 * SCF_ALLOW) / gap + 1e-7
        if bv > 0.3:
            continue
        Q1, Q2 = ao(base, ks), ao(var, ks)
        sin = float(np.linalg.norm(Q1 - (Q1 @ Q2.T) @ Q2, 2))   # largest canonical sine, accurate for small angles
        acc.m("level_projectors_compared")
        if acc.margin("same_answer_subspace/" + what, sin, bv):
            acc.v("history-dependent-subspace", mech, what=what, level=[k + 1 for k in ks], sin_theta=sin, bound=bv)


def _note_raise(acc, info, tag):
    acc.m("solver_raised/" + tag)
    if len(acc.notes) < 6:
        acc.notes.append("%s: %s" % (tag, info["raised"]))


_SOLVER_GAVE_UP = ("Maximum iterations", "did not converge", "not converge", "negative eigenvalues", "very small eigenvalues",
                   "imaginary roots")


def _one_arm_exception(acc, info, partner_completed, tag, **wit):
    """an exception in one arm of a metamorphic pair: a solver that says it gave up has the standing of a
    non-convergence flag (loud, counted); any other exception while the partner arm completed is a violation"""
    _note_raise(acc, info, tag)
    if partner_completed and not any(k in info["raised"] for k in _SOLVER_GAVE_UP):
        acc.v("exception-in-one-arm", "one-arm-exception-%s" % tag, message=info["raised"], **wit)


def _scf_ok(info, b=None):
    sb = info.get("scf_bad")
    if sb is None:
        return True
    return not (any(sb) if b is None else sb[b])


# ---------------------------------------------------------------------------------------
# case kinds
# ---------------------------------------------------------------------------------------
def _finish(acc, obs):
    res = {"nontrivial": acc.nontrivial, "violations": acc.viol, "margins": acc.margins, "monitors": acc.mon,
           "cells": sorted(set(acc.cells)), "obs": dict(obs, notes=acc.notes, worst=acc.margins, info=acc.info)}
    if acc.guard_fail:
        res["inconclusive"] = "oracle guard: " + acc.guard_fail
        res["violations"] = []
    elif acc.mon.get("solves_judged", 0) == 0:
        res["ineligible"] = "no solve finished (%s)" % ("; ".join(acc.notes)[:200] or "scf not converged")
    return res


def _point(case, acc):
    Z, X, q, m = geometry(case["geom"])
    window = case.get("window")
    n_req, tol, method = case["n_states"], case["tol"], case["method"]
    obs = {"species": Z, "n_states": n_req, "tol": tol}
    recs = {}
    for xm in ("cis", "rpa"):
        cache = {}
        mol, es, info = _fresh(Z, X, _settings(method, xm, n_req, tol, window), q, m)
        if window and xm == "rpa":
            # RPA has no orbital-window support: the package must reject the request loudly (NotImplementedError) and
            # before any excited-state result is attached to the molecule.  A call that returns is judged against the
            # windowed dense RPA below (mechanism rpa-orbital-window-silently-ignored).
            acc.m("rpa_window_calls")
            if info["raised"] and info["raised"].startswith("NotImplementedError"):
                import torch
                left = [a for a in ("cis_energies", "cis_amplitudes") if torch.is_tensor(getattr(mol, a, None))]
                acc.m("rpa_window_rejected")
                acc.cells.append("rpa/window/rejected-%s-results" % ("AFTER" if left else "before"))
                if left:
                    acc.v("rejection-after-results", "rpa-window-rejected-after-results-set", attributes_set=left,
                          window=window, message=info["raised"])
                continue
        if info["raised"]:
            _note_raise(acc, info, "%s-default" % xm)
            continue
        if not _scf_ok(info):
            acc.m("scf_not_converged")
            continue
        solver = "rpa" if xm == "rpa" else "rcis-batch"
        base = _judge(acc, mol, 0, {"xm": xm, "tol": tol, "n_req": n_req, "window": window, "solver": solver,
                                    "start": "default-guess", "label": "%s default start" % xm, "iters": info["iters"], "stag": info["stagnation"]}, cache)
        recs[xm] = base
        if window:
            acc.m("window_solves")
        if not base.get("ok", True) and base.get("stop"):
            continue
        obs["E_" + xm] = base["E"].tolist()
        obs["iters_" + xm] = info["iters"]
        nov = base["ref"]["nov"]
        # random orthonormal starting vectors
        for s in case["starts"][: (1 if xm == "rpa" else None)]:
            mol2, es2, info2 = _fresh(Z, X, _settings(method, xm, n_req, tol, window, best=False), q, m,
                                      cis_amp=_random_start(s, n_req, nov))
            if info2["raised"]:
                _note_raise(acc, info2, "%s-random-start" % xm)
                continue
            acc.m("random_start_solves")
            var = _judge(acc, mol2, 0, {"xm": xm, "tol": tol, "n_req": n_req, "window": window, "solver": solver,
                                        "start": "random-guess", "label": "%s random start seed %d" % (xm, s),
                                        "iters": info2["iters"], "stag": info2["stagnation"]}, {}, do_sigma=False)
            _compare_runs(acc, base, var, tol, tol, n_req, nov, "random-start", "start-dependent-%s" % solver)
    if "cis" in recs and "rpa" in recs and recs["cis"]["ok"] and recs["rpa"]["ok"]:
        Ec, Er = recs["cis"]["E"], recs["rpa"]["E"]
        n = min(len(Ec), len(Er))
        rb = np.asarray(recs["rpa"]["rpa_bound"][:n])
        ex = Er[:n] - Ec[:n]
        k = int(np.argmax(ex / (rb + EIG_ABS)))
        acc.m("rpa_le_cis_checked", n)
        if acc.margin("rpa_le_cis", max(float(ex[k]), 0.0), rb[k] + EIG_ABS):
            acc.v("rpa-above-cis", "rpa-above-cis", root=k + 1, E_rpa=Er[:n].tolist(), E_cis=Ec[:n].tolist())
        om, lam = recs["rpa"]["ref"]["rpa"][0], recs["cis"]["ref"]["lam"]
        if np.any(om > lam + 1e-9):
            acc.guard_fail = "dense RPA eigenvalue above dense CIS eigenvalue: reference B is wrong"
    return _finish(acc, obs)


def _seq(case, acc):
    import torch
    Z, geoms, q, m = path_geometries(case["mol"], case["path"])
    xm, n_req, tol, method = case["xm"], case["n_states"], case["tol"], case["method"]
    solver = "rpa" if xm == "rpa" else "rcis-batch"
    obs = {"species": Z, "xm": xm, "E": {}}
    fresh = []
    for t, X in enumerate(geoms):
        mol, es, info = _fresh(Z, X, _settings(method, xm, n_req, tol), q, m)
        if info["raised"] or not _scf_ok(info):
            if info["raised"]:
                _note_raise(acc, info, "%s-fresh" % xm)
            fresh.append(None)
            continue
        fresh.append(_judge(acc, mol, 0, {"xm": xm, "tol": tol, "n_req": n_req, "solver": solver, "start": "default-guess",
                                          "label": "point %d fresh" % t, "iters": info["iters"], "stag": info["stagnation"]}, {}, do_sigma=(t == 0)))
    obs["E"]["fresh"] = [f["E"][:n_req].tolist() if f else None for f in fresh]
    for mode in case.get("modes") or ("reuse-best-guess", "reuse-raw", "no-reuse"):
        from vlib import run
        sett = _settings(method, xm, n_req, tol, best=(mode != "reuse-raw"))
        with run.quiet():
            mol, es, _ = run.build(Z, geoms[0], sett, q, m)
        traj = []
        for t, X in enumerate(geoms):
            kw = {}
            if t > 0:
                with torch.no_grad():
                    mol.coordinates.copy_(torch.as_tensor(X).unsqueeze(0))
                kw["P0"] = mol.dm
                if mode != "no-reuse":
                    amp = mol.cis_amplitudes
                    if xm == "rpa":
                        # the solver takes orthonormal X-shaped start vectors (passing the stored (2,...) pair raises):
                        # orthonormalise the previous X amplitudes
                        Q, _ = torch.linalg.qr(amp[0][:, :n_req].transpose(1, 2))
                        amp = Q.transpose(1, 2).contiguous()
                    kw["cis_amp"] = amp[:, :n_req]
            info = _call(es, mol, **kw)
            if info["raised"]:
                _note_raise(acc, info, "%s-%s" % (xm, mode))
                break
            if not _scf_ok(info):
                acc.m("scf_not_converged")
                break
            if t > 0 and mode != "no-reuse":
                acc.m("reuse_solves")
            rec = _judge(acc, mol, 0, {"xm": xm, "tol": tol, "n_req": n_req, "solver": solver,
                                       "start": mode if (t > 0 and mode != "no-reuse") else "default-guess",
                                       "label": "point %d of sequence, %s" % (t, mode), "iters": info["iters"], "stag": info["stagnation"]}, {},
                         do_sigma=False)
            traj.append(rec["E"][:n_req].tolist())
            if fresh[t] is not None:
                _compare_runs(acc, fresh[t], rec, tol, tol, n_req, rec["ref"]["nov"], mode,
                              "history-dependent-%s-%s" % (solver, mode))
        obs["E"][mode] = traj
    return _finish(acc, obs)


def _hbatch(case, acc):
    xm, n_req, tol, method = case["xm"], case["n_states"], case["tol"], case["method"]
    solver = "rpa" if xm == "rpa" else "rcis-batch"
    gs = [geometry(s) for s in case["geoms"]]
    Z, q, m = gs[0][0], gs[0][2], gs[0][3]
    nb = len(gs)
    sett = _settings(method, xm, n_req, tol)
    mol, es, info = _fresh([Z] * nb, [g[1] for g in gs], sett, [q] * nb if q else 0, m)
    obs = {"species": Z, "nbatch": nb, "xm": xm}
    if info["raised"]:
        _note_raise(acc, info, "%s-hbatch" % xm)
        return _finish(acc, obs)
    cache = {}
    obs["E_batch"] = mol.cis_energies.detach().cpu().numpy()[:, :n_req].tolist()
    obs["iters"] = info["iters"]
    for b in range(nb):
        if not _scf_ok(info, b):
            acc.m("scf_not_converged")
            continue
        rec = _judge(acc, mol, b, {"xm": xm, "tol": tol, "n_req": n_req, "solver": solver, "start": "default-guess",
                                   "label": "molecule %d of homogeneous batch of %d" % (b, nb), "iters": info["iters"], "stag": info["stagnation"]}, cache)
        acc.m("homo_batch_mols_judged")
        mol1, es1, info1 = _fresh(Z, gs[b][1], sett, q, m)
        if info1["raised"] or not _scf_ok(info1):
            if info1["raised"]:
                _note_raise(acc, info1, "%s-alone" % xm)
            continue
        alone = _judge(acc, mol1, 0, {"xm": xm, "tol": tol, "n_req": n_req, "solver": solver, "start": "default-guess",
                                      "label": "molecule %d alone" % b, "iters": info1["iters"], "stag": info1["stagnation"]}, {}, do_sigma=False)
        _compare_runs(acc, alone, rec, tol, tol, n_req, rec["ref"]["nov"], "homogeneous-batch-vs-alone",
                      "batch-dependent-%s" % solver)
    return _finish(acc, obs)


def _ubatch(case, acc):
    """homogeneous batch with uneven convergence, every order of the members"""
    xm, n_req, tol, method = case["xm"], case["n_states"], case["tol"], case["method"]
    solver = "rpa" if xm == "rpa" else "rcis-batch"
    gs = [geometry(sp) for sp in case["geoms"]]
    Z, q, m = gs[0][0], gs[0][2], gs[0][3]
    nb = len(gs)
    sett = _settings(method, xm, n_req, tol)
    obs = {"species": Z, "xm": xm, "orders": {}, "alone": []}
    alone = []
    for k in range(nb):
        mol1, es1, info1 = _fresh(Z, gs[k][1], sett, q, m)
        rec = None
        if info1["raised"]:
            _note_raise(acc, info1, "%s-alone" % xm)
        elif _scf_ok(info1):
            rec = _judge(acc, mol1, 0, {"xm": xm, "tol": tol, "n_req": n_req, "solver": solver, "start": "default-guess",
                                        "label": "geometry %d alone" % k, "iters": info1["iters"],
                                        "stag": info1["stagnation"]}, {}, do_sigma=(k == 0))
        alone.append(rec)
        obs["alone"].append(rec["E"][:n_req].tolist() if rec else None)
    all_alone_fine = all(r is not None and r.get("ok") for r in alone)
    for order in case["orders"]:
        tag = "".join(str(k) for k in order)
        mol, es, info = _fresh([Z] * nb, [gs[k][1] for k in order], sett, [q] * nb if q else 0, m)
        if info["raised"]:
            _note_raise(acc, info, "%s-ubatch" % xm)
            if all_alone_fine:
                # every member solves alone, the batch does not: the outcome depends on batch composition / order
                acc.v("batch-only-solver-failure", "batch-only-solver-failure-%s" % solver, order=order,
                      message=info["raised"], alone=obs["alone"], n_states=n_req, tol=tol)
            continue
        li = info.get("last_iter") or {}
        finish = [li.get(p, 1) for p in range(nb)]
        uneven = len(set(finish)) > 1
        acc.m("batch_orders_run")
        if uneven:
            acc.m("uneven_%s_batch_orders" % ("rpa" if xm == "rpa" else "cis"))
            acc.cells.append("ubatch/%s/uneven-finish" % solver)
        obs["orders"][tag] = {"finish_iteration": finish,
                              "E": mol.cis_energies.detach().cpu().numpy()[:, :n_req].tolist()}
        cache = {}
        for p, k in enumerate(order):
            if not _scf_ok(info, p):
                acc.m("scf_not_converged")
                continue
            rec = _judge(acc, mol, p, {"xm": xm, "tol": tol, "n_req": n_req, "solver": solver, "start": "default-guess",
                                       "label": "geometry %d at position %d of batch order %s (finish iterations %s)" % (
                                           k, p, tag, finish),
                                       "iters": info["iters"], "stag": info["stagnation"]}, cache, do_sigma=(p == 0))
            acc.m("homo_batch_mols_judged")
            if alone[k] is not None:
                _compare_runs(acc, alone[k], rec, tol, tol, n_req, rec["ref"]["nov"], "uneven-batch-vs-alone",
                              "batch-dependent-%s" % solver)
    return _finish(acc, obs)


def _maxiter(case, acc):
    Z, X, q, m = geometry(case["geom"])
    n_req, tol, method, nb = case["n_states"], case["tol"], case["method"], case.get("nbatch", 1)
    Xs = [X]
    if nb > 1:
        Xs.append(geometry(dict(case["geom"], seed=case["geom2_seed"]))[1])
    obs = {"species": Z, "outcomes": {}}
    for cap in case["caps"]:
        sett = _settings(method, "cis", n_req, tol, max_iter=cap)
        if nb == 1:
            mol, es, info = _fresh(Z, X, sett, q, m)
        else:
            mol, es, info = _fresh([Z] * nb, Xs, sett, [q] * nb if q else 0, m)
        acc.m("max_iter_calls")
        key = "default" if cap is None else str(cap)
        if info["raised"]:
            if "Maximum iterations" in info["raised"]:
                acc.m("max_iter_cap_raised")
                acc.cells.append("maxiter/cap%s/raised" % key)
                obs["outcomes"][key] = "raised"
            else:
                _note_raise(acc, info, "maxiter")
                obs["outcomes"][key] = info["raised"][:80]
            continue
        obs["outcomes"][key] = "returned after %d sigma builds" % info["iters"]
        acc.cells.append("maxiter/cap%s/returned" % key)
        cache = {}
        for b in range(nb):
            if not _scf_ok(info, b):
                acc.m("scf_not_converged")
                continue
            _judge(acc, mol, b, {"xm": "cis", "tol": tol, "n_req": n_req, "solver": "rcis-batch", "start": "default-guess",
                                 "label": "max_iter=%s, molecule %d of %d" % (key, b, nb), "iters": info["iters"],
                                 "stag": info["stagnation"], "max_iter": cap}, cache, do_sigma=(b == 0 and cap is None))
            acc.m("max_iter_returned_and_judged")
    return _finish(acc, obs)


def _lbatch(case, acc):
    """same-species batch, per-atom learned parameters that differ between the rows"""
    import torch
    from vlib import run
    xm, n_req, tol, method, nb = case["xm"], case["n_states"], case["tol"], case["method"], case["nbatch"]
    solver = "rpa" if xm == "rpa" else "rcis-batch"
    Z, X0, q, m = molecule(case["mol"])
    gg = np.random.default_rng(case["geom_seed"])
    Xs = []
    for r in range(nb):
        Xr = gen.distort(X0, gg, sigma=case["sigma"]) if case["sigma"] > 0 else np.array(X0, float)
        Xs.append(Xr @ gen.generic_rotation(Xr, gg).T)
    names = list(case["learned"])
    sett = _settings(method, xm, n_req, tol, learned=names)
    # shipped per-atom values (one row), read from a plain Molecule of the same species
    with run.quiet():
        mol0, _, _ = run.build(Z, Xs[0], _settings(method, xm, n_req, tol), q, m)
    base = {n: mol0.parameters[n].detach().cpu().numpy().astype(float).copy() for n in names}
    nat = len(Z)
    gp = np.random.default_rng(case["par_seed"])
    rows = [{n: base[n] * (1.0 + case["spread"] * gp.uniform(-1, 1, nat)) for n in names} for r in range(nb)]
    obs = {"species": Z, "xm": xm, "learned": names, "spread": case["spread"], "E": {}}

    def tens(order):
        return {n: torch.as_tensor(np.concatenate([rows[r][n] for r in order])) for n in names}

    alone = []
    for r in range(nb):
        mol1, es1, info1 = _fresh(Z, Xs[r], sett, q, m, learned=tens([r]))
        rec = None
        if info1["raised"]:
            _note_raise(acc, info1, "%s-learned-alone" % xm)
        elif _scf_ok(info1):
            rec = _judge(acc, mol1, 0, {"xm": xm, "tol": tol, "n_req": n_req, "solver": solver, "start": "default-guess",
                                        "label": "row %d alone (own learned parameters)" % r, "iters": info1["iters"],
                                        "stag": info1["stagnation"]}, {}, do_sigma=(r == 0))
        alone.append(rec)
    for order in ([list(range(nb)), list(range(nb))[::-1]]):
        tag = "".join(str(r) for r in order)
        mol, es, info = _fresh([Z] * nb, [Xs[r] for r in order], sett, [q] * nb if q else 0, m, learned=tens(order))
        if info["raised"]:
            _note_raise(acc, info, "%s-lbatch" % xm)
            if all(a is not None and a.get("ok") for a in alone):
                acc.v("batch-only-solver-failure", "batch-only-solver-failure-%s" % solver, order=order, message=info["raised"])
            continue
        obs["E"][tag] = mol.cis_energies.detach().cpu().numpy()[:, :n_req].tolist()
        cache = {}
        for p, r in enumerate(order):
            # the row must carry exactly the values that were supplied for it
            dev = max(float(np.abs(mol.parameters[n].detach().cpu().numpy()[p * nat:(p + 1) * nat] - rows[r][n]).max())
                      for n in names)
            if acc.margin("learned_values_applied", dev, 1e-12):
                acc.v("learned-parameters-not-applied-per-row", "learned-parameter-row-mismatch", row=r, position=p, deviation=dev)
                continue
            if not _scf_ok(info, p):
                acc.m("scf_not_converged")
                continue
            rec = _judge(acc, mol, p, {"xm": xm, "tol": tol, "n_req": n_req, "solver": solver, "start": "default-guess",
                                       "label": "row %d at position %d of learned-parameter batch order %s (spread %g on %s)" % (
                                           r, p, tag, case["spread"], ",".join(names)),
                                       "iters": info["iters"], "stag": info["stagnation"]}, cache, do_sigma=True)
            acc.m("learned_batch_rows_judged")
            acc.m("homo_batch_mols_judged")
            acc.cells.append("lbatch/%s/spread%g" % (solver, case["spread"]))
            if alone[r] is not None:
                _compare_runs(acc, alone[r], rec, tol, tol, n_req, rec["ref"]["nov"], "learned-batch-vs-alone",
                              "batch-dependent-%s" % solver)
    return _finish(acc, obs)


def _leps(case, acc):
    """user scf_eps looser than 0.1 x tolerance: the documented tightening must really reach the SCF"""
    Z, X, q, m = geometry(case["geom"])
    xm, n_req, tol, method = case["xm"], case["n_states"], case["tol"], case["method"]
    solver = "rpa" if xm == "rpa" else "rcis-batch"
    obs = {"species": Z, "xm": xm, "tol": tol, "runs": {}}
    # ---- reference arm: independently tight SCF (scf_eps 1e-10), dense spectrum of ITS orbitals
    mol_t, es_t, info_t = _fresh(Z, X, _settings(method, xm, n_req, tol), q, m)
    if info_t["raised"] or not _scf_ok(info_t):
        if info_t["raised"]:
            _note_raise(acc, info_t, "%s-tight-reference" % xm)
        return _finish(acc, obs)
    rec_t = _judge(acc, mol_t, 0, {"xm": xm, "tol": tol, "n_req": n_req, "solver": solver, "start": "default-guess",
                                   "label": "tight SCF reference (scf_eps %g)" % SCF_EPS, "iters": info_t["iters"],
                                   "stag": info_t["stagnation"]}, {}, do_sigma=True)
    if rec_t.get("stop"):
        return _finish(acc, obs)
    if xm == "rpa":
        rr = _rpa_ref(rec_t["ref"])
        if rr is False:
            return _finish(acc, obs)
        spec = rr[0]
    else:
        spec = rec_t["ref"]["lam"]
    obs["dense_tight"] = spec[: n_req + 2].tolist()
    eps_eff = 0.1 * tol
    for eps in case["user_eps"]:
        sett = _settings(method, xm, n_req, tol)
        sett["scf_eps"] = float(eps)
        mol, es, info = _fresh(Z, X, sett, q, m)
        if info["raised"]:
            _one_arm_exception(acc, info, True, "%s-loose-user-eps" % xm, user_scf_eps=eps, tol=tol)
            continue
        if not _scf_ok(info):
            acc.m("scf_not_converged")
            continue
        acc.cells.append("leps/%s/user_eps%g/tol%g" % (solver, eps, tol))
        # (the orbitals the solver worked on must be self-consistent to the documented threshold: judged as a clause here)
        cache = {"fock_clause": (K_LOOSE * eps_eff, "user scf_eps %g, tolerance %g => documented SCF threshold %g" % (eps, tol, eps_eff))}
        rec = _judge(acc, mol, 0, {"xm": xm, "tol": tol, "n_req": n_req, "solver": solver, "start": "default-guess",
                                   "label": "user scf_eps=%g (> 0.1 x tolerance)" % eps, "iters": info["iters"],
                                   "stag": info["stagnation"]}, cache, do_sigma=False)
        obs["runs"]["%g" % eps] = {"E": rec["E"][:n_req].tolist(), "Etot": rec["Etot"]}
        if not rec.get("ok"):
            continue
        if not (abs(rec["Etot"] - rec_t["Etot"]) <= 1e-2):
            acc.m("cross_run_skipped_different_scf_solution")
            continue
        n = min(n_req, len(rec["E"]), len(spec))
        eb = max(rec["rpa_bound"][:n]) if "rpa_bound" in rec else math.sqrt(len(rec["E"]) * rec["ref"]["nov"]) * tol + EIG_ABS
        bound = eb + K_LOOSE * eps_eff + 1e4 * SCF_EPS
        dev = float(np.abs(rec["E"][:n] - spec[:n]).max())
        acc.m("loose_user_eps_roots_vs_tight_reference", n)
        if acc.margin("roots_vs_tight_scf_reference", dev, bound):
            acc.v("roots-differ-from-tight-scf-reference", "loose-user-scf-eps-not-tightened-to-documented-threshold",
                  user_scf_eps=eps, tol=tol, documented_scf_threshold=eps_eff, deviation=dev, bound=bound,
                  returned=rec["E"][:n].tolist(), dense_of_tight_scf=spec[:n].tolist(),
                  scf_eps_in_settings_after_build=float(getattr(mol, "seqm_parameters", {}).get("scf_eps", float("nan"))),
                  dEtot=rec["Etot"] - rec_t["Etot"])
    return _finish(acc, obs)


def _mreeval(case, acc):
    """2nd / 3rd evaluation of ONE Molecule object holding a mixed batch with duplicate (nocc, norb) groups"""
    import torch
    n_req, tol, method = case["n_states"], case["tol"], case["method"]
    gs = [geometry(sp) for sp in case["geoms"]]
    names = [sp["mol"] for sp in case["geoms"]]
    nb = len(gs)
    qs = [g[2] for g in gs]
    sett = _settings(method, "cis", n_req, tol)
    Xcur = [np.array(g[1], float) for g in gs]

    def padded():
        return gen.pad_batch([(gs[b][0], Xcur[b]) for b in range(nb)], extra_pad=case.get("extra_pad", 0), pad_value=0.0)

    S, C = padded()
    mol, es, info = _fresh(S, C, sett, qs if any(qs) else 0, 1)
    obs = {"molecules": names, "E": []}
    if info["raised"]:
        _note_raise(acc, info, "mreeval-first")
        return _finish(acc, obs)
    hetero = info.get("path") == "rcis_any_batch"
    solver = "rcis-any-batch" if hetero else "rcis-batch"
    keys = [(int(mol.nocc[b]), int(mol.norb[b])) for b in range(nb)]
    dup = [keys.count(k) > 1 for k in keys]
    cache = {}
    for b in range(nb):
        if _scf_ok(info, b):
            _judge(acc, mol, b, {"xm": "cis", "tol": tol, "n_req": n_req, "hetero": hetero, "solver": solver, "start": "default-guess",
                                 "label": "first evaluation, row %d (%s)" % (b, names[b]), "iters": info["iters"],
                                 "stag": info["stagnation"]}, cache, do_sigma=(b == 0))
            if hetero:
                acc.m("mixed_batch_mols_judged")
    gd = np.random.default_rng(case["disp_seed"])
    for t in range(1, case.get("steps", 2) + 1):
        for b in range(nb):
            Xcur[b] = gen.distort(Xcur[b], gd, sigma=case["displacement"])
            with torch.no_grad():
                mol.coordinates[b, : len(gs[b][0])] = torch.as_tensor(Xcur[b], dtype=mol.coordinates.dtype)
        info = _call(es, mol, **({"P0": mol.dm} if case.get("reuse_P0") else {}))
        S, C = padded()
        mol_f, es_f, info_f = _fresh(S, C, sett, qs if any(qs) else 0, 1)      # history-free arm
        if info["raised"]:
            _one_arm_exception(acc, info, not info_f["raised"], "mixed-batch-reevaluation", evaluation=t + 1, molecules=names)
            break
        if info_f["raised"]:
            _one_arm_exception(acc, info_f, True, "mixed-batch-fresh", evaluation=t + 1, molecules=names)
        cache, cache_f = {}, {}
        obs["E"].append(mol.cis_energies.detach().cpu().numpy()[:, :n_req].tolist())
        for b in range(nb):
            if not _scf_ok(info, b):
                acc.m("scf_not_converged")
                continue
            nocc, norb = keys[b]
            e = mol.e_mo[b].detach().cpu().numpy()[:norb]
            reordered = bool(np.any(np.diff(e[:nocc]) < 0) or np.any(np.diff(e[nocc:]) < 0))
            rec = _judge(acc, mol, b, {"xm": "cis", "tol": tol, "n_req": n_req, "hetero": hetero, "solver": solver,
                                       "start": "default-guess",
                                       "label": "evaluation %d of the same Molecule, row %d (%s), (nocc, norb) shared: %s, MO order changed: %s"
                                                % (t + 1, b, names[b], dup[b], reordered),
                                       "iters": info["iters"], "stag": info["stagnation"]}, cache, do_sigma=True)
            acc.m("reevaluated_rows")
            if hetero:
                acc.m("mixed_batch_mols_judged")
            if dup[b] and hetero:
                acc.m("reevaluated_duplicate_group_rows")
                if reordered:
                    acc.m("reevaluated_duplicate_group_rows_with_mo_reorder")
                    acc.cells.append("mreeval/duplicate-group/mo-reordered/eval%d" % (t + 1))
            if info_f["raised"] or not _scf_ok(info_f, b):
                continue
            rec_f = _judge(acc, mol_f, b, {"xm": "cis", "tol": tol, "n_req": n_req, "hetero": hetero, "solver": solver,
                                           "start": "default-guess", "label": "fresh Molecule at the geometry of evaluation %d, row %d (%s)"
                                                                              % (t + 1, b, names[b]),
                                           "iters": info_f["iters"], "stag": info_f["stagnation"]}, cache_f, do_sigma=False)
            _compare_runs(acc, rec_f, rec, tol, tol, n_req, rec["ref"]["nov"], "reevaluated-mixed-batch-vs-fresh",
                          "history-dependent-%s-reevaluation" % solver)
    return _finish(acc, obs)


def _mbatch(case, acc):
    n_req, tol, method = case["n_states"], case["tol"], case["method"]
    gs = [geometry(s) for s in case["geoms"]]
    S, C = gen.pad_batch([(g[0], g[1]) for g in gs], extra_pad=case.get("extra_pad", 0), pad_value=case.get("pad", 0.0),
                         g=np.random.default_rng(case.get("pad_seed", 0)))
    qs = [g[2] for g in gs]
    sett = _settings(method, "cis", n_req, tol)
    mol, es, info = _fresh(S, C, sett, qs if any(qs) else 0, 1)
    obs = {"molecules": [s["mol"] for s in case["geoms"]], "path": info.get("path")}
    if info["raised"]:
        _note_raise(acc, info, "mbatch")
        return _finish(acc, obs)
    hetero = info.get("path") == "rcis_any_batch"
    solver = "rcis-any-batch" if hetero else "rcis-batch"
    obs["E_batch"] = mol.cis_energies.detach().cpu().numpy().tolist()
    obs["iters"] = info["iters"]
    cache = {}
    for b, gsp in enumerate(gs):
        if not _scf_ok(info, b):
            acc.m("scf_not_converged")
            continue
        rec = _judge(acc, mol, b, {"xm": "cis", "tol": tol, "n_req": n_req, "hetero": hetero, "solver": solver,
                                   "start": "default-guess", "label": "molecule %d (%s) of mixed batch" % (b, case["geoms"][b]["mol"]),
                                   "iters": info["iters"], "stag": info["stagnation"]}, cache)
        if hetero:
            acc.m("mixed_batch_mols_judged")
        mol1, es1, info1 = _fresh(gsp[0], gsp[1], sett, gsp[2], gsp[3])
        if info1["raised"] or not _scf_ok(info1):
            if info1["raised"]:
                _note_raise(acc, info1, "cis-alone")
            continue
        alone = _judge(acc, mol1, 0, {"xm": "cis", "tol": tol, "n_req": n_req, "solver": "rcis-batch", "start": "default-guess",
                                      "label": "%s alone" % case["geoms"][b]["mol"], "iters": info1["iters"], "stag": info1["stagnation"]}, {}, do_sigma=False)
        _compare_runs(acc, alone, rec, tol, tol, n_req, rec["ref"]["nov"], "mixed-batch-vs-alone", "batch-dependent-%s" % solver)
    return _finish(acc, obs)


def run_case(case):
    if not _H["ok"]:
        return {"inconclusive": "required symbol missing in the repository: %s" % _H["missing"]}
    acc = Acc()
    kind = case["kind"]
    if kind in ("point", "window"):
        return _point(case, acc)
    if kind == "seq":
        return _seq(case, acc)
    if kind == "hbatch":
        return _hbatch(case, acc)
    if kind == "ubatch":
        return _ubatch(case, acc)
    if kind == "maxiter":
        return _maxiter(case, acc)
    if kind == "lbatch":
        return _lbatch(case, acc)
    if kind == "leps":
        return _leps(case, acc)
    if kind == "mreeval":
        return _mreeval(case, acc)
    if kind == "mbatch":
        return _mbatch(case, acc)
    raise ValueError("unknown case kind %r" % kind)


def summarize(cases, results, report):
    """aggregate the informational maxima, the loud solver outcomes and the mechanisms seen"""
    info, raised, mechs = {}, {}, {}
    for r in results:
        if not isinstance(r, dict):
            continue
        o = r.get("obs") or {}
        for k, v in (o.get("info") or {}).items():
            if k not in info or v > info[k]:
                info[k] = v
        for n in o.get("notes") or []:
            key = n[:160]
            raised[key] = raised.get(key, 0) + 1
        for v in r.get("violations") or []:
            mechs[v.get("mech")] = mechs.get(v.get("mech"), 0) + 1
    return {"informational_maxima": info, "loud_solver_outcomes": dict(sorted(raised.items(), key=lambda kv: -kv[1])[:25]),
            "violation_mechanisms": mechs}
