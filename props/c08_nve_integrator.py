"""C08 -- NVE Born-Oppenheimer dynamics: second order, time reversible, momentum conserving, honest bookkeeping.

Technique: offline checkers over the HDF5 files left behind by REAL `Molecular_Dynamics_Basic.run`
calls, related by dt-halving and by velocity reversal, plus independent single points at stored
coordinates and live unit-constant identities.

clauses (names as they appear in `margins` / violations)
  P-conservation      |P(s)-P(0)| <= 1e-12 * sum m|v|  (+ 16 eps_mach cond(I) per angular COM removal)   (a)
  L-conservation      |L(s)-L(0)| <= 1e-8 * sum m|r||v| + 2e3*eps*ACC*t*sum|r|            (a)
  com-linear-* / com-angular-*   supplied velocities WITH net angular (separately: net linear) momentum x remove_com in
                      {None, ('linear',1), ('linear',5), ('angular',n)}, each mode judged against what it is documented to do:
                      None conserves P and L (bounds above); ('linear',n): |P| <= (f+1e-12) scale on every row after the first
                      removal AND L unchanged (bound of L-conservation + f scale); ('angular',n): P and L both vanish;
                      f = 1e-12 + 16 eps_mach cond(I)                                                   (a)
  continue-*          run A -> state changed without an MD step (switch to S1 + esdriver call | geometry displaced + esdriver call |
                      geometry displaced + force = None) -> run B on the SAME Molecule: all row clauses on run B incl. vv-x / vv-v
                      with ITS stored forces, step 0 = the carried state (1e-15), coordinates / velocities / Ek+Ep equal to a
                      fresh Molecule started from the same (x, v) on the same surface (1e-7), order ratio of B in [3, 5.5]
  cadence cells       Ek/T rows, P-conservation, verlet-x-v (x(n+2)-x(n) = 2 dt v(n+1), 1e-13 + 1e-12 |dx|), F-sp / Ep-sp observed THROUGH
                      UNEQUAL stream cadences (e.g. coordinates 2 / velocities 1 / forces 3, coordinates disabled): each stream row is
                      what its name and step label say
  eps-* / looseeps-*  excited-surface NVE whose user scf_eps (1e-3..1e-5) is looser than 0.1 x CIS tolerance: the reported scf_eps is
                      <= 0.1 tol, the live solver threshold equals the reported one, dt-halving clauses hold at the tightened
                      threshold, and the trajectory equals (1e-9 A / eV) that of a run whose user scf_eps IS the tightened value
  split-invariance / noreuse-reversal-x   reuse_P=False on analytical / semi-numerical / excited-surface forces: 2N steps == N + N steps
                      bit for bit (coordinates, velocities, forces), and (x_2N, -v_2N) retraces within 5e-9 A
  reversal-x/-v       restart from (x_N, -v_N) for N steps returns to (x_0, -v_0): 1e-7 A / 1e-8 A/fs  (b)
  order               ||x_dt - x_dt/2|| / ||x_dt/2 - x_dt/4|| in [3, 5.5] at the common end time  (c)
  energy-std-scaling  std of E(t)-E(0), E=Ek+Ep, on the common time grid shrinks by [2.8, 5.6] per halving of dt   (d)
  energy-residual-*   "no drift beyond what dt^2 and the SCF threshold explain": with e(t;dt)=E(t)-E(0) on the common
                      grid, r(t) = (4 e(t;dt/2) - e(t;dt))/3 is the dt-independent residual (+ O(dt^4)); pointwise
                      max|r| and windowed drift |mean_last_third r - mean_first_third r| must both be
                      <= RESID_K*dt^2 * max|e(t;dt)| + 100*eps*N + 5e-6 eV (piecewise-smooth energy function, see PES_STEP)  (d)
  Ek-row / T-row      stored Ek(s), T(s) recomputed from /velocities(s) (live constants 1e-12, CODATA 1e-6,
                      n_dof = 3N - {0,3,6} for remove_com None/linear/angular as documented; 3N-5 also accepted
                      under 'angular' when the real atoms are collinear, e.g. any diatomic)               (e)
  Ep-sp / F-sp        stored Ep(s), /forces(s) vs an independent cold single point at /coordinates(s):
                      1e-8 + 20 eps eV, 1e-6 + 2e3 eps eV/A (C04 algebra)                          (e)
  dipole-sp / state-energy-active / excitation-sp   the other published /data rows of step s belong to the coordinates of step s:
                      properties/ground_dipole[s] = single-point dipole (1e-6), excitation/state_energies[s, active] = Ep[s]
                      (1e-10), state_energies[s,1:]-[s,0] = single-point CIS energies (1e-6)                          (e)
  steps-rows          every stream has rows 0..N exactly                                            (e)
                      batches are written with output selections molid in {[1], [1,0], [2,0], all}: every row clause is
                      evaluated per FILE md.<mol>.h5 against that molecule's own velocities / single point
  vv-x / vv-v         documented velocity-Verlet recurrences between consecutive stored rows with the
                      CODATA acceleration constant: relative 1e-6 of the largest increment      (aux of c/e)
  const-*             KE*ACC = 1, KE*VEL^2*TEMP = 1 (1e-6), each constant within 1e-6 of CODATA 2018  (f)
"""
import math

import numpy as np

from vlib import gen

PROPERTY = "C08"
RULE = ("case kinds: 'family' = one system (molecule or zero-padded mixed batch, distorted, generic orientation, "
        "supplied velocities with zero net P and L at temperature T) run with the real Molecular_Dynamics_Basic at "
        "dt, dt/2, dt/4(, dt/8) to a common end time; 'reversal' = forward N steps then restart from (x_N,-v_N); "
        "'fresh' = Maxwell-Boltzmann draw by the engine (seeded) with remove_com None/linear/angular; 'constants'. "
        "A case is non-trivial when every run finished and >= 1 molecule produced every judged row; distinct by SHA-1")
ASSUMPTIONS = ["float64 CPU, scf_eps 1e-10 so that SCF noise (<=2e-7 eV/A in forces) is far below every bound",
               "generic orientation (every pair vector >= 5 deg from every Cartesian axis) so that DESIGN row 2 "
               "(frame pole at +-x) is not what is being measured here",
               "dt <= 0.4 fs: omega_max*dt <= 0.3, asymptotic dt^2 regime",
               "velocity-Verlet recurrence clause relies on docs/source/bomd.rst naming the integrator",
               "atomic masses of the shipped table are the property's given"]
REQUIRED_MONITORS = ["md_runs", "rows_checked", "order_ratios", "energy_ratios", "reversal_pairs", "single_points",
                     "constants_checked", "molid_subset_files", "momentum_mode_files", "net_L_files", "net_P_files", "continuations", "loose_eps_excited_cells",
                     "noreuse_nonautograd_cells", "dipole_rows", "state_energy_rows", "unequal_cadence_rows"]
CASE_TIMEOUT = 1500.0
BUDGET_S = {"quick": 200, "thorough": 1700}

EPS = 1e-10
CIS_TOL = 1e-9  # Davidson and Z-vector tolerance of the excited-surface cells
PES_STEP = 5e-6  # eV.  The energy function is only piecewise smooth: the overlap auxiliary-integral series switch gives steps of
# ~1.2-1.5 micro-eV in Etot (measured: AM1 C-H pair at R = 1.0646 A, where R*(zeta_p(C)-zeta_s(H))/2 crosses 0.5; ground and
# excited surface alike, cold single points reproduce it to 1e-10).  A trajectory that crosses such a surface carries a bounded,
# dt-independent +-step in Ek+Ep; a few of them are allowed for (no secular drift results: the step is undone on the way back).
TOL_P = 1e-12
TOL_L = 1e-8
TOL_REV_X = 1e-7
TOL_REV_V = 1e-8
TOL_REV_NOREUSE = 5e-9  # retrace with reuse_P=False: F is a function of x alone (measured 2.6e-10 A at scf_eps 1e-7)
ORDER_LO, ORDER_HI = 3.0, 5.5
STD_LO, STD_HI = 2.8, 5.6
RESID_K = 1.0  # allowed dt-independent residual, as a fraction of the dt^2 energy-error scale: RESID_K*dt^2 (dt in fs);
# theory (omega_max dt)^2/4 ~ 0.12 dt^2, measured 0.04 dt^2 (H2O, CH2O S1, CH3OH, NH3)
TOL_ROW_LIVE = 1e-12
TOL_ROW_REF = 1e-6
TOL_VV = 1e-6
TOL_CONST = 1e-6
ASYMPT_DT = 0.4  # fs; largest dt of a pair used by the energy scaling clauses


# ---------------------------------------------------------------------------------------
def gen_cases(tier, seed):
    g = gen.rng("C08", tier)

    def s():
        return int(g.integers(0, 2 ** 31))

    cases = []
    if tier == "quick":
        fam = [
            dict(mols=["H2O"], method="AM1", dts=[0.4, 0.2, 0.1, 0.05], t_end=4.0, reuse_P=True, remove_com=None),
            dict(mols=["NH3", "CH2O"], method="AM1", dts=[0.4, 0.2, 0.1], t_end=4.0, reuse_P=True, remove_com=None, molid=[1, 0]),
            dict(mols=["H2O"], method="PM3", dts=[0.2, 0.1, 0.05], t_end=4.0, reuse_P=False, remove_com=["angular", 3]),
            dict(mols=["HCN"], method="MNDO", dts=[0.4, 0.2, 0.1], t_end=4.0, reuse_P=True, remove_com=["linear", 1]),
        ]
        rev = [dict(mols=["H2O"], method="AM1", dt=0.2, n=20, reuse_P=True, remove_com=None),
               dict(mols=["CH4", "H2O"], method="PM3", dt=0.1, n=16, reuse_P=False, remove_com=["linear", 2])]
        fresh = [dict(mols=["H2O", "CH4", "NH3"][:nm], method="AM1", dt=0.2, n=12, remove_com=rc, reuse_P=True, molid=mi)
                 for rc, nm, mi in ((None, 2, [1]), (["linear", 1], 2, None), (["angular", 2], 3, [2, 0]))]
        fresh.append(dict(mols=["CO2"], method="AM1", dt=0.2, n=10, remove_com=["angular", 1], reuse_P=False))
    else:
        fam = []
        for mols, method in ((["H2O"], "AM1"), (["CH2O"], "AM1"), (["NH3"], "PM3"), (["CH3OH"], "AM1"),
                             (["H2O"], "MNDO"), (["HCN"], "PM3"), (["NH3", "CH2O", "H2O"], "AM1"),
                             (["CH4", "H2O"], "PM6_SP"), (["H2S"], "PM3"), (["CO2"], "AM1")):
            variants = [(True, None), (False, ["angular", 3]) if len(fam) % 4 < 2 else (True, ["linear", 1])]
            for rp, rc in variants:
                fam.append(dict(mols=mols, method=method, dts=[0.4, 0.2, 0.1, 0.05], t_end=8.0, reuse_P=rp,
                                remove_com=rc))
                if len(mols) > 1:
                    fam[-1]["molid"] = [[1], [1, 0], [2, 0], [2, 1, 0]][len(fam) % 4 if len(mols) > 2 else len(fam) % 2]
        fam.append(dict(mols=["CH2O"], method="AM1", dts=[0.2, 0.1, 0.05], t_end=4.0, reuse_P=True, remove_com=None,
                        excited=True))
        fam.append(dict(mols=["H2O"], method="AM1", dts=[0.2, 0.1, 0.05], t_end=4.0, reuse_P=False, remove_com=None,
                        excited=True))
        # CH4 has 3-fold degenerate orbitals (orbital tracking permutations incl. 3-cycles): one dt only, i.e. no scaling clause
        # (Jahn-Teller cusps of the lowest root); what is judged is Ep / forces against cold single points every 2nd row
        # (hot, nearly tetrahedral replicas in one homogeneous batch: the t2 / t2* levels cross repeatedly once the atoms move)
        fam.append(dict(mols=["CH4"] * 8, method="AM1", dts=[0.25], t_end=12.5, reuse_P=True, remove_com=None, excited=True, sp_every=3,
                        T=1500.0, sigma=[0.003, 0.01, 0.03]))
        fam.append(dict(mols=["CH4"] * 6, method="PM3", dts=[0.25], t_end=10.0, reuse_P=False, remove_com=None, excited=True, sp_every=3,
                        T=1500.0, sigma=[0.003, 0.01]))
        rev = []
        for mols, method in ((["H2O"], "AM1"), (["CH2O"], "PM3"), (["NH3", "CH2O"], "AM1"), (["CH3OH"], "MNDO"),
                             (["CH4", "H2O"], "AM1"), (["HCN"], "AM1")):
            for dt, n in ((0.2, 40), (0.05, 60)):
                rev.append(dict(mols=mols, method=method, dt=dt, n=n, reuse_P=bool(len(rev) % 2 == 0),
                                remove_com=[None, ["linear", 2], ["angular", 5]][len(rev) % 3]))
        rev.append(dict(mols=["CH2O"], method="AM1", dt=0.1, n=20, reuse_P=True, remove_com=None, excited=True))
        fresh = []
        for mols, method in ((["H2O", "CH4"], "AM1"), (["CO2"], "AM1"), (["CH3OH"], "PM3"), (["H2", "HCN", "NH3"], "AM1"),
                             (["CH2O"], "MNDO")):
            for rc in (None, ["linear", 1], ["linear", 4], ["angular", 1], ["angular", 3]):
                fresh.append(dict(mols=mols, method=method, dt=[0.5, 0.2, 1.0][len(fresh) % 3], n=16, remove_com=rc,
                                  reuse_P=bool(len(fresh) % 2)))
                if len(mols) > 1 and len(fresh) % 3:
                    fresh[-1]["molid"] = [[1], [1, 0], [2, 0]][len(fresh) % 3 if len(mols) > 2 else len(fresh) % 2]
    for f in fam:
        f.setdefault("T", 300.0)
        f.update(kind="family", geom_seed=s())
        cases.append(f)
    for r in rev:
        r.update(kind="reversal", T=300.0, geom_seed=s())
        cases.append(r)
    for f in fresh:
        f.update(kind="fresh", T=300.0, geom_seed=s(), md_seed=int(g.integers(0, 10 ** 6)))
        cases.append(f)
    cont = [dict(mol="CH2O", method="AM1", mod="switch-state", dtA=0.2, nA=4, dts=[0.4, 0.2, 0.1], t_end=1.6),
            dict(mol="H2O", method="AM1", mod="displace-force-none", dtA=0.2, nA=5, dts=[0.2, 0.1, 0.05], t_end=2.0)]
    if tier != "quick":
        cont += [dict(mol="H2O", method="PM3", mod="displace-esdriver", dtA=0.5, nA=6, dts=[0.2, 0.1, 0.05], t_end=4.0),
                 dict(mol="NH3", method="AM1", mod="displace-force-none", dtA=0.2, nA=8, dts=[0.4, 0.2, 0.1], t_end=4.0),
                 dict(mol="CH2O", method="AM1", mod="switch-state", dtA=0.5, nA=8, dts=[0.2, 0.1, 0.05], t_end=3.0),
                 dict(mol="H2O", method="AM1", mod="switch-state", dtA=0.2, nA=6, dts=[0.2, 0.1, 0.05], t_end=2.0),
                 dict(mol="CH3OH", method="MNDO", mod="displace-esdriver", dtA=0.2, nA=5, dts=[0.4, 0.2, 0.1], t_end=4.0)]
    for c_ in cont:
        c_.update(kind="continue", T=300.0, geom_seed=s())
        cases.append(c_)
    loose = [dict(mol="CH2O", method="AM1", user_eps=1e-4, cis_tol=1e-6, dts=[0.1, 0.05], t_end=2.0)]
    noreuse = [dict(mol="H2O", method="AM1", force="analytical", dt=0.5, n=6, eps=1e-7),
               dict(mol="CH2O", method="AM1", force="excited", dt=0.5, n=6, eps=1e-7)]
    if tier != "quick":
        loose += [dict(mol="CH2O", method="PM3", user_eps=1e-5, cis_tol=1e-6, dts=[0.2, 0.1, 0.05], t_end=4.0),
                  dict(mol="H2O", method="AM1", user_eps=1e-3, cis_tol=1e-7, dts=[0.1, 0.05], t_end=3.0),
                  dict(mol="NH3", method="AM1", user_eps=1e-4, cis_tol=1e-5, dts=[0.2, 0.1], t_end=4.0)]
        noreuse += [dict(mol="NH3", method="PM3", force="analytical", dt=0.2, n=10, eps=1e-6),
                    dict(mol="CH2O", method="AM1", force="numerical", dt=0.5, n=6, eps=1e-7),
                    dict(mol="H2O", method="AM1", force="excited", dt=0.25, n=10, eps=1e-6),
                    dict(mol="CH3OH", method="MNDO", force="analytical", dt=0.5, n=8, eps=1e-8),
                    dict(mol="CH2O", method="PM3", force="excited", dt=0.5, n=8, eps=1e-8)]
    cad = [dict(mols=["H2O"], method="AM1", cad=dict(data=1, coordinates=2, velocities=1, forces=3), molid=None, dt=0.2, n=12),
           dict(mols=["NH3", "H2O"], method="PM3", cad=dict(data=1, coordinates=0, velocities=1, forces=2), molid=[1, 0], dt=0.2, n=12)]
    if tier != "quick":
        cad += [dict(mols=["CH2O"], method="AM1", cad=dict(data=2, coordinates=2, velocities=1, forces=4), molid=None, dt=0.5, n=16),
                dict(mols=["H2O", "CH4"], method="AM1", cad=dict(data=1, coordinates=4, velocities=1, forces=1), molid=[1], dt=0.2, n=16),
                dict(mols=["NH3"], method="MNDO", cad=dict(data=3, coordinates=0, velocities=1, forces=3), molid=None, dt=0.2, n=15),
                dict(mols=["CH3OH"], method="PM3", cad=dict(data=1, coordinates=1, velocities=2, forces=3), molid=None, dt=0.2, n=12)]
    for c_ in cad:
        c_.update(kind="cadence", T=300.0, geom_seed=s())
        cases.append(c_)
    for c_ in loose:
        c_.update(kind="loose-eps", T=300.0, geom_seed=s())
        cases.append(c_)
    for c_ in noreuse:
        c_.update(kind="noreuse", T=300.0, geom_seed=s())
        cases.append(c_)
    mom = [dict(mols=["H2O", "CH4"], method="AM1", variant="net-angular", dt=0.5, n=8),
           dict(mols=["NH3"], method="PM3", variant="net-linear", dt=0.5, n=8)]
    if tier != "quick":
        mom += [dict(mols=m_, method=me, variant=v_, dt=dt_, n=12)
                for m_, me in ((["CH2O"], "AM1"), (["CH3OH", "H2O"], "PM3"), (["HCN", "NH3"], "AM1"), (["H2O"], "MNDO"))
                for v_, dt_ in (("net-angular", 0.2), ("net-linear", 1.0))]
    for m_ in mom:
        m_.update(kind="momentum", T=300.0, geom_seed=s(),
                  modes=[None, ["linear", 1], ["linear", 5], ["angular", 2]] if m_["variant"] == "net-angular"
                  else [None, ["linear", 1], ["linear", 5], ["angular", 1]])
        cases.append(m_)
    cases.append({"kind": "constants"})
    cases.sort(key=lambda c: -_cost(c))
    return cases


def _cost(c):
    if c["kind"] == "family":
        return sum(c["t_end"] / dt for dt in c["dts"]) * len(c["mols"]) ** 0.5
    if c["kind"] == "reversal":
        return 2 * c["n"]
    if c["kind"] == "fresh":
        return c["n"]
    if c["kind"] == "momentum":
        return c["n"] * len(c["modes"])
    if c["kind"] == "cadence":
        return 1.5 * c["n"] * len(c["mols"]) ** 0.5
    if c["kind"] == "loose-eps":
        return (sum(c["t_end"] / dt for dt in c["dts"]) + c["t_end"] / c["dts"][0]) * 2.5
    if c["kind"] == "noreuse":
        return 8 * c["n"] * (2.5 if c["force"] == "excited" else 1.0)
    if c["kind"] == "continue":
        return (sum(c["t_end"] / dt for dt in c["dts"]) + 3 * c["nA"]) * (2.5 if c["mod"] == "switch-state" else 1.0)
    return 0


# ---------------------------------------------------------------------------------------
# worker side
# ---------------------------------------------------------------------------------------
def _mx(values):
    """maximum that propagates NaN (python's max() silently skips it)."""
    a = np.asarray(list(values), dtype=float)
    return float(np.max(a)) if a.size else 0.0


def _settings(case):
    from vlib import run

    if case.get("excited"):
        return run.settings(case["method"], eps=EPS, converger=(2,),
                            excited={"n_states": 3, "tolerance": case.get("cis_tol", CIS_TOL), "method": "cis"}, active_state=1)
    return run.settings(case["method"], eps=EPS, converger=(2,))


def _system(case):
    """-> species [B][M], coords [B][M][3] (lists), supplied velocities [B][M][3] (numpy), real-atom Z per molecule"""
    from vlib import md

    g = np.random.default_rng(case["geom_seed"])
    mols = []
    for name in case["mols"]:
        Z, X, q, m = gen.molecule(name)
        sig = case.get("sigma", 0.03)
        X = gen.distort(X, g, sigma=sig if not isinstance(sig, list) else sig[len(mols) % len(sig)])
        X = X @ gen.generic_rotation(X, g).T
        mols.append((Z, X))
    S, C = gen.pad_batch(mols)
    V = np.array([md.supplied_velocities(s_, np.array(c_), case["T"], g) for s_, c_ in zip(S, C)])
    return S, C, V, [z for z, _ in mols]


def _ndof_rule(nat, remove_com):
    if remove_com is None:
        return 3.0 * nat
    return 3.0 * nat - (6.0 if str(remove_com[0]).lower() == "angular" else 3.0)


class _Acc:
    """collects margins / violations / monitors for one case."""

    def __init__(self, case):
        self.case = case
        self.margins = {}
        self.viol = []
        self.mon = {k: 0 for k in REQUIRED_MONITORS}
        self.cells = []

    def upd(self, name, val, tol, detail=None, mech=None):
        r = float(val) / float(tol) if tol > 0 else (0.0 if val == 0 else float("inf"))
        if not (r <= self.margins.get(name, -1.0)):
            self.margins[name] = r
        if not (r <= 1.0):
            d = {"value": float(val), "bound": float(tol)}
            d.update(detail or {})
            self.viol.append({"clause": name, "mech": mech, "detail": d})
            return True
        return False

    def flag(self, name, bad, detail=None, mech=None):
        """exact (bitwise / boolean) clause."""
        self.margins[name] = max(self.margins.get(name, 0.0), 2.0 if bad else 0.0)
        if bad:
            self.viol.append({"clause": name, "mech": mech, "detail": detail or {}})

    def window(self, name, ratio, lo, hi, detail=None, centre=4.0):
        """ratio must lie in [lo, hi]; margin is the log-distance from the ideal value 4 relative to the bound."""
        if not (ratio > 0) or not math.isfinite(ratio):
            r = float("inf")
        else:
            lr = math.log(ratio / centre)
            r = lr / math.log(hi / centre) if lr >= 0 else lr / math.log(lo / centre)
        if not (r <= self.margins.get(name, -1.0)):
            self.margins[name] = r
        if not (r <= 1.0):
            d = {"ratio": float(ratio), "window": [lo, hi]}
            d.update(detail or {})
            self.viol.append({"clause": name, "mech": None, "detail": d})

    def result(self, nontrivial, obs):
        return {"nontrivial": bool(nontrivial), "violations": self.viol, "margins": self.margins, "monitors": self.mon,
                "cells": sorted(set(self.cells)), "obs": obs}


def _pole_mech(Zr, xs):
    """DESIGN row 2 classifier: a p-bearing pair within 1e-3 rad of +-x at some stored step."""
    best = 9.0
    for x in xs:
        for i in range(len(Zr)):
            for j in range(i + 1, len(Zr)):
                if Zr[i] > 1 or Zr[j] > 1:
                    v = x[j] - x[i]
                    v = v / np.linalg.norm(v)
                    best = min(best, math.acos(min(1.0, abs(v[0]))))
    return "pair-on-x-pole" if best < 1e-3 else None


def _check_run(acc, h, Zr, dt, nsteps, remove_com, t_total, tag, eps=None):
    """clauses (a), (e rows), vv recurrence for ONE molecule's HDF5 record."""
    from vlib import md

    mm = md.masses(Zr)
    live = md.live_constants()
    nat = len(Zr)
    want = np.arange(nsteps + 1)
    ok = True
    for name in ("data_steps", "coordinates_steps", "velocities_steps", "forces_steps"):
        got = h.get(name)
        if got is None or len(got) != len(want) or np.any(np.asarray(got) != want):
            acc.upd("steps-rows", 1.0, 0.5, {"stream": name, "got": None if got is None else np.asarray(got).tolist()[:50],
                                             "want_last": int(nsteps), "run": tag})
            ok = False
    if not ok:
        return False
    acc.upd("steps-rows", 0.0, 0.5)
    x, v, f = h["coordinates"], h["velocities"], h["forces"]
    if not (np.isfinite(x).all() and np.isfinite(v).all() and np.isfinite(f).all()):
        acc.upd("finite", 1.0, 0.5, {"run": tag})
        return False
    # (a) conservation
    PL = [md.momenta(mm, x[s_], v[s_]) for s_ in range(len(x))]
    sc = [md.momentum_scales(mm, x[s_], v[s_]) for s_ in range(len(x))]
    ps, ls = _mx(a for a, _ in sc), _mx(b for _, b in sc)
    dP = _mx(np.abs(p[0] - PL[0][0]).max() for p in PL)
    dL = _mx(np.abs(p[1] - PL[0][1]).max() for p in PL)
    rsum = float(np.linalg.norm(x[0] - md.com(mm, x[0]), axis=1).sum())
    mech = None
    tolL = TOL_L * ls + 2e3 * (EPS if eps is None else eps) * md.REF_ACC_SCALE * t_total * rsum
    if dL > tolL:
        mech = _pole_mech(Zr, x)
    tolP = TOL_P
    if remove_com is not None and str(remove_com[0]).lower() == "angular":
        # each angular removal subtracts omega x r with |omega| <= |L|/I_min: rounding ~ eps_machine * cond(I) per call
        w = np.linalg.eigvalsh(md.inertia(mm, x[0] - md.com(mm, x[0])))
        w = w[w > 1e-10]
        ncall = 1 + nsteps // max(1, int(remove_com[1]))
        tolP += 16.0 * 2.220446049250313e-16 * float(w.max() / w.min()) * ncall
    acc.upd("P-conservation", dP, tolP * ps, {"run": tag, "scale": ps, "rel_tolerance": tolP})
    acc.upd("L-conservation", dL, tolL, {"run": tag, "scale": ls}, mech=mech)
    # (e) rows
    ek_amu = np.array([md.kinetic_amu(mm, v[s_]) for s_ in range(len(v))])
    Ek, T = h["Ek"], h["T"]
    nds = [_ndof_rule(nat, remove_com)]
    if remove_com is not None and str(remove_com[0]).lower() == "angular" and md.inertia_rank(mm, x[0]) < 3:
        nds.append(3.0 * nat - 5.0)  # linear arrangement (always for a diatomic): two rotations only
    nds = [n_ for n_ in nds if n_ > 0]
    sE = max(np.abs(Ek).max(), 1e-300)
    acc.upd("Ek-row-live", np.abs(ek_amu * live["KINETIC_ENERGY_SCALE"] - Ek).max() / sE, TOL_ROW_LIVE, {"run": tag})
    acc.upd("Ek-row-codata", np.abs(ek_amu * md.REF_KE_SCALE - Ek).max() / sE, TOL_ROW_REF, {"run": tag})
    sT = max(np.abs(T).max(), 1e-300) if np.isfinite(T).all() else float("nan")
    if not nds or not np.isfinite(T).all():
        acc.upd("T-row-live", float("nan"), TOL_ROW_LIVE, {"run": tag, "n_dof_allowed": nds, "T_finite": bool(np.isfinite(T).all())})
        nds = nds or [1.0]
    acc.upd("T-row-live", min(np.abs(2.0 * Ek * live["TEMPERATURE_SCALE"] / nd - T).max() / sT for nd in nds), TOL_ROW_LIVE,
            {"run": tag, "n_dof_allowed": nds})
    acc.upd("T-row-codata", min(np.abs(2.0 * ek_amu * md.REF_KE_SCALE * md.REF_TEMP_SCALE / nd - T).max() / sT for nd in nds),
            TOL_ROW_REF, {"run": tag, "n_dof_allowed": nds})
    # documented velocity-Verlet recurrences between consecutive stored rows
    a = f * md.REF_ACC_SCALE / mm[None, :, None]
    ex = x[1:] - (x[:-1] + dt * v[:-1] + 0.5 * dt * dt * a[:-1])
    ev = v[1:] - (v[:-1] + 0.5 * dt * (a[:-1] + a[1:]))
    acc.upd("vv-x", np.abs(ex).max(), TOL_VV * np.abs(x[1:] - x[:-1]).max() + 1e-14, {"run": tag})
    acc.upd("vv-v", np.abs(ev).max(), TOL_VV * np.abs(v[1:] - v[:-1]).max() + 1e-14, {"run": tag})
    acc.mon["rows_checked"] += len(x)
    return True


def _check_sp(acc, h, Zr, sett, steps, tag):
    from vlib import run

    for s_ in steps:
        se = h.get("state_energies")
        if se is not None and not (np.min(se[s_, 1:] - se[s_, 0]) > 0.2):
            # an excitation energy <= 0.2 eV (observed: -0.4 ... -0.9 eV for hot CH4 with two C-H bonds at 1.5-1.8 A): the RHF
            # reference is no longer the ground state, CIS gradients are not defined there -- row ineligible, counted
            acc.mon["sp_ineligible"] = acc.mon.get("sp_ineligible", 0) + 1
            continue
        sp = run.single_point(Zr, h["coordinates"][s_], sett)
        if sp.get("cis_energies") is not None and se is not None and not (np.min(sp["cis_energies"][0]) > 0.2):
            acc.mon["sp_ineligible"] = acc.mon.get("sp_ineligible", 0) + 1
            continue
        acc.upd("Ep-sp", abs(float(sp["Etot"][0]) - float(h["Ep"][s_])), 1e-8 + 20 * EPS, {"run": tag, "step": int(s_)})
        acc.upd("F-sp", np.abs(sp["force"][0] - h["forces"][s_]).max(), 1e-6 + 2e3 * EPS, {"run": tag, "step": int(s_)})
        acc.mon["single_points"] += 1
        # the other published /data rows of step s are those of the coordinates of step s (a row one step stale would differ by
        # 1e-3 ... 1e-2 a.u. / eV): ground dipole, absolute state energies, excitation energies
        if h.get("dipole") is not None and sp.get("dipole") is not None:
            acc.upd("dipole-sp", np.abs(np.asarray(sp["dipole"][0]) - h["dipole"][s_]).max(), 1e-6 + 2e3 * EPS, {"run": tag, "step": int(s_)})
            acc.mon["dipole_rows"] = acc.mon.get("dipole_rows", 0) + 1
        if se is not None:
            a = int(sett.get("active_state", 0))
            acc.upd("state-energy-active", abs(float(se[s_, a]) - float(h["Ep"][s_])), 1e-10, {"run": tag, "step": int(s_), "active": a})
            if sp.get("cis_energies") is not None:
                nr = min(se.shape[1] - 1, len(sp["cis_energies"][0]))
                acc.upd("excitation-sp", np.abs((se[s_, 1:1 + nr] - se[s_, 0]) - np.asarray(sp["cis_energies"][0][:nr])).max(), 1e-6,
                        {"run": tag, "step": int(s_)})
                acc.mon["state_energy_rows"] = acc.mon.get("state_energy_rows", 0) + 1


def _family(case):
    from vlib import env, md

    acc = _Acc(case)
    S, C, V, Zs = _system(case)
    sett = _settings(case)
    rc = tuple(case["remove_com"]) if case["remove_com"] else None
    molid = list(case.get("molid") or range(len(S)))  # output selection: not necessarily the prefix list [0..n-1]
    recs = {}
    with env.Scratch("c08") as d:
        for dt in case["dts"]:
            n = int(round(case["t_end"] / dt))
            r = md.run_md("basic", S, C, sett, dt, case["T"], n, "%s/f%g" % (d, dt), molid=molid, velocities=V,
                          reuse_P=case["reuse_P"], remove_com=rc, seed=1)
            if r["error"]:
                return {"inconclusive": "md.run raised: " + r["error"][:300]}
            acc.mon["md_runs"] += 1
            recs[dt] = (n, r)
    obs = {"dts": case["dts"], "std": {}, "drift": {}, "order": {}}
    good = 0
    for k in molid:
        Zr = Zs[k]
        mm = md.masses(Zr)
        okk = True
        for dt in case["dts"]:
            n, r = recs[dt]
            okk &= _check_run(acc, r["h5"][k], Zr, dt, n, rc, case["t_end"], "mol%d/dt%g" % (k, dt))
        if not okk:
            continue
        good += 1
        # independent single points on the second-coarsest run
        dt_sp = case["dts"][min(1, len(case["dts"]) - 1)]
        n, r = recs[dt_sp]
        sp_steps = sorted({0, n // 3, n}) if not case.get("sp_every") else sorted(set(range(0, n + 1, int(case["sp_every"]))) | {n})
        _check_sp(acc, r["h5"][k], Zr, sett, sp_steps, "mol%d/dt%g" % (k, dt_sp))
        # (c) order
        xe = []
        for dt in case["dts"]:
            xx = recs[dt][1]["h5"][k]["coordinates"][-1]
            xe.append(xx - md.com(mm, xx))
        diffs = [float(np.linalg.norm(xe[i] - xe[i + 1])) for i in range(len(xe) - 1)]
        for i in range(len(diffs) - 1):
            if diffs[i + 1] < 1e-7:  # (NaN is not < 1e-7: it goes on and violates the window)
                continue
            ratio = diffs[i] / diffs[i + 1]
            acc.window("order", ratio, ORDER_LO, ORDER_HI, {"mol": k, "dts": case["dts"][i:i + 3], "diffs": diffs[i:i + 2]})
            acc.mon["order_ratios"] += 1
            obs["order"]["mol%d/%g" % (k, case["dts"][i])] = round(ratio, 4)
        # (d) energy: compare E(t) - E(0) of (dt, dt/2) on the COMMON time grid (the coarse run's rows)
        Es = []
        for dt in case["dts"]:
            h = recs[dt][1]["h5"][k]
            Es.append(h["Ek"] + h["Ep"])
        obs["std"]["mol%d" % k] = [float("%.4g" % e.std()) for e in Es]
        obs["drift"]["mol%d" % k] = [float("%.4g" % (e[-(len(e) // 3):].mean() - e[:len(e) // 3].mean())) for e in Es]
        for i in range(len(case["dts"]) - 1):
            dtc, dtf = case["dts"][i], case["dts"][i + 1]
            if dtc > ASYMPT_DT + 1e-12 or abs(dtc / dtf - 2.0) > 1e-9:
                continue
            Ec, Ef = Es[i], Es[i + 1][::2]
            if len(Ec) != len(Ef) or len(Ec) < 9:
                continue
            devc, devf = Ec - Ec[0], Ef - Ef[0]
            scale = float(np.abs(devc).max())
            noise = 100 * EPS * (len(Es[i + 1]) - 1)
            frac = RESID_K * dtc * dtc
            det = {"mol": k, "dts": [dtc, dtf], "scale_dt2": scale, "allowed_fraction": frac}
            if not (devf.std() <= 10 * noise):
                acc.window("energy-std-scaling", float(devc.std() / devf.std()), STD_LO, STD_HI, det)
                acc.mon["energy_ratios"] += 1
            r = (4.0 * devf - devc) / 3.0
            acc.upd("energy-residual-pointwise", float(np.abs(r).max()), frac * scale + noise + PES_STEP, det)
            t = len(Ec) // 3
            B = float(r[-t:].mean() - r[:t].mean())
            acc.upd("energy-residual-drift", abs(B), frac * scale + noise + PES_STEP,
                    dict(det, drift=[float(devc[-t:].mean() - devc[:t].mean()), float(devf[-t:].mean() - devf[:t].mean())]))
            obs.setdefault("resid_frac", {})["mol%d/%g" % (k, dtc)] = [float("%.3g" % (np.abs(r).max() / scale)),
                                                                      float("%.3g" % (abs(B) / scale))]
        acc.cells.append("family/%s/%s/reuse%d/rc-%s%s%s" % (case["method"], "+".join(case["mols"]), case["reuse_P"],
                                                             rc[0] if rc else "none", "/S1" if case.get("excited") else "",
                                                             "/molid%s" % "".join(map(str, molid)) if case.get("molid") else ""))
        if case.get("molid"):
            acc.mon["molid_subset_files"] += 1
    return acc.result(good > 0, obs)


def _reversal(case):
    from vlib import env, md

    acc = _Acc(case)
    S, C, V, Zs = _system(case)
    sett = _settings(case)
    rc = tuple(case["remove_com"]) if case["remove_com"] else None
    molid = list(range(len(S)))
    n, dt = case["n"], case["dt"]
    with env.Scratch("c08") as d:
        fw = md.run_md("basic", S, C, sett, dt, case["T"], n, d + "/fw", molid=molid, velocities=V,
                       reuse_P=case["reuse_P"], remove_com=rc, seed=1)
        if fw["error"]:
            return {"inconclusive": "forward run raised: " + fw["error"][:300]}
        C2 = np.array(C, float)
        V2 = np.zeros_like(C2)
        for k in molid:
            nat = len(Zs[k])
            C2[k, :nat] = fw["h5"][k]["coordinates"][-1]
            V2[k, :nat] = -fw["h5"][k]["velocities"][-1]
        bw = md.run_md("basic", S, C2.tolist(), sett, dt, case["T"], n, d + "/bw", molid=molid, velocities=V2,
                       reuse_P=case["reuse_P"], remove_com=rc, seed=2)
        if bw["error"]:
            return {"inconclusive": "backward run raised: " + bw["error"][:300]}
    acc.mon["md_runs"] += 2
    obs = {}
    good = 0
    for k in molid:
        Zr = Zs[k]
        ok = _check_run(acc, fw["h5"][k], Zr, dt, n, rc, n * dt, "mol%d/fw" % k)
        ok &= _check_run(acc, bw["h5"][k], Zr, dt, n, rc, n * dt, "mol%d/bw" % k)
        if not ok:
            continue
        good += 1
        x0, v0 = fw["h5"][k]["coordinates"][0], fw["h5"][k]["velocities"][0]
        xb, vb = bw["h5"][k]["coordinates"][-1], bw["h5"][k]["velocities"][-1]
        dx, dv = float(np.abs(xb - x0).max()), float(np.abs(vb + v0).max())
        travelled = float(np.abs(fw["h5"][k]["coordinates"][-1] - x0).max())
        acc.upd("reversal-x", dx, TOL_REV_X, {"mol": k, "travelled": travelled})
        acc.upd("reversal-v", dv, TOL_REV_V, {"mol": k})
        # the whole backward path retraces the forward path
        dpath = float(np.abs(bw["h5"][k]["coordinates"][::-1] - fw["h5"][k]["coordinates"]).max())
        acc.upd("reversal-path", dpath, TOL_REV_X, {"mol": k})
        if travelled > 1e-4:
            acc.mon["reversal_pairs"] += 1
        obs["mol%d" % k] = {"dx": dx, "dv": dv, "travelled": travelled}
        acc.cells.append("reversal/%s/%s/reuse%d/rc-%s%s" % (case["method"], "+".join(case["mols"]), case["reuse_P"],
                                                             rc[0] if rc else "none", "/S1" if case.get("excited") else ""))
    return acc.result(good > 0, obs)


def _fresh(case):
    from vlib import env, md

    acc = _Acc(case)
    S, C, V, Zs = _system(case)
    sett = _settings(case)
    rc = tuple(case["remove_com"]) if case["remove_com"] else None
    molid = list(case.get("molid") or range(len(S)))
    n, dt = case["n"], case["dt"]
    with env.Scratch("c08") as d:
        r = md.run_md("basic", S, C, sett, dt, case["T"], n, d + "/fr", molid=molid, velocities=None,
                      reuse_P=case["reuse_P"], remove_com=rc, seed=case["md_seed"])
    if r["error"]:
        return {"inconclusive": "md.run raised: " + r["error"][:300]}
    acc.mon["md_runs"] += 1
    good = 0
    obs = {"T0": [], "n_dof_engine": None if r["n_dof"] is None else r["n_dof"].tolist()}
    for k in molid:
        Zr = Zs[k]
        if not _check_run(acc, r["h5"][k], Zr, dt, n, rc, n * dt, "mol%d" % k):
            continue
        good += 1
        _check_sp(acc, r["h5"][k], Zr, sett, sorted({0, n}), "mol%d" % k)
        obs["T0"].append(float(r["h5"][k]["T"][0]))
        acc.cells.append("fresh/%s/%s/reuse%d/rc-%s%s" % (case["method"], "+".join(case["mols"]), case["reuse_P"],
                                                          rc[0] if rc else "none",
                                                          "/molid%s" % "".join(map(str, molid)) if case.get("molid") else ""))
        if case.get("molid"):
            acc.mon["molid_subset_files"] += 1
    return acc.result(good > 0, obs)


def _continue(case):
    """run A -> the state is changed WITHOUT an MD step (surface switch + esdriver call, geometry displaced + esdriver call,
    geometry displaced + force = None) -> run B on the SAME Molecule, which carries non-zero velocities.  Run B must be an
    ordinary velocity-Verlet run from its own step-0 state: recurrences on its first rows with ITS stored forces, agreement
    with a fresh Molecule started from the same (x, v) on the same surface, second order under dt halving."""
    import torch
    from vlib import env, md, run

    acc = _Acc(case)
    g = np.random.default_rng(case["geom_seed"])
    Z, X, q, m = gen.molecule(case["mol"])
    X = gen.distort(X, g, sigma=0.03)
    X = X @ gen.generic_rotation(X, g).T
    V = md.supplied_velocities(Z, X, case["T"], g)
    delta = g.normal(0.0, 0.02, X.shape)
    mod = case["mod"]
    exc = {"n_states": 3, "tolerance": CIS_TOL, "method": "cis"} if mod == "switch-state" else None
    settA = run.settings(case["method"], eps=EPS, converger=(2,), excited=exc)
    settF = run.settings(case["method"], eps=EPS, converger=(2,), excited=exc, active_state=1 if exc else 0)
    recs = {}
    start = None
    try:
        with env.Scratch("c08") as d, md.quiet():
            for dt in case["dts"]:
                n = int(round(case["t_end"] / dt))
                mol, mdA = md.build_md("basic", Z, X, settA, case["dtA"], case["T"], md.output_cfg("%s/A%g" % (d, dt), [0]), velocities=V)
                mdA.run(mol, steps=case["nA"], reuse_P=True, remove_com=None, seed=1)
                acc.mon["md_runs"] += 1
                if mod == "switch-state":
                    mol.active_state = 1
                    mdA.esdriver(mol, P0=mol.dm, cis_amp=mol.cis_amplitudes)
                else:
                    with torch.no_grad():
                        mol.coordinates.add_(torch.as_tensor(delta).unsqueeze(0))
                    if mod == "displace-esdriver":
                        mdA.esdriver(mol, P0=mol.dm, cis_amp=mol.cis_amplitudes)
                    else:
                        mol.force = None
                x0 = mol.coordinates.detach().cpu().numpy()[0].copy()
                v0 = mol.velocities.detach().cpu().numpy()[0].copy()
                if start is None:
                    start = (x0, v0)
                elif not (np.array_equal(start[0], x0) and np.array_equal(start[1], v0)):
                    return {"inconclusive": "run A is not reproducible: the dt-family of run B would not share its start"}
                mdB = md.make_engine("basic", mol.seqm_parameters, dt, case["T"], md.output_cfg("%s/B%g" % (d, dt), [0]))
                mdB.run(mol, steps=n, reuse_P=True, remove_com=None)
                acc.mon["md_runs"] += 1
                recs[dt] = (n, md.read_h5("%s/B%g.0.h5" % (d, dt)))
            dt0 = case["dts"][0]
            n0 = recs[dt0][0]
            molF, mdF = md.build_md("basic", Z, start[0], settF, dt0, case["T"], md.output_cfg(d + "/F", [0]), velocities=start[1])
            mdF.run(molF, steps=n0, reuse_P=True, remove_com=None)
            acc.mon["md_runs"] += 1
            hF = md.read_h5(d + "/F.0.h5")
    except Exception as exc_:
        return {"inconclusive": "continuation sequence raised: %s: %s" % (type(exc_).__name__, str(exc_)[:300])}
    mm = md.masses(Z)
    ok = True
    for dt in case["dts"]:
        n, h = recs[dt]
        okk = _check_run(acc, h, Z, dt, n, None, case["t_end"], "B/dt%g" % dt)
        ok &= okk
        if okk:
            # step 0 of run B is the state the Molecule carried (velocities are not redrawn, geometry not moved)
            acc.upd("continue-step0", max(np.abs(h["coordinates"][0] - start[0]).max(), np.abs(h["velocities"][0] - start[1]).max()), 1e-15,
                    {"dt": dt, "mod": mod})
    obs = {"mod": mod}
    if ok:
        n0, h0 = recs[case["dts"][0]]
        dx = float(np.abs(h0["coordinates"] - hF["coordinates"]).max())
        dv = float(np.abs(h0["velocities"] - hF["velocities"]).max())
        acc.upd("continue-vs-fresh-x", dx, TOL_REV_X, {"mod": mod, "dt": case["dts"][0]})
        acc.upd("continue-vs-fresh-v", dv, TOL_REV_X, {"mod": mod, "dt": case["dts"][0]})
        dE = float(np.abs((h0["Ek"] + h0["Ep"]) - (hF["Ek"] + hF["Ep"])).max())
        acc.upd("continue-vs-fresh-E", dE, 1e-7 + 20 * EPS, {"mod": mod})
        _check_sp(acc, h0, Z, settF, [0, n0], "B/dt%g" % case["dts"][0])
        xe = []
        for dt in case["dts"]:
            xx = recs[dt][1]["coordinates"][-1]
            xe.append(xx - md.com(mm, xx))
        diffs = [float(np.linalg.norm(xe[i] - xe[i + 1])) for i in range(len(xe) - 1)]
        for i in range(len(diffs) - 1):
            if diffs[i + 1] < 1e-7:
                continue
            ratio = diffs[i] / diffs[i + 1]
            acc.window("order", ratio, ORDER_LO, ORDER_HI, {"kind": "continue", "mod": mod, "dts": case["dts"][i:i + 3], "diffs": diffs[i:i + 2]})
            acc.mon["order_ratios"] += 1
            obs["order/%g" % case["dts"][i]] = round(ratio, 4)
        obs.update({"dx_vs_fresh": dx, "dv_vs_fresh": dv})
        acc.mon["continuations"] += 1
        acc.cells.append("continue/%s/%s/%s" % (case["method"], case["mol"], mod))
    return acc.result(ok, obs)


def _cadence(case):
    """the same observations made THROUGH UNEQUAL STREAM CADENCES (incl. a disabled coordinates stream): every stream row is what its
    name and step label say.  Independent relations between the streams of one file: Ek/T row vs the /velocities row of the same
    step, P conserved over the /velocities rows, exact velocity-Verlet identity x(n+2) - x(n) = 2 dt v(n+1) between /coordinates and
    /velocities rows (coordinates reconstructed from the supplied x0 with that identity when the stream is disabled), Ep and the
    /forces row vs a cold single point at the (stored or reconstructed) coordinates of that step."""
    from vlib import env, md, run

    acc = _Acc(case)
    S, C, V, Zs = _system(case)
    sett = _settings(case)
    molid = list(case.get("molid") or range(len(S)))
    n, dt, cad = case["n"], case["dt"], case["cad"]
    with env.Scratch("c08") as d:
        r = md.run_md("basic", S, C, sett, dt, case["T"], n, d + "/u", molid=molid, velocities=V, reuse_P=True, remove_com=None,
                      out_kw=dict(cad))
    if r["error"]:
        return {"inconclusive": "md.run raised: " + r["error"][:300]}
    acc.mon["md_runs"] += 1
    live = md.live_constants()
    good = 0
    obs = {"cadences": cad}
    for k in molid:
        h, Zr = r["h5"].get(k), Zs[k]
        if h is None:
            acc.upd("steps-rows", 1.0, 0.5, {"mol": k, "what": "file missing"})
            continue
        mm = md.masses(Zr)
        nat = len(Zr)
        ok = True
        rows = {}
        for name, key in (("data", "data_steps"), ("coordinates", "coordinates_steps"), ("velocities", "velocities_steps"), ("forces", "forces_steps")):
            c_ = int(cad.get(name, 0))
            got = h.get(key)
            want = np.arange(0, n + 1, c_) if c_ > 0 else None
            if (want is None) != (got is None) or (want is not None and (len(got) != len(want) or np.any(np.asarray(got) != want))):
                acc.upd("steps-rows", 1.0, 0.5, {"mol": k, "stream": name, "cadence": c_, "got": None if got is None else np.asarray(got).tolist()[:40]})
                ok = False
            elif want is not None:
                rows[name] = {int(s_): i for i, s_ in enumerate(want)}
        if not ok:
            continue
        acc.upd("steps-rows", 0.0, 0.5)
        vel = h["velocities"]
        fin = np.isfinite(vel).all() and ("coordinates" not in h or np.isfinite(h["coordinates"]).all()) and np.isfinite(h["forces"]).all()
        if not fin:
            acc.upd("finite", 1.0, 0.5, {"mol": k})
            continue
        x0 = np.asarray(C[k], float)[:nat]
        # step 0 rows are the supplied state
        acc.flag("cadence-step0", not np.array_equal(vel[rows["velocities"][0]], V[k][:nat]) or
                 ("coordinates" in rows and not np.array_equal(h["coordinates"][rows["coordinates"][0]], x0)), {"mol": k})
        # (1) thermo rows vs the velocities row of the same step
        nrow = 0
        for s_, i in rows["data"].items():
            if s_ in rows["velocities"]:
                v = vel[rows["velocities"][s_]]
                ek = md.kinetic_amu(mm, v) * live["KINETIC_ENERGY_SCALE"]
                acc.upd("Ek-row-live", abs(ek - h["Ek"][i]) / max(abs(h["Ek"][i]), 1e-300), TOL_ROW_LIVE, {"mol": k, "step": s_, "cadences": cad})
                acc.upd("T-row-live", abs(2.0 * h["Ek"][i] * live["TEMPERATURE_SCALE"] / (3.0 * nat) - h["T"][i]) / max(abs(h["T"][i]), 1e-300),
                        TOL_ROW_LIVE, {"mol": k, "step": s_})
                nrow += 1
        # (2) momentum over the velocities rows
        vs = sorted(rows["velocities"])
        P = np.array([(mm[:, None] * vel[rows["velocities"][s_]]).sum(0) for s_ in vs])
        ps = _mx((mm * np.linalg.norm(vel[rows["velocities"][s_]], axis=1)).sum() for s_ in vs)
        acc.upd("P-conservation", float(np.max(np.abs(P - P[0]))), TOL_P * ps, {"mol": k, "cadences": cad})
        # (3) exact Verlet identity between the coordinate and velocity streams; reconstruct even-step coordinates if needed
        xs = {}
        if "coordinates" in rows:
            xs = {s_: h["coordinates"][i] for s_, i in rows["coordinates"].items()}
            for s_ in sorted(xs):
                if s_ + 2 in xs and s_ + 1 in rows["velocities"]:
                    e = np.abs(xs[s_ + 2] - xs[s_] - 2.0 * dt * vel[rows["velocities"][s_ + 1]]).max()
                    acc.upd("verlet-x-v", e, 1e-13 + 1e-12 * np.abs(xs[s_ + 2] - xs[s_]).max(), {"mol": k, "steps": [s_, s_ + 1, s_ + 2], "cadences": cad})
                    nrow += 1
        else:
            xs = {0: x0}
            s_ = 0
            while s_ + 2 <= n and s_ + 1 in rows["velocities"]:
                xs[s_ + 2] = xs[s_] + 2.0 * dt * vel[rows["velocities"][s_ + 1]]
                s_ += 2
        # (4) Ep and the force row vs a cold single point at the coordinates of that step
        common = [s_ for s_ in sorted(rows["forces"]) if s_ in xs]
        for s_ in [common[0], common[-1]] if len(common) > 1 else common:
            sp = run.single_point(Zr, xs[s_], sett)
            if sp["notconverged"] is not None and bool(np.any(sp["notconverged"])):
                continue
            acc.upd("F-sp", np.abs(sp["force"][0] - h["forces"][rows["forces"][s_]]).max(), 1e-6 + 2e3 * EPS,
                    {"mol": k, "step": s_, "cadences": cad, "coordinates": "stored" if "coordinates" in rows else "reconstructed"})
            if s_ in rows["data"]:
                acc.upd("Ep-sp", abs(float(sp["Etot"][0]) - float(h["Ep"][rows["data"][s_]])), 1e-8 + 20 * EPS + (0 if "coordinates" in rows else 1e-9),
                        {"mol": k, "step": s_})
            acc.mon["single_points"] += 1
            nrow += 1
        acc.mon["unequal_cadence_rows"] += nrow
        acc.mon["rows_checked"] += nrow
        good += 1
        acc.cells.append("cadence/%s/%s/d%dc%dv%df%d" % (case["method"], "+".join(case["mols"]), cad.get("data", 0), cad.get("coordinates", 0),
                                                         cad.get("velocities", 0), cad.get("forces", 0)))
    return acc.result(good > 0, obs)


def _single(case):
    g = np.random.default_rng(case["geom_seed"])
    Z, X, q, m = gen.molecule(case["mol"])
    X = gen.distort(X, g, sigma=0.03)
    X = X @ gen.generic_rotation(X, g).T
    from vlib import md

    return Z, X, md.supplied_velocities(Z, X, case["T"], g)


def _live_eps(mdo):
    try:
        return float(mdo.esdriver.conservative_force.energy.hamiltonian.eps)
    except Exception:
        return None


def _loose_eps(case):
    """excited-surface NVE with a user scf_eps LOOSER than 0.1 x CIS tolerance: the documented tightening (scf_eps <= 0.1 tol) is
    what guarantees conservation.  Judged by dt-halving at the tightened threshold and by equality with a run whose user
    scf_eps is explicitly the tightened value."""
    from vlib import env, md, run

    acc = _Acc(case)
    Z, X, V = _single(case)
    tol, ue = case["cis_tol"], case["user_eps"]
    tight = 0.1 * tol
    exc = {"n_states": 3, "tolerance": tol, "method": "cis"}
    recs, live, reported = {}, {}, {}
    try:
        with env.Scratch("c08") as d, md.quiet():
            for tag, eps_user, dt in [("L%g" % dt, ue, dt) for dt in case["dts"]] + [("T", None, case["dts"][0])]:
                n = int(round(case["t_end"] / dt))
                if eps_user is None:
                    eps_user = reported.get("L%g" % dt, tight)  # exactly the value the loose run reports after construction
                sett = run.settings(case["method"], eps=eps_user, converger=(2,), excited=exc, active_state=1)
                mol, mdo = md.build_md("basic", Z, X, sett, dt, case["T"], md.output_cfg("%s/%s" % (d, tag), [0]), velocities=V)
                reported[tag] = float(mol.seqm_parameters["scf_eps"])
                live[tag] = _live_eps(mdo)
                mdo.run(mol, steps=n, reuse_P=True, remove_com=None)
                acc.mon["md_runs"] += 1
                recs[tag] = (n, dt, md.read_h5("%s/%s.0.h5" % (d, tag)))
    except Exception as exc_:
        return {"inconclusive": "loose-eps sequence raised: %s: %s" % (type(exc_).__name__, str(exc_)[:300])}
    obs = {"user_eps": ue, "cis_tol": tol, "reported": reported, "live": live}
    for tag in recs:
        acc.upd("eps-tightened-reported", max(reported[tag] / tight - 1.0, 0.0) if reported[tag] == reported[tag] else float("nan"), 1e-12,
                {"run": tag, "reported": reported[tag], "documented_max": tight})
        if live[tag] is not None:
            acc.upd("eps-in-force", abs(live[tag] / reported[tag] - 1.0), 1e-12, {"run": tag, "live_solver_eps": live[tag], "reported": reported[tag]})
    ok = True
    for tag, (n, dt, h) in recs.items():
        ok &= _check_run(acc, h, Z, dt, n, None, case["t_end"], tag, eps=max(tight, tol))
    if ok:
        # dt-halving at the tightened threshold
        for i in range(len(case["dts"]) - 1):
            (nc, dtc, hc), (nf, dtf, hf) = recs["L%g" % case["dts"][i]], recs["L%g" % case["dts"][i + 1]]
            Ec, Ef = hc["Ek"] + hc["Ep"], (hf["Ek"] + hf["Ep"])[::2]
            if len(Ec) != len(Ef):
                continue
            devc, devf = Ec - Ec[0], Ef - Ef[0]
            scale = float(np.abs(devc).max())
            noise = 100 * tight * nf
            r = (4.0 * devf - devc) / 3.0
            det = {"dts": [dtc, dtf], "scale_dt2": scale, "noise_allowance": noise}
            acc.upd("energy-residual-pointwise", float(np.abs(r).max()), RESID_K * dtc * dtc * scale + noise + PES_STEP, det)
            if not (devf.std() <= 10 * noise):
                acc.window("energy-std-scaling", float(devc.std() / devf.std()), STD_LO, STD_HI, det)
                acc.mon["energy_ratios"] += 1
            obs["resid/%g" % dtc] = float(np.abs(r).max())
        nL, dtL, hL = recs["L%g" % case["dts"][0]]
        nT, dtT, hT = recs["T"]
        dx = float(np.abs(hL["coordinates"] - hT["coordinates"]).max())
        dE = float(np.abs((hL["Ek"] + hL["Ep"]) - (hT["Ek"] + hT["Ep"])).max())
        acc.upd("looseeps-vs-tight-x", dx, 1e-9, {"user_eps": ue, "tight_eps": reported.get("T")})
        acc.upd("looseeps-vs-tight-E", dE, 1e-9, {"user_eps": ue, "tight_eps": reported.get("T")})
        obs.update({"dx_vs_tight": dx, "dE_vs_tight": dE})
        acc.mon["loose_eps_excited_cells"] += 1
        acc.cells.append("loose-eps/%s/%s/user%g/tol%g" % (case["method"], case["mol"], ue, tol))
    return acc.result(ok, obs)


def _noreuse(case):
    """reuse_P=False on a force path that does not go through autograd (analytical / semi-numerical gradient, excited surface):
    nothing is carried from step to step, so the trajectory is an exact function of (x, v): 2N steps == N + N steps bit for bit
    (second leg continued on the same Molecule), and (x_2N, -v_2N) retraces."""
    from vlib import env, md, run

    acc = _Acc(case)
    Z, X, V = _single(case)
    n, dt, eps = case["n"], case["dt"], case["eps"]
    if case["force"] == "excited":
        sett = run.settings(case["method"], eps=eps, converger=(2,), excited={"n_states": 3, "tolerance": 10 * eps, "method": "cis"},
                            active_state=1)
    else:
        sett = run.settings(case["method"], eps=eps, converger=(2,), grad=case["force"])
    try:
        with env.Scratch("c08") as d, md.quiet():
            def leg(mol, tag, steps):
                mdo = md.make_engine("basic", mol.seqm_parameters, dt, case["T"], md.output_cfg("%s/%s" % (d, tag), [0]))
                mdo.run(mol, steps=steps, reuse_P=False, remove_com=None)
                acc.mon["md_runs"] += 1
                return md.read_h5("%s/%s.0.h5" % (d, tag))

            molF, _ = md.build_md("basic", Z, X, sett, dt, case["T"], md.output_cfg(d + "/x", [0]), velocities=V)
            hF = leg(molF, "F", 2 * n)
            molS, _ = md.build_md("basic", Z, X, sett, dt, case["T"], md.output_cfg(d + "/x", [0]), velocities=V)
            h1 = leg(molS, "S1", n)
            h2 = leg(molS, "S2", n)
            molB, _ = md.build_md("basic", Z, hF["coordinates"][-1], sett, dt, case["T"], md.output_cfg(d + "/x", [0]),
                                  velocities=-hF["velocities"][-1])
            hB = leg(molB, "B", 2 * n)
    except Exception as exc_:
        return {"inconclusive": "no-reuse sequence raised: %s: %s" % (type(exc_).__name__, str(exc_)[:300])}
    e_eff = 10 * eps if case["force"] == "excited" else eps
    ok = _check_run(acc, hF, Z, dt, 2 * n, None, 2 * n * dt, "full", eps=e_eff)
    ok &= _check_run(acc, h1, Z, dt, n, None, n * dt, "leg1", eps=e_eff)
    ok &= _check_run(acc, h2, Z, dt, n, None, n * dt, "leg2", eps=e_eff)
    ok &= _check_run(acc, hB, Z, dt, 2 * n, None, 2 * n * dt, "back", eps=e_eff)
    obs = {"force": case["force"], "eps": eps}
    if ok:
        d1 = max(float(np.abs(h1[k] - hF[k][:n + 1]).max()) for k in ("coordinates", "velocities", "forces"))
        d2 = max(float(np.abs(h2[k] - hF[k][n:]).max()) for k in ("coordinates", "velocities", "forces"))
        dE = float(np.abs(np.concatenate([h1["Ep"], h2["Ep"][1:]]) - hF["Ep"]).max())
        bit = all(np.array_equal(h1[k], hF[k][:n + 1]) and np.array_equal(h2[k], hF[k][n:]) for k in ("coordinates", "velocities", "forces"))
        det = {"force": case["force"], "eps": eps, "max_abs_diff_leg1": d1, "max_abs_diff_leg2": d2, "max_abs_dEp": dE}
        acc.flag("split-invariance", not bit, det)
        dx = float(np.abs(hB["coordinates"][-1] - hF["coordinates"][0]).max())
        dpath = float(np.abs(hB["coordinates"][::-1] - hF["coordinates"]).max())
        acc.upd("noreuse-reversal-x", _mx([dx, dpath]), TOL_REV_NOREUSE, dict(det, travelled=float(np.abs(hF["coordinates"][-1] - hF["coordinates"][0]).max())))
        obs.update({"bitwise": bit, "dx_retrace": dx, "d_leg2": d2})
        acc.mon["noreuse_nonautograd_cells"] += 1
        acc.mon["reversal_pairs"] += 1
        acc.cells.append("noreuse/%s/%s/%s/eps%g" % (case["method"], case["mol"], case["force"], eps))
    return acc.result(ok, obs)


def _momentum(case):
    """supplied velocities WITH net angular (or net linear) momentum, each COM-removal mode judged against what THAT mode
    is documented to do: None conserves P and L; ('linear', n) zeroes P and must not touch L; ('angular', n) zeroes both."""
    from vlib import env, md

    acc = _Acc(case)
    g = np.random.default_rng(case["geom_seed"])
    mols = []
    for name in case["mols"]:
        Z, X, q, m = gen.molecule(name)
        X = gen.distort(X, g, sigma=0.03)
        mols.append((Z, X @ gen.generic_rotation(X, g).T))
    S, C = gen.pad_batch(mols)
    Zs = [z for z, _ in mols]
    var = case["variant"]
    V = np.array([md.supplied_velocities(s_, np.array(c_), case["T"], g, net_linear=var == "net-linear",
                                         net_angular=var == "net-angular") for s_, c_ in zip(S, C)])
    sett = _settings(case)
    molid = list(range(len(S)))
    n, dt = case["n"], case["dt"]
    eps_m = 2.220446049250313e-16
    obs = {}
    good = 0
    with env.Scratch("c08") as d:
        for im, mode in enumerate(case["modes"]):
            rc = tuple(mode) if mode else None
            r = md.run_md("basic", S, C, sett, dt, case["T"], n, "%s/m%d" % (d, im), molid=molid, velocities=V,
                          reuse_P=True, remove_com=rc, seed=3)
            if r["error"]:
                return {"inconclusive": "md.run raised under remove_com=%s: %s" % (mode, r["error"][:300])}
            acc.mon["md_runs"] += 1
            label = "none" if rc is None else "%s%d" % (rc[0], rc[1])
            for k in molid:
                h = r["h5"][k]
                Zr = Zs[k]
                mm = md.masses(Zr)
                x, v = h["coordinates"], h["velocities"]
                if len(x) != n + 1 or not (np.isfinite(x).all() and np.isfinite(v).all()) or not np.array_equal(x[0], np.asarray(C[k])[:len(Zr)]) or not np.array_equal(v[0], V[k][:len(Zr)]):
                    acc.upd("momentum-rows", 1.0, 0.5, {"mode": mode, "mol": k, "what": "rows missing or step 0 is not the supplied state"})
                    continue
                PL = [md.momenta(mm, x[s_], v[s_]) for s_ in range(n + 1)]
                sc = [md.momentum_scales(mm, x[s_], v[s_]) for s_ in range(n + 1)]
                ps, ls = _mx(a for a, _ in sc), _mx(b for _, b in sc)
                w = np.linalg.eigvalsh(md.inertia(mm, x[0] - md.com(mm, x[0])))
                w = w[w > 1e-10]
                f = 1e-12 + 16.0 * eps_m * float(w.max() / w.min())
                rsum = float(np.linalg.norm(x[0] - md.com(mm, x[0]), axis=1).sum())
                tolL = TOL_L * ls + 2e3 * EPS * md.REF_ACC_SCALE * n * dt * rsum
                P0, L0 = PL[0]
                relP0, relL0 = float(np.abs(P0).max() / ps), float(np.abs(L0).max() / ls)
                det = {"mode": mode, "mol": k, "variant": var, "P0_rel": relP0, "L0_rel": relL0}
                if relL0 > 1e-2:
                    acc.mon["net_L_files"] += 1
                if relP0 > 1e-2:
                    acc.mon["net_P_files"] += 1
                dP = _mx(np.abs(p[0] - P0).max() for p in PL)
                dL = _mx(np.abs(p[1] - L0).max() for p in PL)
                first = 1  # first row written after a due removal (the removal of loop index i = 0)
                if rc is None:
                    acc.upd("P-conservation", dP, TOL_P * ps, dict(det, scale=ps))
                    acc.upd("L-conservation", dL, tolL, dict(det, scale=ls), mech=_pole_mech(Zr, x) if dL > tolL else None)
                elif rc[0] == "linear":
                    Pmax = _mx(np.abs(p[0]).max() for p in PL[first:])
                    acc.upd("com-linear-zeroes-P", Pmax, (f + TOL_P) * ps, dict(det, scale=ps))
                    # v -= v_com does not change L about the centre of mass; the kinetic-energy rescale multiplies it by
                    # alpha, which is 1 unless net P was present (then L0 ~ 0 in this workload): L must stay what it was
                    acc.upd("com-linear-keeps-L", dL, tolL + f * ls, dict(det, scale=ls, L_end_rel=float(np.abs(PL[-1][1]).max() / ls)))
                else:
                    Pmax = _mx(np.abs(p[0]).max() for p in PL[first:])
                    Lmax = _mx(np.abs(p[1]).max() for p in PL[first:])
                    acc.upd("com-angular-zeroes-P", Pmax, (f + TOL_P) * ps, dict(det, scale=ps))
                    acc.upd("com-angular-zeroes-L", Lmax, f * ls + tolL, dict(det, scale=ls))
                # bookkeeping of that file
                ek_amu = np.array([md.kinetic_amu(mm, v[s_]) for s_ in range(n + 1)])
                acc.upd("Ek-row-live", np.abs(ek_amu * md.live_constants()["KINETIC_ENERGY_SCALE"] - h["Ek"]).max() / max(np.abs(h["Ek"]).max(), 1e-300),
                        TOL_ROW_LIVE, det)
                acc.mon["rows_checked"] += n + 1
                acc.mon["momentum_mode_files"] += 1
                good += 1
                obs["%s/mol%d" % (label, k)] = {"P_end_rel": float(np.abs(PL[-1][0]).max() / ps), "L_end_rel": float(np.abs(PL[-1][1]).max() / ls)}
            acc.cells.append("momentum/%s/%s/rc-%s" % (var, "+".join(case["mols"]), label))
    return acc.result(good > 0, obs)


def _constants(case):
    from vlib import md

    acc = _Acc(case)
    c = md.live_constants()
    acc.upd("const-KE*ACC", abs(c["KINETIC_ENERGY_SCALE"] * c["ACC_SCALE"] - 1.0), TOL_CONST, c)
    acc.upd("const-KE*VEL2*TEMP", abs(c["KINETIC_ENERGY_SCALE"] * c["VEL_SCALE"] ** 2 * c["TEMPERATURE_SCALE"] - 1.0),
            TOL_CONST, c)
    for name, ref in (("ACC_SCALE", md.REF_ACC_SCALE), ("VEL_SCALE", md.REF_VEL_SCALE),
                      ("KINETIC_ENERGY_SCALE", md.REF_KE_SCALE), ("TEMPERATURE_SCALE", md.REF_TEMP_SCALE)):
        acc.upd("const-" + name, abs(c[name] / ref - 1.0), TOL_CONST, {"live": c[name], "codata2018": ref})
        acc.mon["constants_checked"] += 1
    return acc.result(True, {"live": c})


def run_case(case):
    kind = case["kind"]
    if kind == "family":
        return _family(case)
    if kind == "reversal":
        return _reversal(case)
    if kind == "fresh":
        return _fresh(case)
    if kind == "momentum":
        return _momentum(case)
    if kind == "continue":
        return _continue(case)
    if kind == "cadence":
        return _cadence(case)
    if kind == "loose-eps":
        return _loose_eps(case)
    if kind == "noreuse":
        return _noreuse(case)
    if kind == "constants":
        return _constants(case)
    raise ValueError(kind)
