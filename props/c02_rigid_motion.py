"""C02 — scalars invariant, vectors covariant under rigid motions (incl. the singular set).

Oracle: metamorphic.  One reference run in a generic orientation, then the same geometry under
Haar rotations + translations and under rotations that put a bonded pair exactly on / in small
cones around the +-x, +-y, +-z axes.  Also net force / net torque of every run."""
import math
import re

import numpy as np

from vlib import gen

PROPERTY = "C02"
RULE = ("case = (library molecule, distortion seed, method, force mode, ground/excited) with a list of rigid "
        "motions (Haar rotation + translation, and bonded pair aligned to each of +-x,+-y,+-z exactly and in cones "
        "1e-2..1e-10 rad); non-trivial when reference and transformed runs both converged and at least one transform "
        "rotates by >= 1 degree or is a singular-set member; distinct by SHA-1 of the case")
ASSUMPTIONS = ["float64 CPU", "scf_eps 1e-10 so that SCF noise is below the 1e-7 eV / 5e-6 eV/A bounds",
               "excited-state comparisons only for roots separated by >= 0.05 eV from neighbours"]
REQUIRED_MONITORS = ["transforms_compared", "singular_transforms_compared", "state_dipoles_compared",
                     "state_forces_compared", "learned_parameter_transforms_compared"]
CASE_TIMEOUT = 900.0

TOL_E = 1e-7
TOL_EMO = 1e-6
TOL_Q = 1e-7
TOL_F = 5e-6
TOL_MU = 5e-6
TOL_EXC = 2e-6
D_ELEMENTS_PM6 = {13, 14, 15, 16, 17}
LEARNED_NAMES = ("U_ss", "U_pp", "zeta_s", "zeta_p", "beta_s", "beta_p", "g_ss", "g_sp", "g_pp", "g_p2", "h_sp", "alpha")


def gen_cases(tier, seed):
    g = gen.rng("C02", tier)
    cases = []
    if tier == "quick":
        plan = [("AM1", "autodiff", 5), ("PM3", "analytical", 5), ("MNDO", "numerical", 3), ("PM6_SP", "analytical", 4),
                ("PM6", "autodiff", 2), ("PM6", "autodiff-d", 2), ("AM1", "excited", 2), ("AM1", "uhf", 3), ("PM3", "uhf-analytical", 2),
                ("AM1", "cutoff", 2), ("PM3", "cutoff-analytical", 1), ("AM1", "excited_all", 2),
                ("AM1", "learned", 2), ("PM3", "learned", 1)]
        ncone = [0.0, 1e-4, 1e-8]
        nhaar = 2
    else:
        plan = [("AM1", "autodiff", 40), ("AM1", "analytical", 30), ("AM1", "numerical", 20),
                ("PM3", "autodiff", 30), ("PM3", "analytical", 30), ("PM3", "numerical", 15),
                ("MNDO", "autodiff", 30), ("MNDO", "analytical", 30), ("MNDO", "numerical", 15),
                ("PM6_SP", "autodiff", 30), ("PM6_SP", "analytical", 30),
                ("PM6", "autodiff", 20), ("PM6", "autodiff-d", 20), ("AM1", "excited", 20), ("PM3", "excited_rpa", 8),
                ("AM1", "uhf", 25), ("MNDO", "uhf", 15), ("PM3", "uhf-analytical", 15), ("PM6_SP", "uhf", 10),
                ("AM1", "cutoff", 15), ("PM3", "cutoff-analytical", 10), ("MNDO", "cutoff", 8),
                ("AM1", "excited_all", 8), ("PM3", "excited_all", 4),
                ("AM1", "learned", 12), ("PM3", "learned", 8), ("MNDO", "learned", 6)]
        ncone = [0.0, 1e-2, 1e-3, 3e-4, 1e-4, 1e-6, 1e-8, 1e-10]
        nhaar = 6
    pool_all = gen.CLOSED_NEUTRAL + gen.IONS
    for method, mode, n in plan:
        names = [m for m in gen.names_for(method, pool_all) if m != "C6H6" or tier == "thorough"]
        if mode.startswith("excited"):
            names = [m for m in names if m in ("CH2O", "C2H4", "H2O", "NH3", "HCN", "CH3OH", "HCOOH", "CO", "N2", "HNO",
                                               "CH3F", "H2S", "SO2", "CH3Cl")]
        if method == "PM6":
            names = [m for m in names if m not in ("C6H6", "C2H6")]
        if mode == "autodiff-d":  # molecules with a d-orbital element (Si, P, S, Cl under PM6)
            names = [m for m in names if any(z in D_ELEMENTS_PM6 for z in gen.molecule(m)[0])]
        if mode.startswith("cutoff"):  # finite pair_outer_cutoff: needs molecules larger than the cutoff
            names = [m for m in names if m in ("C6H6", "C2H6", "CH3NH2", "CH3OH", "HCOOH", "C2H4", "CH3SH", "CH3Cl", "HOOH")]
        if mode.startswith("uhf"):  # open shells (doublets, triplets) and UHF singlets of closed-shell molecules
            names = gen.names_for(method, gen.RADICALS) + [m for m in names if m in ("H2O", "NH3", "CH2O", "HCN", "CH3OH")]
        picks = [names[i % len(names)] for i in g.permutation(max(len(names), n))[:n]] if n <= len(names) else \
                [names[int(i)] for i in g.integers(0, len(names), n)]
        for name in picks:
            Z, X, q, m = gen.molecule(name)
            gs = int(g.integers(0, 2**31))
            gg = np.random.default_rng(gs)
            Xd = gen.distort(X, gg, sigma=0.05)
            bonds = gen.bonded_pairs(Z, Xd) or [(0, 1)]
            transforms = []
            for _ in range(nhaar):
                transforms.append({"kind": "haar", "seed": int(g.integers(0, 2**31))})
            # singular set: choose bonds (prefer heavy-heavy), each axis
            heavy = [b for b in bonds if Z[b[0]] > 1 and Z[b[1]] > 1]
            chosen = []
            if heavy:
                chosen.append(heavy[int(g.integers(0, len(heavy)))])
            chosen.append(bonds[int(g.integers(0, len(bonds)))])
            if tier == "thorough":
                chosen = list(dict.fromkeys(chosen + bonds[:3]))
            for (i, j) in dict.fromkeys(chosen):
                for ax in gen.AXES:
                    cones = ncone if tier == "thorough" else [ncone[int(g.integers(0, len(ncone)))], 0.0]
                    for cone in dict.fromkeys(cones):
                        transforms.append({"kind": "align", "pair": [i, j], "axis": ax, "cone": cone,
                                           "seed": int(g.integers(0, 2**31))})
            case = {"mol": name, "method": method, "mode": mode, "geom_seed": gs, "transforms": transforms}
            if mode.startswith("cutoff"):
                # cutoff in the middle of the widest gap of the sorted pair distances between 70 % and 98 % of the
                # molecular diameter, so that round-off under rotation can never flip a pair across it
                d = np.sort(np.linalg.norm(Xd[:, None] - Xd[None], axis=-1)[np.triu_indices(len(Z), 1)])
                lo, hi = 0.70 * d[-1], 0.98 * d[-1]
                cand = [(d[k + 1] - d[k], 0.5 * (d[k] + d[k + 1])) for k in range(len(d) - 1) if lo <= d[k] and d[k + 1] <= hi]
                if not cand or max(cand)[0] < 1e-3:
                    continue
                case["cutoff"] = float(max(cand)[1])
            cases.append(case)
    return cases


def _settings(method, mode, cutoff=None):
    from vlib import run
    if mode.startswith("cutoff"):
        return run.settings(method, eps=1e-10, converger=(2,), grad="analytical" if mode.endswith("analytical") else "autodiff",
                            extra={"pair_outer_cutoff": float(cutoff)})
    if mode == "excited":
        return run.settings(method, eps=1e-10, converger=(2,), grad="analytical",
                            excited={"n_states": 3, "tolerance": 1e-8, "method": "cis",
                                     "compute_transition_properties": True}, active_state=1,
                            extra={"nonadiabatic": {"compute_nac": True}})
    if mode == "learned":  # caller-supplied per-atom parameters + per-pair resonance scaling (learned_parameters)
        return run.settings(method, eps=1e-10, converger=(2,), extra={"learned": list(LEARNED_NAMES)})
    if mode == "excited_all":  # forces and relaxed / unrelaxed dipoles of EVERY state (do_all_forces)
        return run.settings(method, eps=1e-10, converger=(2,), grad="analytical",
                            excited={"n_states": 3, "tolerance": 1e-8, "method": "cis"}, active_state=1,
                            extra={"do_all_forces": True})
    if mode == "excited_rpa":
        return run.settings(method, eps=1e-10, converger=(2,), grad="analytical",
                            excited={"n_states": 3, "tolerance": 1e-8, "method": "rpa"}, active_state=1)
    if mode.startswith("uhf"):
        return run.settings(method, eps=1e-10, converger=(1,), uhf=True,
                            grad="analytical" if mode.endswith("analytical") else "autodiff")
    conv = (2,) if method != "PM6" else (1,)
    return run.settings(method, eps=1e-10, converger=conv, grad="autodiff" if mode == "autodiff-d" else mode)


def _transform(Xd, Z, t):
    g = np.random.default_rng(t["seed"])
    if t["kind"] == "haar":
        R = gen.haar(g)
        tr = g.uniform(-20, 20, 3)
    else:
        R = gen.align_pair(Xd, t["pair"][0], t["pair"][1], t["axis"], cone=t["cone"], g=g)
        tr = g.uniform(-5, 5, 3) if t["seed"] % 2 else np.zeros(3)
    return R, tr


def classify(Z, Xt, method):
    """mechanism classifier over the witness geometry (for known-finding matching).
    pair-on-x-pole : rotate_with_quaternion freezes the frame when |1+v_x| < 1e-7, i.e. for a pair vector
                     (with at least one p-bearing atom) within 4.47e-4 rad of +-x  -> threshold 4.6e-4 rad.
    pm6-pair-on-z  : RotationMatrixD freezes the azimuth when sqrt(vx^2+vy^2) < 1e-10 (exact +-z alignment, any
                     non-hydrogen pair); for a pair with a d-orbital atom the polar-angle derivative is also
                     ill-conditioned near the pole (measured force error 7e-10/theta eV/A for SO2: 7e-6 at 1e-4 rad,
                     2.3e-6 at 3e-4 rad) -> listed for theta < 2e-4 rad.
    pm6-dd-pair-not-rotation-invariant : under PM6 the integrals of a pair in which BOTH atoms carry d orbitals
                     (Al, Si, P, S, Cl) depend on the orientation of the pair (any orientation)."""
    n = len(Z)
    amin_x = 9.0
    xymin = 9.0
    xymin_d = 9.0
    for i in range(n):
        for j in range(i + 1, n):
            if Z[i] <= 1 and Z[j] <= 1:
                continue
            v = Xt[j] - Xt[i]
            v = v / np.linalg.norm(v)
            amin_x = min(amin_x, math.atan2(math.hypot(v[1], v[2]), abs(v[0])))
            xymin = min(xymin, math.hypot(v[0], v[1]))
            if Z[i] in D_ELEMENTS_PM6 or Z[j] in D_ELEMENTS_PM6:
                xymin_d = min(xymin_d, math.hypot(v[0], v[1]))
    if method == "PM6" and any(Z[i] in D_ELEMENTS_PM6 and Z[j] in D_ELEMENTS_PM6
                               for i in range(n) for j in range(i + 1, n)):
        return "pm6-dd-pair-not-rotation-invariant"
    if method == "PM6" and (xymin < 1e-9 or xymin_d < 2e-4):
        return "pm6-pair-on-z"
    if amin_x < 4.6e-4:
        return "pair-on-x-pole"
    return None


def run_case(case):
    from vlib import run
    Z, X, q, m = gen.molecule(case["mol"])
    Xd = gen.distort(X, np.random.default_rng(case["geom_seed"]), sigma=0.05)
    method, mode = case["method"], case["mode"]
    sett = _settings(method, mode, case.get("cutoff"))
    g0 = np.random.default_rng(case["geom_seed"] + 1)
    R0 = gen.generic_rotation(Xd, g0)
    Xref = Xd @ R0.T
    viol, margins, mon, cells = [], {}, {"transforms_compared": 0, "singular_transforms_compared": 0}, []
    if mode == "learned":
        # per-atom parameters = table values perturbed by 2 % independently per ATOM (same-element atoms differ) and a
        # per-pair (s-s, s-p, p-s, p-p) resonance scaling 'Kbeta' with unequal columns; identical in every frame
        import torch
        plain = run.single_point(Z, Xref, run.settings(method, eps=1e-10, converger=(2,)), charges=q, mult=m, keep=True)
        rg = np.random.default_rng(case["geom_seed"] + 7)
        tab = plain["_mol"].parameters
        L0 = {k: tab[k].detach().clone() * torch.as_tensor(1.0 + 0.02 * rg.standard_normal(tuple(tab[k].shape))) for k in LEARNED_NAMES}
        L0["Kbeta"] = torch.as_tensor(1.0 + 0.06 * rg.standard_normal((len(Z) * (len(Z) - 1) // 2, 4)))

        def evaluate(Xc):
            LL = {a: b.clone() for a, b in L0.items()}
            with run.quiet():
                mol_, es_, _ = run.build(Z, Xc, sett, q, m, learned=LL)
                es_(mol_, learned_parameters=LL)
            return run.harvest(mol_, es_)
    else:
        def evaluate(Xc):
            return run.single_point(Z, Xc, sett, charges=q, mult=m)
    ref = evaluate(Xref)
    if ref["notconverged"] is not None and bool(np.any(ref["notconverged"])):
        return {"ineligible": "reference run not converged"}
    nat = len(Z)
    Fref = ref["force"][0]
    # evaluators with an inner central-difference step (anal_grad.delta = 1e-5 A) amplify the round-off noise of the
    # overlap recursion, which is not rotation invariant; allowance derived in props/c01_force_gradient.py (DESIGN 14.3)
    inner = 0.0
    if mode not in ("autodiff", "autodiff-d", "uhf", "cutoff"):
        from props import c01_force_gradient as c01
        inner = 2.0 * c01.inner_step_allowance(method, Z)  # two independent noisy evaluations are compared
    tol_f = TOL_F + inner

    cur = {}

    def upd(name, val, tol):
        # NaN-safe: a non-finite observation violates the clause (NaN > 1 would be False)
        r = float(val) / tol
        if not np.isfinite(r):
            r = float("inf")
        if name not in cur or r > cur[name]:
            cur[name] = r
        return not (r <= 1.0)

    def commit(mech):
        # margins of comparisons that fall under a listed singular mechanism are kept apart, so that
        # 'worst_margin' describes the cases on which the property is claimed to hold
        tgt = margins if mech is None else margins_sing
        for k, v in cur.items():
            if k not in tgt or v > tgt[k]:
                tgt[k] = v
        cur.clear()

    margins_sing = {}

    def net(out, Xc, label, tinfo):
        F = out["force"][0]
        sF = np.abs(F.sum(axis=0)).max()
        c = Xc - Xc.mean(axis=0)
        tq = np.abs(np.cross(c, F).sum(axis=0)).max()
        rmax = max(1.0, np.abs(c).max())
        bad = []
        if upd("net_force", sF, 1e-7 * nat):
            bad.append(("net-force", sF))
        if upd("net_torque", tq, (5e-6 + 0.5 * inner) * nat * rmax):
            bad.append(("net-torque", tq))
        return bad

    for cl, val in net(ref, Xref, "ref", None):
        viol.append({"clause": cl, "mech": classify(Z, Xref, method), "detail": {"value": float(val), "where": "reference orientation"}})
    commit(classify(Z, Xref, method))

    exc_ok = None
    if ref.get("cis_energies") is not None:
        e = ref["cis_energies"][0]
        exc_ok = [bool(min([abs(e[k] - e[l]) for l in range(len(e)) if l != k] + [9.0]) > 0.05) for k in range(len(e))]
    nontrivial = False
    for t in case["transforms"]:
        R, tr = _transform(Xref, Z, t)
        Xt = Xref @ R.T + tr
        if t["kind"] == "align" and t["cone"] == 0.0:
            # users type exact zeros: make the aligned pair vector EXACTLY parallel to the axis (the rotation leaves
            # 1e-16 residues in the perpendicular components, which would miss exact-singularity code paths)
            ia, ja = t["pair"]
            k = "xyz".index(t["axis"][1])
            for p in range(3):
                if p != k:
                    Xt[ja, p] = Xt[ia, p]
        try:
            out = evaluate(Xt)
        except Exception as e:  # the reference orientation of the same molecule completed
            msg = "%s: %s" % (type(e).__name__, str(e)[:300])
            if re.search(r"not converge|did not converge|max(imum)? (number of )?iter", msg, re.I):
                # an iterative solver gave up loudly: same standing as a raised non-convergence flag
                mon["transformed_frame_solver_gave_up"] = mon.get("transformed_frame_solver_gave_up", 0) + 1
                continue
            mon["transformed_frame_raised"] = mon.get("transformed_frame_raised", 0) + 1
            viol.append({"clause": "raises-in-transformed-frame-only", "mech": classify(Z, Xt, method),
                         "detail": {"error": msg, "transform": t, "coords": Xt.tolist(), "species": Z}})
            continue
        if out["notconverged"] is not None and bool(np.any(out["notconverged"])):
            continue
        mon["transforms_compared"] += 1
        if mode == "learned":
            mon["learned_parameter_transforms_compared"] = mon.get("learned_parameter_transforms_compared", 0) + 1
        if t["kind"] == "align":
            mon["singular_transforms_compared"] += 1
            cells.append("%s/%s/align%s/cone%g" % (method, mode, t["axis"], t["cone"]))
        else:
            cells.append("%s/%s/haar" % (method, mode))
        nontrivial = True
        mech = classify(Z, Xt, method)
        bad = []
        # a non-finite output with a clean convergence flag is never one of the listed singular-set mechanisms
        # (those give finite, wrong numbers): report it unclassified
        nonfin = [k for k in ("Etot", "Eelec", "Enuc", "Hf", "force", "q", "e_mo", "dipole", "all_forces",
                              "state_dip_relaxed", "state_dip_unrelaxed")
                  if out.get(k) is not None and not np.all(np.isfinite(np.asarray(out[k], float)))]
        if nonfin:
            mon["non_finite_outputs"] = mon.get("non_finite_outputs", 0) + 1
            viol.append({"clause": "non-finite-output-with-clean-flag", "mech": None,
                         "detail": {"fields": nonfin, "transform": t, "coords": Xt.tolist(), "species": Z}})
            continue
        for k in ("Etot", "Eelec", "Enuc", "Hf"):
            d = abs(float(out[k][0]) - float(ref[k][0]))
            if upd("d" + k, d, TOL_E):
                bad.append((k, d))
        # number of real orbitals (Molecule.norb ignores d shells, so count from the species under PM6)
        if method == "PM6":
            no = sum(9 if z in D_ELEMENTS_PM6 else (4 if z > 1 else 1) for z in Z)
        else:
            no = sum(4 if z > 1 else 1 for z in Z)
        d = np.abs(out["e_mo"][0][..., :no] - ref["e_mo"][0][..., :no]).max()  # (norb,) RHF or (2, norb) UHF
        if upd("d_emo", d, TOL_EMO):
            bad.append(("e_mo", d))
        ga, gb = np.asarray(out["gap"], float).reshape(-1), np.asarray(ref["gap"], float).reshape(-1)
        if ga.size and ga.size == gb.size:
            d = np.abs(ga - gb).max()
            if upd("d_gap", d, TOL_EMO):
                bad.append(("gap", d))
        d = np.abs(out["q"][0] - ref["q"][0]).max()
        if upd("d_q", d, TOL_Q):
            bad.append(("charges", d))
        d = np.abs(out["force"][0] - Fref @ R.T).max()
        if upd("d_force", d, tol_f):
            bad.append(("force-covariance", d))
        if out.get("dipole") is not None and ref.get("dipole") is not None and q == 0:
            d = np.abs(out["dipole"][0] - ref["dipole"][0] @ R.T).max()
            if upd("d_dipole", d, TOL_MU):
                bad.append(("dipole-covariance", d))
        if exc_ok is not None and out.get("cis_energies") is not None:
            eo, er = out["cis_energies"][0], ref["cis_energies"][0]
            for k in range(len(er)):
                if exc_ok[k]:
                    if upd("d_exc", abs(eo[k] - er[k]), TOL_EXC):
                        bad.append(("excitation-energy-%d" % (k + 1), abs(eo[k] - er[k])))
            # oscillator strengths (scalars) and transition dipoles / NAC vectors (covariant up to a sign
            # per state, compared only for well separated roots)
            if out.get("osc") is not None and ref.get("osc") is not None:
                for k in range(len(er)):
                    if exc_ok[k]:
                        mon["osc_compared"] = mon.get("osc_compared", 0) + 1
                        dd = abs(float(out["osc"][0][k]) - float(ref["osc"][0][k]))
                        if upd("d_osc", dd, 2e-6):
                            bad.append(("oscillator-strength-%d" % (k + 1), dd))
            if out.get("tdip") is not None and ref.get("tdip") is not None:
                for k in range(len(er)):
                    if exc_ok[k]:
                        a, b = out["tdip"][0][k], ref["tdip"][0][k] @ R.T
                        dd = min(np.abs(a - b).max(), np.abs(a + b).max())
                        if upd("d_tdip", dd, 5e-6):
                            bad.append(("transition-dipole-covariance-%d" % (k + 1), dd))
            if isinstance(out.get("nac"), dict) and isinstance(ref.get("nac"), dict):
                for key, vr in ref["nac"].items():
                    i1, i2 = [int(x) for x in key.split("-")]
                    if key in out["nac"] and exc_ok[i1] and exc_ok[i2]:
                        mon["nac_compared"] = mon.get("nac_compared", 0) + 1
                        a, b = out["nac"][key][0], vr[0] @ R.T
                        scale = max(1.0, np.abs(b).max())
                        dd = min(np.abs(a - b).max(), np.abs(a + b).max()) / scale
                        if upd("d_nac", dd, 2e-5):
                            bad.append(("nac-covariance-%s" % key, dd))
        if out.get("all_forces") is not None and ref.get("all_forces") is not None and exc_ok is not None:
            # do_all_forces: force of every state (index 0 = ground state) and the state dipoles
            for k in range(out["all_forces"].shape[1]):
                if k == 0 or exc_ok[k - 1]:
                    mon["state_forces_compared"] = mon.get("state_forces_compared", 0) + 1
                    dd = np.abs(out["all_forces"][0][k] - ref["all_forces"][0][k] @ R.T).max()
                    if upd("d_all_forces", dd, tol_f):
                        bad.append(("all-forces-covariance-state%d" % k, dd))
            for key in ("state_dip_relaxed", "state_dip_unrelaxed"):
                if out.get(key) is not None and ref.get(key) is not None and q == 0:
                    for k in range(out[key].shape[1]):
                        if exc_ok[k]:
                            mon["state_dipoles_compared"] = mon.get("state_dipoles_compared", 0) + 1
                            dd = np.abs(out[key][0][k] - ref[key][0][k] @ R.T).max()
                            if upd("d_" + key, dd, TOL_MU):
                                bad.append((key.replace("_", "-") + "-covariance-%d" % (k + 1), dd))
        bad += net(out, Xt, "t", t)
        commit(mech)
        if mech:
            mon["transforms_in_listed_singular_set"] = mon.get("transforms_in_listed_singular_set", 0) + 1
        for cl, val in bad:
            viol.append({"clause": cl, "mech": mech,
                         "detail": {"value": float(val), "transform": t, "coords": Xt.tolist(), "species": Z}})
    return {"nontrivial": nontrivial, "violations": viol, "margins": margins, "monitors": mon, "cells": cells,
            "obs": {"Etot_ref": float(ref["Etot"][0]), "n_transforms": len(case["transforms"]),
                    "compared": mon["transforms_compared"], "worst": margins,
                    "worst_inside_listed_singular_set": margins_sing}}
