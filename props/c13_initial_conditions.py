"""C13 -- initial conditions, centre-of-mass handling, seeding.

Technique: invariants at hooks (wrapper on `_zero_com` / `initialize_velocity`, snapshot of the
live Molecule right after the real `initialize`) + offline checkers over the step-0 rows of the
HDF5 files + metamorphic relations between real runs (same seed after different RNG histories,
different seeds, seed=None after an outer manual_seed, supplied field with two seeds).

clauses
  T0-stored / T0-codata     step-0 /data/thermo/T equals Temp (1e-10 rel; exactly 0 at 0 K) and the temperature recomputed
                            from the step-0 /velocities row with CODATA constants and the documented n_dof
                            (Basic, undamped XL-BOMD: 3N-{0,3,6}; Langevin, damped XL-BOMD: 3N) equals Temp to 1e-6
  n_dof-rule                live md.n_dof equals that documented count (for linear molecules under 'angular' the physically
                            right 3N-5 is accepted as well as the documented 3N-6)
  n_dof-positive            the count in force is > 0 (else T is undefined); mech ndof-zero-diatomic-angular when a molecule
                            with <= 2 atoms meets ('angular', N) in an engine that subtracts the constraints
  P0 / L0                   drawn velocities: |P| <= f sum m|v|, |L| <= f sum m|r||v| at step 0, f = 1e-12 + 16 eps_mach cond(I) at the geometry of the row
                            (momenta cannot be removed more accurately than the conditioning of the inertia tensor allows)
  padding-velocity          padding rows of molecule.velocities exactly zero after initialize and after the run
  padding-coordinates       padding rows of molecule.coordinates bitwise equal to the input after initialize and after the run
  zero-com-Ek / -P / -L     every _zero_com call outside "initialise from a supplied field": kinetic energy before = after
                            (1e-12 rel), |P| after <= f scale, |L| after <= f scale when angular removal was asked
  periodic-P / periodic-L   HDF5 rows right after a due periodic removal have zero P (and L for 'angular')
  seed-history              same seed => bitwise identical HDF5 content whatever random numbers were consumed before run()
  seed-none                 torch.manual_seed(s); run(seed=None) == run(seed=s) bitwise (documented meaning of None)
  seed-differs              different seeds => different step-0 velocities (Temp > 0) / different Langevin trajectories
  step0-row-is-live         the step-0 /velocities and /coordinates rows equal molecule.velocities / .coordinates right after the real
                            initialize, bitwise, every engine incl. SurfaceHoppingDynamics damped and undamped
  T0-live                   the temperature of those LIVE velocities (live constants, n_dof in force) equals Temp to 1e-10
  supplied-step0            supplied velocities are the step-0 /velocities row and the post-initialize molecule.velocities, bitwise
  supplied-seed             the seed has no effect on an NVE run with supplied velocities (bitwise equal HDF5)
  supplied-seed-history     stochastic engine (Langevin, damped XL-BOMD, surface hopping) started from preset velocities: the same seed
                            gives bitwise identical HDF5 after two different RNG histories, and (seed-differs) another seed after the
                            SAME history gives a different trajectory
  spelling-accepted / spelling-bitwise   every spelling of the COM-removal mode that initialize() accepts (capitals, surrounding blanks:
                            'Angular', 'ANGULAR', ' angular ', ' Linear', ...) runs, gives bitwise the HDF5 of the canonical spelling with the
                            same seed (fresh draws and supplied fields with net P and L; NVE and thermostatted), and satisfies every
                            step-0 / periodic-removal clause under the canonical mode
  reuse-bitwise             ONE driver object (Basic, undamped XL-BOMD / KSA) run twice on fresh Molecules with remove_com sequences
                            angular->None, angular->linear, linear->None, None->angular: the second run satisfies every step-0 clause
                            under the mode of THAT run and is bitwise equal to a fresh driver's run with the same seed
  run-raised                a run in the quantifier's range must not raise
"""
import numpy as np

from vlib import gen

PROPERTY = "C13"
RULE = ("case = (system: molecule or zero-padded mixed batch incl. linear and single-heavy-atom members, engine, Temp, "
        "remove_com, seed, RNG pre-consumption count) for engine-drawn velocities [kind draw], or (system, engine, "
        "supplied field variant zero-momentum/net-linear/net-angular/both/all-zero, remove_com, two seeds) [kind supplied]; "
        "each case = 2-4 real md.run calls of 2-3 steps; non-trivial when all runs completed and the step-0 rows were read; "
        "distinct by SHA-1")
ASSUMPTIONS = ["float64 CPU, one torch thread, runs of one case execute in one process",
               "n_dof rule is the documented one (docs/source/bomd.rst: 3 / 6 constraints, linear molecules not auto-detected; "
               "Langevin keeps 3N)", "atomic masses of the shipped table are the property's given"]
REQUIRED_MONITORS = ["md_runs", "draws_checked", "zero_com_calls", "zero_com_nontrivial", "digest_pairs", "supplied_checked",
                     "padding_rows_checked", "linear_molecules", "stochastic_supplied", "reuse_sequences", "live_step0_checked", "sh_cells", "noncanonical_spellings"]
CASE_TIMEOUT = 600.0
BUDGET_S = {"quick": 230, "thorough": 1600}

EPS = 1e-8
LINEAR = {"CO2", "HCN", "H2", "N2", "CO", "C2H2", "HF", "HCl", "LiH", "BeH2"}


def gen_cases(tier, seed):
    g = gen.rng("C13", tier)
    systems = [["H2O"], ["CO2"], ["HCN"], ["H2"], ["CH4"], ["H2O", "CH4"], ["CO2", "NH3", "H2"], ["CH2O", "HCN"],
               ["NH3"], ["CH3OH", "H2O"], ["N2", "CH4"], ["HF", "C2H2"]]
    temps = [0.0, 10.0, 300.0, 2000.0]
    rcs = [None, ["linear", 1], ["angular", 1], ["linear", 2], ["angular", 3]]
    engines = ["basic", "langevin", "xl", "basic", "xl-damped", "basic"]
    variants = ["zero-momentum", "net-linear", "net-angular", "both", "all-zero"]
    n_draw, n_sup = (30, 20) if tier == "quick" else (420, 240)
    cases = []
    for i in range(n_draw):
        sysm = systems[i % len(systems)] if i < 2 * len(systems) else systems[int(g.integers(0, len(systems)))]
        cases.append({"kind": "draw", "mols": sysm, "engine": engines[(i // 2) % len(engines)] if i < 24 else engines[int(g.integers(0, len(engines)))],
                      "method": ["AM1", "PM3", "MNDO"][i % 3], "Temp": temps[(i + i // 4) % 4], "remove_com": rcs[(i + i // 5) % 5],
                      "seed": int(g.integers(0, 10 ** 6)), "preconsume": int(g.integers(1, 2000)),
                      "steps": 2 if tier == "quick" else 3, "dt": [0.5, 0.2, 1.0][i % 3], "geom_seed": int(g.integers(0, 2 ** 31))})
    for i in range(n_sup):
        sysm = systems[(3 * i + 1) % len(systems)]
        eng = ["basic", "basic", "langevin", "xl", "basic", "xl-damped"][i % 6]
        cases.append({"kind": "supplied", "mols": sysm, "engine": eng, "method": ["AM1", "PM3"][i % 2], "Temp": [300.0, 0.0, 50.0][i % 3],
                      "field_T": [300.0, 1000.0][(i // 3) % 2], "variant": variants[i % 5],
                      "remove_com": [None, None, ["linear", 1], ["angular", 1], ["linear", 2]][(i // 5) % 5],
                      "seeds": [int(g.integers(0, 10 ** 6)), int(g.integers(0, 10 ** 6))], "steps": 2 if tier == "quick" else 3, "dt": [0.5, 0.2][i % 2],
                      "geom_seed": int(g.integers(0, 2 ** 31))})
    spell = ["Angular", "ANGULAR", " angular ", "Linear", "\tangular\n", " LINEAR", "aNgUlAr", "angular "]
    for i in range(4 if tier == "quick" else 32):
        raw = spell[i % len(spell)] if i >= 4 else ["Angular", " angular ", "ANGULAR", " Linear"][i]
        cases.append({"kind": "spelling", "mols": [["CH4"], ["H2O", "CH4"], ["NH3"], ["CH2O", "HCN"]][(i + i // 4) % 4],
                      "engine": ["basic", "basic", "langevin", "xl"][i % 4], "method": ["AM1", "PM3"][i % 2], "Temp": [300.0, 1000.0][(i // 2) % 2],
                      "raw_mode": raw, "stride": [1, 2, 1, 3][i % 4], "field": ["draw", "supplied"][i % 2], "field_T": 300.0,
                      "seed": int(g.integers(0, 10 ** 6)), "steps": 3, "dt": [0.5, 0.2][i % 2], "geom_seed": int(g.integers(0, 2 ** 31))})
    seqs = [(["angular", 1], None), (["angular", 2], ["linear", 1]), (["linear", 1], None), (None, ["angular", 1])]
    rsys = [["CH4"], ["H2O", "CH4"], ["CO2", "NH3", "H2"], ["CH2O"]]
    for i in range(6 if tier == "quick" else 48):
        cases.append({"kind": "reuse", "mols": rsys[(i + i // 4) % 4], "engine": ["basic", "xl", "ksa"][i % 3] if i >= 4 else ["basic", "basic", "xl", "ksa"][i],
                      "method": ["AM1", "PM3"][i % 2], "Temp": [300.0, 1000.0, 10.0][i % 3], "sequence": seqs[i % 4],
                      "seeds": [int(g.integers(0, 10 ** 6)), int(g.integers(0, 10 ** 6))], "preconsume": int(g.integers(1, 500)),
                      "steps": 2, "dt": [0.5, 0.2][i % 2], "geom_seed": int(g.integers(0, 2 ** 31))})
    for i in range(2 if tier == "quick" else 12):
        cases.append({"kind": "draw", "mols": [["CH2O"], ["CH2O", "CH2O"]][(i // 2) % 2], "engine": ["sh-nve", "sh"][i % 2], "method": "AM1",
                      "Temp": [300.0, 50.0, 1000.0][(i // 2) % 3], "remove_com": [None, ["linear", 1], ["angular", 1]][(i // 2) % 3],
                      "seed": int(g.integers(0, 10 ** 6)), "preconsume": int(g.integers(1, 2000)), "steps": 2, "dt": 0.2,
                      "geom_seed": 2 * int(g.integers(0, 2 ** 30))})
    for i in range(1 if tier == "quick" else 8):
        cases.append({"kind": "supplied", "mols": [["CH2O"], ["CH2O", "CH2O"]][i % 2], "engine": "sh-nve", "method": "AM1", "Temp": 300.0,
                      "field_T": 300.0, "variant": variants[i % 4], "remove_com": None,
                      "seeds": [int(g.integers(0, 10 ** 6)), int(g.integers(0, 10 ** 6))], "steps": 2, "dt": 0.2,
                      "geom_seed": 2 * int(g.integers(0, 2 ** 30))})
    for i in range(1 if tier == "quick" else 8):
        cases.append({"kind": "supplied", "mols": [["CH2O"], ["CH2O", "CH2O"]][i % 2], "engine": "sh", "method": "AM1", "Temp": 50.0,
                      "field_T": 300.0, "variant": variants[i % 4], "remove_com": None,
                      "seeds": [int(g.integers(0, 10 ** 6)), int(g.integers(0, 10 ** 6))], "steps": 2, "dt": 0.2,
                      "geom_seed": 2 * int(g.integers(0, 2 ** 30))})
    return cases


# ---------------------------------------------------------------------------------------
def _engine(case):
    e = case["engine"]
    if e == "xl-damped":
        return "xl", 20.0, {"k": 3}
    if e == "xl":
        return "xl", None, {"k": 3}
    if e == "ksa":
        return "ksa", None, {"k": 3, "max_rank": 2, "err_threshold": 0.0, "T_el": 1500}
    if e == "langevin":
        return "langevin", 15.0, None
    if e == "sh":
        return "sh", 15.0, None
    if e == "sh-nve":
        return "sh", None, None
    return "basic", None, None


def _sett(case):
    from vlib import run

    if case["engine"].startswith("sh"):
        return run.settings(case["method"], eps=EPS, converger=(2,), excited={"n_states": 2, "method": "cis", "tolerance": 1e-7})
    return run.settings(case["method"], eps=EPS, converger=(2,))


def _ndof_rule(engine, nat, rc):
    c = 0.0 if rc is None else (6.0 if str(rc[0]).lower().strip() == "angular" else 3.0)
    if engine in ("langevin", "xl-damped", "sh", "sh-nve"):  # Langevin.set_dof (inherited by surface hopping) keeps 3N
        c = 0.0
    return 3.0 * nat - c


def _system(case):
    g = np.random.default_rng(case["geom_seed"])
    mols = []
    for name in case["mols"]:
        Z, X, q, m = gen.molecule(name)
        X = gen.distort(X, g, sigma=0.04)
        X = X @ gen.generic_rotation(X, g).T + g.uniform(-3, 3, 3)
        mols.append((Z, X))
    pad = ["random", 0.0, 7.5][case["geom_seed"] % 3]
    S, C = gen.pad_batch(mols, extra_pad=case["geom_seed"] % 2 if len(mols) > 1 else 0, pad_value=pad, g=g)
    return S, C, [z for z, _ in mols], g


def _rigid_factor(m, X):
    """relative accuracy to which net momenta can be removed in float64: 1e-12 + 16*eps_machine*cond(I), cond over the
    inertia eigenvalues the repository's pseudo-inverse actually inverts (> 1e-10 amu A^2).  A slightly bent CO2 has
    cond ~ 7e5, and an independent numpy removal leaves |L| ~ 1e-11 * scale there as well."""
    from vlib import md

    w = np.linalg.eigvalsh(md.inertia(m, X - md.com(m, X)))
    w = w[w > 1e-10]
    cond = float(w.max() / w.min()) if len(w) else 1.0
    return 1e-12 + 16.0 * 2.220446049250313e-16 * cond


def _ndof_mech(case, Zs):
    """classifier: a molecule with <= 2 atoms under ('angular', N) in an engine that subtracts the constraints has 3N-6 <= 0."""
    rc = case["remove_com"]
    if rc is not None and str(rc[0]).lower().strip() == "angular" and case["engine"] in ("basic", "xl", "ksa") and any(len(z) <= 2 for z in Zs):
        return "ndof-zero-diatomic-angular"
    return None


class _ZeroComMonitor:
    """class-level wrappers on Molecular_Dynamics_Basic._zero_com / initialize_velocity (inherited by every engine)."""

    def __init__(self):
        self.events = []
        self.in_init_supplied = 0

    def __enter__(self):
        import torch
        import seqm.MolecularDynamics as MD

        self.cls = MD.Molecular_Dynamics_Basic
        self.o_zero, self.o_init = self.cls._zero_com, self.cls.initialize_velocity
        mon = self

        def measure(molecule):
            from vlib import md as mdl

            sp = molecule.species.detach().cpu().numpy()
            x = molecule.coordinates.detach().cpu().numpy()
            v = molecule.velocities.detach().cpu().numpy()
            mass = molecule.mass.detach().cpu().numpy()[..., 0]
            out = []
            for b in range(sp.shape[0]):
                r = sp[b] > 0
                m = mass[b][r]
                P, L = mdl.momenta(m, x[b][r], v[b][r])
                ps, ls = mdl.momentum_scales(m, x[b][r], v[b][r])
                out.append((mdl.kinetic_amu(m, v[b][r]), float(np.abs(P).max()), float(np.abs(L).max()), ps, ls,
                            _rigid_factor(m, x[b][r])))
            return out

        def zero_com(self_, molecule, *a, **k):
            before = measure(molecule)
            try:
                return mon.o_zero(self_, molecule, *a, **k)
            finally:
                after = measure(molecule)
                names = ("remove_angular", "translate_to_origin", "restore_kinetic_energy")
                kw = {"remove_angular": True, "translate_to_origin": False, "restore_kinetic_energy": True}
                kw.update(dict(zip(names, a)))
                kw.update(k)
                mon.events.append({"before": before, "after": after, "kw": kw, "supplied_init": bool(mon.in_init_supplied)})

        def initialize_velocity(self_, molecule, *a, **k):
            sup = torch.is_tensor(molecule.velocities)
            mon.in_init_supplied += 1 if sup else 0
            try:
                return mon.o_init(self_, molecule, *a, **k)
            finally:
                mon.in_init_supplied -= 1 if sup else 0

        self.cls._zero_com = zero_com
        self.cls.initialize_velocity = initialize_velocity
        return self

    def __exit__(self, *a):
        self.cls._zero_com, self.cls.initialize_velocity = self.o_zero, self.o_init


class _Acc:
    def __init__(self):
        self.margins, self.viol, self.cells = {}, [], []
        self.mon = {k: 0 for k in REQUIRED_MONITORS}

    def upd(self, name, val, tol, detail=None, mech=None):
        r = float(val) / float(tol) if tol > 0 else (0.0 if val == 0 else float("inf"))
        if not (r <= self.margins.get(name, -1.0)):
            self.margins[name] = r
        if not (r <= 1.0):
            d = {"value": float(val), "bound": float(tol)}
            d.update(detail or {})
            self.viol.append({"clause": name, "mech": mech, "detail": d})

    def flag(self, name, bad, detail=None, mech=None):
        """exact (bitwise / boolean) clause."""
        self.margins[name] = max(self.margins.get(name, 0.0), 2.0 if bad else 0.0)
        if bad:
            self.viol.append({"clause": name, "mech": mech, "detail": detail or {}})


def _one_run(case, S, C, sett, prefix, seed, velocities=None, preconsume=0, outer_seed=None, engine_obj=None, keep=False,
             rc_raw=None):
    """one real md.run; returns record incl. post-initialize snapshot, digests, zero_com events."""
    import torch
    from vlib import md

    eng, damp, xl = _engine(case)
    rc = tuple(case["remove_com"]) if case["remove_com"] else None
    if rc_raw is not None:
        rc = tuple(rc_raw)  # the caller's own spelling of the mode is handed to run() unchanged
    snap = {}

    def pre_run(mol, mdo):
        orig = getattr(mdo, "_c13_orig_initialize", None) or mdo.initialize  # a reused driver is wrapped once only
        mdo._c13_orig_initialize = orig

        def wrapped(*a, **k):
            r = orig(*a, **k)
            snap["x"] = mol.coordinates.detach().cpu().numpy().copy()
            snap["v"] = None if not torch.is_tensor(mol.velocities) else mol.velocities.detach().cpu().numpy().copy()
            return r

        mdo.initialize = wrapped
        # RNG history before run(): a different generator state and `preconsume` draws
        torch.manual_seed(987654321 + preconsume)
        if preconsume:
            torch.rand(preconsume)
            torch.randn(7)
        if outer_seed is not None:
            torch.manual_seed(int(outer_seed))

    molid = list(range(len(S)))
    with _ZeroComMonitor() as zm:
        rec = md.run_md(eng, S, C, sett, case["dt"], case["Temp"], case["steps"], prefix, molid=molid, damp=damp, xl=xl,
                        velocities=velocities, seed=seed, reuse_P=True, remove_com=rc, pre_run=pre_run, engine_obj=engine_obj,
                        keep=keep)
    rec["snap"] = snap
    rec["events"] = zm.events
    rec["digest"] = [md.h5_digest(rec["h5"][k]["path"]) if k in rec["h5"] else None for k in molid]
    return rec


def _check_padding(acc, S, C, rec, tag):
    S = np.asarray(S)
    C = np.asarray(C, float)
    pad = S == 0
    if not pad.any():
        return
    for label, x, v in (("post-initialize", rec["snap"].get("x"), rec["snap"].get("v")), ("end-of-run", rec["x_final"], rec["v_final"])):
        if x is None or v is None:
            continue
        acc.mon["padding_rows_checked"] += int(pad.sum())
        vmax = float(np.abs(v[pad]).max())
        acc.flag("padding-velocity", vmax != 0.0, {"when": label, "max_abs_velocity": vmax, "run": tag},
                 mech="com-removal-moves-padding")
        moved = float(np.abs(x[pad] - C[pad]).max())
        acc.flag("padding-coordinates", moved != 0.0, {"when": label, "max_shift": moved, "run": tag},
                 mech="com-removal-moves-padding")


def _check_events(acc, rec, tag):
    for ev in rec["events"]:
        acc.mon["zero_com_calls"] += 1
        if ev["supplied_init"]:
            acc.mon["zero_com_on_supplied_init"] = acc.mon.get("zero_com_on_supplied_init", 0) + 1
            continue
        for b, (bf, af) in enumerate(zip(ev["before"], ev["after"])):
            ek0, p0, l0, ps0, ls0, fac = bf
            ek1, p1, l1, ps1, ls1, _ = af
            if ek0 <= 0:
                continue
            if p0 > 1e-6 * ps0 or l0 > 1e-6 * ls0:
                acc.mon["zero_com_nontrivial"] += 1
            det = {"run": tag, "mol": b, "kw": ev["kw"], "Ek_before_amu": ek0, "Ek_after_amu": ek1}
            acc.upd("zero-com-Ek", abs(ek1 / ek0 - 1.0), 1e-12, det)
            det["rel_tolerance"] = fac
            acc.upd("zero-com-P", p1, fac * max(ps0, ps1, 1e-300), det)
            if ev["kw"]["remove_angular"]:
                acc.upd("zero-com-L", l1, fac * max(ls0, ls1, 1e-300), det)


def _step0(acc, case, Zs, rec, tag, drawn):
    """T(0), momenta at step 0 from the HDF5 rows; returns False when rows are missing."""
    from vlib import md

    rc = case["remove_com"]
    ok = True
    for k, Zr in enumerate(Zs):
        h = rec["h5"].get(k)
        if h is None or "velocities" not in h or len(h["velocities"]) < 1 or "T" not in h:
            ok = False
            continue
        mm = md.masses(Zr)
        x0, v0 = h["coordinates"][0], h["velocities"][0]
        sv, sx = (rec.get("snap") or {}).get("v"), (rec.get("snap") or {}).get("x")
        if sv is not None and sx is not None:
            # the step-0 rows must be the state the first integrator step starts from (live Molecule right after initialize)
            lv, lx = sv[k, :len(Zr)], sx[k, :len(Zr)]
            acc.flag("step0-row-is-live", not (np.array_equal(lv, v0) and np.array_equal(lx, x0)),
                     {"mol": k, "run": tag, "engine": case["engine"], "max_abs_dv": float(np.abs(lv - v0).max()),
                      "max_abs_dx": float(np.abs(lx - x0).max())})
            acc.mon["live_step0_checked"] += 1
        else:
            lv = None
        nd = _ndof_rule(case["engine"], len(Zr), rc)
        allowed = {nd}
        if nd != 3.0 * len(Zr) and str(rc[0]).lower().strip() == "angular" and case["mols"][k] in LINEAR:
            allowed.add(3.0 * len(Zr) - 5.0)  # physically right count for a linear molecule, should the TODO ever be done
        fac = _rigid_factor(mm, x0)
        if rec["n_dof"] is not None:
            live = float(rec["n_dof"][k])
            acc.upd("n_dof-rule", float(np.min(np.abs(live - np.array(sorted(allowed))))), 1e-9,
                    {"mol": k, "live": live, "documented": nd, "engine": case["engine"], "remove_com": rc, "species": Zr})
            if any(abs(live - a_) < 1e-9 for a_ in allowed):
                nd = live
        if not (nd > 0.0):
            acc.flag("n_dof-positive", True, {"mol": k, "n_dof": nd, "species": Zr, "remove_com": rc, "T0_stored": float(h["T"][0])},
                     mech=_ndof_mech(case, Zs))
            continue
        acc.flag("n_dof-positive", False)
        if drawn:
            T = case["Temp"]
            acc.mon["draws_checked"] += 1
            if case["mols"][k] in LINEAR:
                acc.mon["linear_molecules"] += 1
            if T == 0.0:
                acc.flag("T0-stored", float(h["T"][0]) != 0.0 or float(np.abs(v0).max()) != 0.0, {"mol": k, "T0": float(h["T"][0])})
            else:
                det = {"mol": k, "T0_stored": float(h["T"][0]), "Temp": T, "n_dof": nd, "species": Zr, "run": tag,
                       "rel_tolerance_momenta": fac}
                acc.upd("T0-stored", abs(float(h["T"][0]) / T - 1.0), 1e-10, det)
                if lv is not None:
                    lc = md.live_constants()
                    Tl = 2.0 * md.kinetic_amu(mm, lv) * lc["KINETIC_ENERGY_SCALE"] * lc["TEMPERATURE_SCALE"] / nd
                    acc.upd("T0-live", abs(Tl / T - 1.0), 1e-10, dict(det, T0_live=Tl))
                Tind = 2.0 * md.kinetic_amu(mm, v0) * md.REF_KE_SCALE * md.REF_TEMP_SCALE / nd
                acc.upd("T0-codata", abs(Tind / T - 1.0), 1e-6, dict(det, T0_recomputed=Tind))
                P, L = md.momenta(mm, x0, v0)
                ps, ls = md.momentum_scales(mm, x0, v0)
                acc.upd("P0", np.abs(P).max(), fac * ps, det)
                acc.upd("L0", np.abs(L).max(), fac * ls, det)
        # rows right after a due periodic removal
        if rc is not None:
            stride = int(rc[1])
            for s_ in range(1, len(h["velocities"])):
                if (s_ - 1) % stride:
                    continue
                P, L = md.momenta(mm, h["coordinates"][s_], h["velocities"][s_])
                ps, ls = md.momentum_scales(mm, h["coordinates"][s_], h["velocities"][s_])
                if ps <= 0:
                    continue
                fs = _rigid_factor(mm, h["coordinates"][s_])
                acc.upd("periodic-P", np.abs(P).max(), fs * ps, {"mol": k, "step": s_, "run": tag, "rel_tolerance": fs})
                if str(rc[0]).lower().strip() == "angular":
                    acc.upd("periodic-L", np.abs(L).max(), fs * ls, {"mol": k, "step": s_, "run": tag, "rel_tolerance": fs})
    return ok


def _draw(case):
    from vlib import env, run

    acc = _Acc()
    S, C, Zs, g = _system(case)
    sett = _sett(case)
    s0 = case["seed"]
    with env.Scratch("c13") as d:
        A = _one_run(case, S, C, sett, d + "/A", s0)
        B = _one_run(case, S, C, sett, d + "/B", s0, preconsume=case["preconsume"])
        Cc = _one_run(case, S, C, sett, d + "/C", s0 + 1 + case["preconsume"])
        D = _one_run(case, S, C, sett, d + "/D", None, preconsume=case["preconsume"] // 2, outer_seed=s0)
    runs = {"A": A, "B": B, "C": Cc, "D": D}
    for tag, r in runs.items():
        if r["error"]:
            acc.flag("run-raised", True, {"run": tag, "error": r["error"][:400], "Temp": case["Temp"], "remove_com": case["remove_com"],
                                          "species": Zs}, mech=_ndof_mech(case, Zs))
        else:
            acc.mon["md_runs"] += 1
    if any(r["error"] for r in runs.values()):
        return {"nontrivial": False, "violations": acc.viol, "margins": acc.margins, "monitors": acc.mon, "cells": [],
                "obs": {"errors": {t: r["error"] for t, r in runs.items()}}}
    ok = True
    for tag, r in runs.items():
        ok &= _step0(acc, case, Zs, r, tag, drawn=True)
        _check_padding(acc, S, C, r, tag)
        _check_events(acc, r, tag)
    stochastic = case["Temp"] > 0.0
    acc.flag("seed-history", A["digest"] != B["digest"],
             {"preconsumed": case["preconsume"], "seed": s0, "digests_A": A["digest"], "digests_B": B["digest"]})
    acc.flag("seed-none", A["digest"] != D["digest"], {"seed": s0, "digests_A": A["digest"], "digests_D": D["digest"]})
    acc.mon["digest_pairs"] += 2
    if stochastic and ok:
        same = all(np.array_equal(A["h5"][k]["velocities"][0], Cc["h5"][k]["velocities"][0]) for k in range(len(Zs)))
        acc.flag("seed-differs", same, {"seeds": [s0, s0 + 1 + case["preconsume"]]})
        acc.mon["digest_pairs"] += 1
    if case["engine"].startswith("sh"):
        acc.mon["sh_cells"] += 1
    acc.cells.append("draw/%s/T%g/rc-%s/%s" % (case["engine"], case["Temp"], case["remove_com"][0] if case["remove_com"] else "none",
                                               "batch" if len(Zs) > 1 else ("linear" if case["mols"][0] in LINEAR else "nonlinear")))
    return {"nontrivial": bool(ok), "violations": acc.viol, "margins": acc.margins, "monitors": acc.mon, "cells": acc.cells,
            "obs": {"T0": [float(A["h5"][k]["T"][0]) for k in range(len(Zs))], "n_dof": None if A["n_dof"] is None else A["n_dof"].tolist(),
                    "zero_com_calls": len(A["events"]), "bitwise_equal_AB": A["digest"] == B["digest"]}}


def _supplied(case):
    from vlib import env, md, run

    acc = _Acc()
    S, C, Zs, g = _system(case)
    var = case["variant"]
    V = np.array([md.supplied_velocities(s_, np.array(c_), case["field_T"], g, net_linear=var in ("net-linear", "both"),
                                         net_angular=var in ("net-angular", "both")) for s_, c_ in zip(S, C)])
    if var == "all-zero":
        V = np.zeros_like(V)
    sett = _sett(case)
    eng = case["engine"]
    stochastic = eng in ("langevin", "xl-damped", "sh") and case["Temp"] > 0.0
    with env.Scratch("c13") as d:
        A = _one_run(case, S, C, sett, d + "/A", case["seeds"][0], velocities=V)
        if stochastic:
            # same seed after another RNG history (B), another seed after the SAME history as A (Cc)
            B = _one_run(case, S, C, sett, d + "/B", case["seeds"][0], velocities=V, preconsume=17)
            Cc = _one_run(case, S, C, sett, d + "/C", case["seeds"][1], velocities=V)
        else:
            B = _one_run(case, S, C, sett, d + "/B", case["seeds"][1], velocities=V, preconsume=17)
            Cc = None
    runs = [("A", A), ("B", B)] + ([("C", Cc)] if Cc is not None else [])
    called_on_supplied = sum(1 for _, r in runs for e in r["events"] if e["supplied_init"])
    mech = "user-velocities-com-stripped" if called_on_supplied else None
    for tag, r in runs:
        if r["error"]:
            acc.flag("run-raised", True, {"run": tag, "error": r["error"][:400], "variant": var}, mech=mech)
        else:
            acc.mon["md_runs"] += 1
    if any(r["error"] for _, r in runs):
        return {"nontrivial": False, "violations": acc.viol, "margins": acc.margins, "monitors": acc.mon, "cells": [],
                "obs": {"errors": [r["error"] for _, r in runs], "zero_com_on_supplied_init": called_on_supplied}}
    ok = True
    for tag, r in runs:
        ok &= _step0(acc, case, Zs, r, tag, drawn=False)
        _check_padding(acc, S, C, r, tag)
        _check_events(acc, r, tag)
        sv = r["snap"].get("v")
        bad_live = sv is None or not np.array_equal(sv, V)
        acc.flag("supplied-step0", bad_live, {"where": "molecule.velocities after initialize", "run": tag, "variant": var,
                                              "max_abs_diff": None if sv is None else float(np.abs(sv - V).max())}, mech=mech)
        for k, Zr in enumerate(Zs):
            h = r["h5"].get(k)
            if h is None or "velocities" not in h:
                ok = False
                continue
            row = h["velocities"][0]
            diff = float(np.abs(row - V[k, :len(Zr)]).max())
            acc.flag("supplied-step0", not np.array_equal(row, V[k, :len(Zr)]),
                     {"where": "/velocities row 0", "run": tag, "mol": k, "variant": var, "max_abs_diff": diff}, mech=mech)
            acc.mon["supplied_checked"] += 1
    if eng == "sh-nve":
        pass  # hop decisions draw random numbers but a hop within two steps is not guaranteed: neither relation is implied
    elif not stochastic:
        acc.flag("supplied-seed", A["digest"] != B["digest"], {"seeds": case["seeds"], "engine": eng})
        acc.mon["digest_pairs"] += 1
    else:
        acc.flag("supplied-seed-history", A["digest"] != B["digest"],
                 {"seed": case["seeds"][0], "engine": eng, "what": "stochastic engine, preset velocities, same seed, two RNG histories",
                  "digests_A": A["digest"], "digests_B": B["digest"]})
        acc.mon["digest_pairs"] += 1
        acc.mon["stochastic_supplied"] += 1
        if ok:
            same = all(np.array_equal(A["h5"][k]["velocities"][-1], Cc["h5"][k]["velocities"][-1]) for k in range(len(Zs)))
            acc.flag("seed-differs", same, {"seeds": case["seeds"], "engine": eng,
                                            "what": "stochastic trajectory from preset velocities, same RNG history"})
            acc.mon["digest_pairs"] += 1
    if eng.startswith("sh"):
        acc.mon["sh_cells"] += 1
    acc.cells.append("supplied/%s/%s/rc-%s/%s" % (eng, var, case["remove_com"][0] if case["remove_com"] else "none",
                                                  "batch" if len(Zs) > 1 else "single"))
    return {"nontrivial": bool(ok), "violations": acc.viol, "margins": acc.margins, "monitors": acc.mon, "cells": acc.cells,
            "obs": {"variant": var, "zero_com_on_supplied_init": called_on_supplied, "n_events": len(A["events"]),
                    "max_abs_v": float(np.abs(V).max())}}


def _reuse(case):
    """ONE driver object run twice on fresh Molecules with different remove_com modes; the second run is judged with the step-0
    clauses under the mode of THAT run and must be bitwise equal to a fresh driver's run with the same seed."""
    from vlib import env

    acc = _Acc()
    S, C, Zs, g = _system(case)
    sett = _sett(case)
    rc1, rc2 = case["sequence"]
    c1, c2 = dict(case, remove_com=rc1), dict(case, remove_com=rc2)
    with env.Scratch("c13") as d:
        R1 = _one_run(c1, S, C, sett, d + "/R", case["seeds"][0], keep=True)
        if R1["error"] or R1.get("_md") is None:
            return {"inconclusive": "first run on the driver raised: %s" % R1["error"]}
        R2 = _one_run(c2, S, C, sett, d + "/R", case["seeds"][1], preconsume=case["preconsume"], engine_obj=R1["_md"])
        F = _one_run(c2, S, C, sett, d + "/F", case["seeds"][1])
    for r in (R1, R2):
        r.pop("_md", None)
        r.pop("_mol", None)
    for tag, r in (("reused-driver", R2), ("fresh-driver", F)):
        if r["error"]:
            acc.flag("run-raised", True, {"run": tag, "error": r["error"][:400], "sequence": case["sequence"]}, mech=_ndof_mech(c2, Zs))
        else:
            acc.mon["md_runs"] += 1
    if R2["error"] or F["error"]:
        return {"nontrivial": False, "violations": acc.viol, "margins": acc.margins, "monitors": acc.mon, "cells": [],
                "obs": {"errors": [R2["error"], F["error"]]}}
    acc.mon["md_runs"] += 1
    ok = _step0(acc, c1, Zs, R1, "first", drawn=True)
    ok &= _step0(acc, c2, Zs, R2, "reused-driver", drawn=True)
    ok &= _step0(acc, c2, Zs, F, "fresh-driver", drawn=True)
    for tag, r in (("reused-driver", R2), ("fresh-driver", F)):
        _check_padding(acc, S, C, r, tag)
        _check_events(acc, r, tag)
    acc.flag("reuse-bitwise", R2["digest"] != F["digest"],
             {"sequence": case["sequence"], "engine": case["engine"], "n_dof_reused": None if R2["n_dof"] is None else R2["n_dof"].tolist(),
              "n_dof_fresh": None if F["n_dof"] is None else F["n_dof"].tolist(),
              "T0_reused": [float(R2["h5"][k]["T"][0]) for k in R2["h5"]], "T0_fresh": [float(F["h5"][k]["T"][0]) for k in F["h5"]]})
    acc.mon["digest_pairs"] += 1
    acc.mon["reuse_sequences"] += 1
    lab = lambda rc: "none" if rc is None else rc[0]
    acc.cells.append("reuse/%s/%s->%s" % (case["engine"], lab(rc1), lab(rc2)))
    return {"nontrivial": bool(ok), "violations": acc.viol, "margins": acc.margins, "monitors": acc.mon, "cells": acc.cells,
            "obs": {"sequence": case["sequence"], "n_dof_first": None if R1["n_dof"] is None else R1["n_dof"].tolist(),
                    "n_dof_second": None if R2["n_dof"] is None else R2["n_dof"].tolist(), "bitwise_equal_to_fresh": R2["digest"] == F["digest"]}}


def _spelling(case):
    """every spelling of the COM-removal mode that initialize() accepts (it lower-cases and strips the string) must behave like the
    canonical one: bitwise the same HDF5, the documented n_dof / T0, momenta zero after each due removal."""
    from vlib import env, md

    acc = _Acc()
    S, C, Zs, g = _system(case)
    raw = case["raw_mode"]
    canon = raw.lower().strip()
    if canon not in ("linear", "angular") or raw == canon:
        return {"ineligible": "not a non-canonical accepted spelling: %r" % raw}
    cc = dict(case, remove_com=[canon, case["stride"]])
    sett = _sett(cc)
    V = None
    if case["field"] == "supplied":
        V = np.array([md.supplied_velocities(s_, np.array(c_), case["field_T"], g, net_linear=True, net_angular=True) for s_, c_ in zip(S, C)])
    with env.Scratch("c13") as d:
        A = _one_run(cc, S, C, sett, d + "/canon", case["seed"], velocities=V)
        B = _one_run(cc, S, C, sett, d + "/raw", case["seed"], velocities=V, preconsume=11, rc_raw=(raw, case["stride"]))
    if A["error"]:
        return {"inconclusive": "canonical run raised: %s" % A["error"][:300]}
    acc.mon["md_runs"] += 1
    if B["error"]:
        acc.flag("spelling-accepted", True, {"raw_mode": raw, "canonical": canon, "error": B["error"][:400]})
        return {"nontrivial": False, "violations": acc.viol, "margins": acc.margins, "monitors": acc.mon, "cells": [], "obs": {"error": B["error"][:300]}}
    acc.flag("spelling-accepted", False)
    acc.mon["md_runs"] += 1
    drawn = V is None
    ok = _step0(acc, cc, Zs, A, "canonical", drawn=drawn)
    ok &= _step0(acc, cc, Zs, B, "raw:%r" % raw, drawn=drawn)
    for tag, r in (("canonical", A), ("raw", B)):
        _check_padding(acc, S, C, r, tag)
        _check_events(acc, r, tag)
    stochastic = case["engine"] in ("langevin", "xl-damped", "sh") and case["Temp"] > 0.0
    # same seed => the thermostat noise is the same too: the two requests are the same request
    acc.flag("spelling-bitwise", A["digest"] != B["digest"],
             {"raw_mode": raw, "canonical": canon, "engine": case["engine"], "field": case["field"], "stochastic": stochastic,
              "n_dof_canonical": None if A["n_dof"] is None else A["n_dof"].tolist(), "n_dof_raw": None if B["n_dof"] is None else B["n_dof"].tolist()})
    acc.mon["digest_pairs"] += 1
    acc.mon["noncanonical_spellings"] += 1
    acc.cells.append("spelling/%s/%s/%s" % (case["engine"], raw.strip().replace("\t", "").replace("\n", "") + ("+blank" if raw != raw.strip() else ""), case["field"]))
    return {"nontrivial": bool(ok), "violations": acc.viol, "margins": acc.margins, "monitors": acc.mon, "cells": acc.cells,
            "obs": {"raw_mode": raw, "bitwise_equal": A["digest"] == B["digest"], "n_dof": None if B["n_dof"] is None else B["n_dof"].tolist()}}


def run_case(case):
    if case["kind"] == "spelling":
        return _spelling(case)
    if case["kind"] == "reuse":
        return _reuse(case)
    if case["kind"] == "draw":
        return _draw(case)
    if case["kind"] == "supplied":
        return _supplied(case)
    raise ValueError(case["kind"])
