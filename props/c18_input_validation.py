"""C18 - invalid requests are rejected loudly; valid ones yield finite results or an explicit flag.

Negative space: every documented precondition is a mutation operator applied to a valid library input.  The
mutated request must raise - in `Molecule(...)`, `Electronic_Structure(...)`/`.forward` or `MD.run` - and the
call must not have produced or changed any result attribute (`Etot Eelec Enuc Hf Eiso force dm e_mo e_gap q`)
or left an output file.  Each operator is applied to a fresh molecule AND to a molecule that already carries
results of a valid call (the old results must stay bitwise what they were).

Positive space: valid inputs (0.5-30 A stretches / compressions, ions up to +-3, edge elements of every
parameter table, single and batched) - every returned energy / force / charge / orbital energy of a row is
finite or the row is flagged not converged.  A raised exception is recorded ("rejected loudly"), never judged."""
import numpy as np

from vlib import gen

PROPERTY = "C18"
RULE = ("negative case = (mutation operator, base library input, method, variant); positive case = (family stretch | "
        "compress | diatomic | ion | batch, molecule / element pair, geometry parameter, charge, method, solver).  Every "
        "negative case that raises (or not) is non-trivial; a positive case is non-trivial when the call returned (did not "
        "raise); distinct by SHA-1 of the case")
ASSUMPTIONS = ["float64 CPU", "expected exception family: any Exception raised by a `raise` statement of the seqm package; an "
               "error surfacing from torch / numpy internals is still 'loud' and is counted separately, not judged",
               "result attributes = those Electronic_Structure.forward assigns (Etot Eelec Enuc Hf Eiso force dm e_mo e_gap q); "
               "auxiliary attributes (w, molecular_orbitals, dipole, analytical_gradient, cis_*) set before a late guard are "
               "counted as an observation only",
               "electron counts outside [2, 2*n_orbitals - 2] are not generated"]
REQUIRED_MONITORS = ["negative_raised", "negative_fresh_checked", "negative_precomputed_checked", "positive_rows_finite",
                     "guard_sites_seen", "negative_raised_dict_reused", "negative_raised_dict_user_elements",
                     "positive_dispersion_cases", "positive_axis_aligned_runs", "saddle_negative_cis_root_cells",
                     "positive_md_option_runs", "md_energy_shift_guard_steps"]
# thorough tier: cases not started after this many seconds are skipped and reported (env override for smoke tests)
BUDGET_S = {"thorough": float(__import__("os").environ.get("VERIF_C18_BUDGET", "1500"))}
CASE_TIMEOUT = 600.0

RESULT_ATTRS = ("Etot", "Eelec", "Enuc", "Hf", "Eiso", "force", "dm", "e_mo", "e_gap", "q")
AUX_ATTRS = ("w", "molecular_orbitals", "dipole", "analytical_gradient", "cis_energies", "cis_amplitudes", "velocities", "acc")
EDGE_ELEMENTS = {m: sorted({e[0], e[1], e[2], e[-1], e[-2], 9, 8} & set(e)) for m, e in gen.ELEMENTS.items() if m != "PM6"}
HEAVY_QN4 = {"AM1": [35, 30], "PM3": [35, 30], "MNDO": [35, 30], "PM6_SP": [35, 30]}

# operator -> (stage at which the rejection is documented to happen, expected exception type names)
OPERATORS = {
    "unsorted-species": ("molecule", ("ValueError",)),
    "unsorted-species-batch-row": ("molecule", ("ValueError",)),
    "padding-before-atom": ("molecule", ("ValueError",)),
    "rhf-odd-electrons": ("molecule", ("ValueError",)),
    "rhf-odd-electrons-batch-row": ("molecule", ("ValueError",)),
    "uhf-impossible-multiplicity": ("molecule", ("ValueError",)),
    "uhf-sp2": ("forward", ("ValueError",)),
    "uhf-pulay": ("forward", ("NotImplementedError",)),
    "uhf-ksa": ("forward", ("NotImplementedError",)),
    "uhf-cis": ("driver", ("NotImplementedError",)),
    "uhf-rpa": ("driver", ("NotImplementedError",)),
    "uhf-pm6": ("forward", ("ValueError", "NotImplementedError", "RuntimeError")),
    "hetero-batch-rpa": ("forward", ("NotImplementedError",)),
    "hetero-batch-excited-gradient": ("forward", ("NotImplementedError",)),
    "active-state-without-excited-settings": ("forward", ("Exception",)),
    # per-molecule active_state TENSORS (set on the molecule) without an excited_states block
    "active-state-tensor-all-excited": ("forward", ("Exception",)),
    "active-state-tensor-mixed": ("forward", ("Exception",)),
    "unknown-com-mode": ("md", ("ValueError",)),
    "unsupported-principal-quantum-number": ("forward", ("ValueError",)),
    # preconditions documented by the code's own messages
    "excited-states-not-a-dict": ("driver", ("Exception",)),
    "excited-states-without-n_states": ("driver", ("ValueError",)),
    "excited-method-unknown": ("forward", ("Exception",)),
    "too-many-roots": ("forward", ("Exception",)),
    "driver-before-molecule": ("driver", ("RuntimeError",)),
    "driver-built-for-other-elements": ("forward", ("ValueError",)),
}
LISTED = [k for k in OPERATORS if k not in ("excited-states-not-a-dict", "excited-states-without-n_states", "excited-method-unknown",
                                            "too-many-roots", "driver-before-molecule", "driver-built-for-other-elements")]


TENSOR_OPS = ("active-state-tensor-all-excited", "active-state-tensor-mixed")
AXIS_NAMES = ["+x", "-x", "+y", "-y", "+z", "-z"]


def gen_cases(tier, seed):
    g = gen.rng("C18", tier)
    cases = []
    nrep = 6 if tier == "quick" else 60
    methods = ["AM1", "PM3", "MNDO", "PM6_SP"]
    hetero = ["H2O", "NH3", "CH4", "HCN", "CH2O", "CO", "HF", "CH3OH", "C2H4", "N2", "CH3F", "HOOH"]
    for r in range(nrep):                 # round-robin over the operators, so that a truncated run still sees all of them
        for op in OPERATORS:
            if op in TENSOR_OPS:
                continue                      # generated below from a generator of their own (earlier cases stay unchanged)
            method = methods[int(g.integers(0, 4))]
            names = [n for n in hetero if gen.available(n, method)]
            multi = [n for n in names if len(set(gen.molecule(n)[0])) > 1]
            c = {"kind": "neg", "op": op, "method": method, "seed": int(g.integers(0, 2**31)),
                 "mol": multi[int(g.integers(0, len(multi)))], "mol2": names[int(g.integers(0, len(names)))],
                 "precomputed": bool(r % 2),
                 # how the settings dictionary reaches the call: a fresh one, one that already served a valid Molecule, or
                 # one carrying a user-supplied 'elements' list (every guard must fire in all three situations)
                 "dict_mode": "fresh" if op == "driver-before-molecule" else ["fresh", "reused", "user-elements"][r % 3]}
            if op == "unsupported-principal-quantum-number":
                c["heavy"] = HEAVY_QN4[method][r % 2]
            if op in ("uhf-impossible-multiplicity",):
                c["variant"] = ["even-doublet", "odd-singlet", "odd-triplet", "even-quartet"][r % 4]
            if op in ("rhf-odd-electrons", "rhf-odd-electrons-batch-row"):
                c["variant"] = ["cation", "anion", "radical", "trication"][r % 4]
            if op == "unknown-com-mode":
                c["variant"] = [["rotational", 1], ["none", 1], ["", 2], ["ANGULAR_", 1], ["lin", 3]][r % 5]
            cases.append(c)
    g2 = gen.rng("C18", tier, "active-state-tensors")
    for r in range(nrep):
        for op in TENSOR_OPS:
            # sharp only where no other guard can fire first: analytical gradients exist for MNDO / AM1 / PM3
            method = ["AM1", "PM3", "MNDO"][int(g2.integers(0, 3))]
            names = [n for n in ("H2O", "NH3", "CH4", "HCN", "CH2O", "C2H4") if gen.available(n, method)]
            nrow = 2 + r % 2
            if op == "active-state-tensor-all-excited":
                t = [int(g2.integers(1, 3)) for _ in range(nrow)]
            else:
                t = [0] * nrow
                t[r % nrow] = int(g2.integers(1, 3))          # the excited entry visits every position
                if nrow == 3 and r % 4 == 3:
                    t[(r + 1) % nrow] = 1
            cases.append({"kind": "neg", "op": op, "method": method, "seed": int(g2.integers(0, 2**31)),
                          "mol": names[int(g2.integers(0, len(names)))], "mol2": "H2O", "precomputed": bool((r // 2) % 2),
                          "dict_mode": ["fresh", "reused", "user-elements"][r % 3], "active_tensor": t})
    # ---------------- positive space -----------------------------------------------------------------------
    npos = 200 if tier == "quick" else 4000
    solvers = [([2], False), ([1], False), ([0, 0.3], False), ([2], False), ([1], True), ([0, 0.5], True)]
    fam_cycle = ["diatomic", "stretch", "compress", "ion", "batch", "diatomic", "ion", "diatomic"]
    dists = [0.5, 0.6, 0.7, 0.8, 1.0, 1.25, 1.5, 2.0, 3.0, 5.0, 8.0, 12.0, 20.0, 21.1, 30.0]
    pos = []
    for i in range(npos):
        method = methods[i % 4]
        conv, uhf = solvers[int(g.integers(0, len(solvers)))]
        fam = fam_cycle[i % len(fam_cycle)]
        c = {"kind": "pos", "family": fam, "method": method, "conv": conv, "uhf": uhf, "seed": int(g.integers(0, 2**31)),
             "eps": [1e-5, 1e-7, 1e-9][int(g.integers(0, 3))]}
        els = EDGE_ELEMENTS[method]
        if fam == "diatomic":
            a, b = int(els[int(g.integers(0, len(els)))]), int(gen.ELEMENTS[method][int(g.integers(0, len(gen.ELEMENTS[method])))])
            if i % 3 == 0:
                b = 1
            c.update({"Z1": a, "Z2": b, "d": float(dists[int(g.integers(0, len(dists)))]), "charge_shift": int(g.integers(-1, 2)) * 2 if i % 5 == 0 else 0})
        elif fam in ("stretch", "compress"):
            names = gen.names_for(method, gen.CLOSED_NEUTRAL + gen.IONS)
            names = [n for n in names if n != "C6H6"]
            c.update({"mol": names[int(g.integers(0, len(names)))],
                      "target": float(g.choice([1.5, 2.0, 3.0, 5.0, 10.0, 30.0]) if fam == "stretch" else g.choice([0.5, 0.6, 0.7, 0.85]))})
        elif fam == "ion":
            names = gen.names_for(method, gen.CLOSED_NEUTRAL + gen.RADICALS)
            names = [n for n in names if n != "C6H6"]
            c.update({"mol": names[int(g.integers(0, len(names)))], "charge": int(g.choice([-3, -2, -1, 1, 2, 3]))})
        else:
            names = gen.names_for(method, gen.CLOSED_NEUTRAL + gen.IONS)
            names = [n for n in names if len(gen.molecule(n)[0]) <= 6]
            k = int(g.integers(2, 5))
            c.update({"mols": [names[int(j)] for j in g.integers(0, len(names), k)],
                      "scales": [float(g.choice([0.55, 0.7, 1.0, 1.0, 2.0, 4.0, 12.0])) for _ in range(k)], "uhf": False})
        pos.append(c)
    # AM1 + dispersion correction ("dispersion": True), back-propagated forces: compressed / stretched pairs and molecules
    ndisp = 30 if tier == "quick" else 400
    dpairs = [(1, 1), (8, 1), (6, 1), (6, 6), (7, 1), (8, 6), (9, 1), (7, 7), (8, 8), (17, 1), (16, 1), (6, 7)]
    ddists = [0.5, 0.55, 0.6, 0.65, 0.7, 0.75, 0.8, 0.9, 1.0, 1.3, 2.0, 4.0, 10.0, 25.0]
    dmols = [n for n in ("H2", "H2O", "CH4", "NH3", "C2H4", "C2H2", "CH3OH", "HCN", "CH2O", "C2H6") if gen.available(n, "AM1")]
    for i in range(ndisp):
        c = {"kind": "pos", "family": "dispersion", "method": "AM1", "conv": [[1], [2], [0, 0.3]][i % 3], "uhf": False,
             "seed": int(g.integers(0, 2**31)), "eps": 1e-7, "dispersion": True}
        if i % 3 == 0:
            a, b = dpairs[int(g.integers(0, len(dpairs)))]
            c.update({"sub": "diatomic", "Z1": a, "Z2": b, "d": float(ddists[int(g.integers(0, len(ddists)))]), "charge_shift": 0})
        elif i % 3 == 1:
            c.update({"sub": "compress", "mol": dmols[int(g.integers(0, len(dmols)))], "target": float(g.choice([0.5, 0.55, 0.6, 0.7, 0.8]))})
        else:
            k = int(g.integers(2, 4))
            c.update({"sub": "batch", "mols": [dmols[int(j)] for j in g.integers(0, len(dmols), k)],
                      "scales": [float(g.choice([0.5, 0.6, 0.7, 1.0, 3.0])) for _ in range(k)]})
        pos.append(c)
    # exact axis-aligned orientations: every bonded pair (i < j in the sorted order) put EXACTLY on each of +-x, +-y, +-z
    # (both directions = both pair orders), all methods, back-propagated and analytical forces
    g3 = gen.rng("C18", tier, "axis")
    amols = ["CO2", "H2O", "HCN", "CH2O", "N2", "CO", "HF", "NH3", "CH4", "C2H2", "C2H4", "HOOH", "H2S", "HCl", "LiH", "SO2", "CH3F", "N2O"]
    combos = [(m, gr) for m in methods for gr in ("autodiff", "analytical") if not (m == "PM6_SP" and gr == "analytical")]
    naxis = 28 if tier == "quick" else 400
    for i in range(naxis):
        method, grad = combos[i % len(combos)]
        names = [n for n in amols if gen.available(n, method)]
        name = names[i % len(names)] if i < len(names) else names[int(g3.integers(0, len(names)))]
        Z, X, _, _ = gen.molecule(name)
        bonds = gen.bonded_pairs(Z, X) or [(0, 1)]
        pos.append({"kind": "pos", "family": "axis", "method": method, "grad": grad, "mol": name,
                    "pair": list(bonds[int(g3.integers(0, len(bonds)))]) if tier == "quick" else None,
                    "conv": [[2], [1]][i % 2], "uhf": False, "eps": 1e-7, "seed": int(g3.integers(0, 2**31))})
    # excited-state analytical gradient on SCF references that are saddles / non-aufbau stationary points (cold-start Pulay on
    # MNDO PH3 - the stored example of C04's finding - and PM3 BeH2; AlH3 / distorted variants are tried too and count only when
    # the reference really is one): the outcome must be finite, flagged or an exception - never NaN with a clean flag
    g4 = gen.rng("C18", tier, "saddle")
    PH3X = {"Z": [15, 1, 1, 1], "X": [[0.0807, 0.0324, 0.0499], [1.3413, -0.0732, -0.7826], [-0.6767, 0.9427, -0.7632],
                                     [-0.5061, -1.065, -0.7599]]}
    sad = [("MNDO", "PH3", PH3X, None, 0.0), ("PM3", "BeH2", None, 0, 0.0), ("PM3", "BeH2", None, 2, 0.05), ("MNDO", "PH3", None, 7, 0.05)]
    if tier != "quick":
        sad += [("PM3", "BeH2", None, 5, 0.05), ("PM3", "BeH2", None, 10, 0.05)]
        sad += [(m, n, None, int(g4.integers(0, 10**6)), 0.05) for m, n in (("AM1", "AlH3"), ("PM3", "BeH2"), ("MNDO", "PH3"), ("AM1", "BH3"),
                                                                      ("MNDO", "BeH2"), ("PM3", "MgH2")) for _ in range(6)]
    for method, name, explicit, gs, sigma in sad:
        for act in (1, 2):
            pos.append({"kind": "pos", "family": "saddle", "method": method, "mol": name, "explicit": explicit, "gseed": gs, "sigma": sigma,
                        "active": act, "n_states": 3, "excited_method": "cis" if (act == 1 or tier == "quick") else ["cis", "rpa"][int(g4.integers(0, 2))],
                        "conv": [2], "uhf": False, "eps": 1e-8, "seed": int(g4.integers(0, 2**31))})
    # MD runs with the rarely used run options (control_energy_shift, scale_vel) and the Langevin thermostat, from stretched /
    # hot starts at Temp = 0 (kinetic energy goes through ~0 at every turning point): every step's state must be finite
    g5 = gen.rng("C18", tier, "md-options")
    systems = [("H2", 0.9 / 0.74), ("HF", 1.3), ("LiH", 1.25), ("N2", 1.25), ("H2O", 1.3), ("HCl", 1.3), ("H2", 1.5), ("CO", 1.2)]
    opts = [{"control_energy_shift": True}, {"scale_vel": [2, 300.0]}, {"control_energy_shift": True}, {}, {"scale_vel": [1, 50.0]},
            {"control_energy_shift": True}]
    nmd = 10 if tier == "quick" else 120
    for i in range(nmd):
        method = ["AM1", "PM3", "MNDO", "AM1"][i % 4]
        sysn = [systems[i % len(systems)]] if i % 3 else [systems[0], systems[(i // 3) % len(systems)]]
        sysn = [(n, f) for n, f in sysn if gen.available(n, method)] or [systems[0]]
        pos.append({"kind": "pos", "family": "md-options", "method": method, "systems": [[n, float(f)] for n, f in sysn],
                    "engine": "basic" if i % 4 != 3 else "langevin", "options": opts[i % len(opts)], "dt": [1.0, 0.5, 0.75][i % 3],
                    "steps": 14, "temp": 0.0 if i % 5 else 20.0, "conv": [2], "uhf": False, "eps": 1e-7, "seed": int(g5.integers(0, 2**31))})
    # interleave the two spaces so that a truncated (budgeted) run still exercises both
    out = []
    step = max(1, len(pos) // max(1, len(cases)))
    pi = 0
    for c in cases:
        out.append(c)
        out.extend(pos[pi:pi + step])
        pi += step
    out.extend(pos[pi:])
    return out


# ---------------------------------------------------------------------------------------------
def _snapshot(mol):
    snap = {}
    for a in RESULT_ATTRS + AUX_ATTRS:
        v = getattr(mol, a, None)
        snap[a] = (id(v), None if v is None else (v.detach().clone() if hasattr(v, "detach") else repr(v)))
    return snap


def _changed(mol, snap, attrs):
    import torch

    out = []
    for a in attrs:
        v = getattr(mol, a, None)
        i0, v0 = snap[a]
        if v is None and v0 is None:
            continue
        if (v is None) != (v0 is None):
            out.append(a)
        elif torch.is_tensor(v) and torch.is_tensor(v0):
            if v.shape != v0.shape or not torch.equal(torch.nan_to_num(v.detach(), nan=1.2345e300), torch.nan_to_num(v0, nan=1.2345e300)):
                out.append(a)
        elif not torch.is_tensor(v) and repr(v) != v0:
            out.append(a)
    return out


def _guard_site(exc):
    """-> (is the innermost frame a `raise` statement inside the seqm package?, 'file:line')"""
    import linecache
    import traceback

    from vlib import env

    tb = traceback.extract_tb(exc.__traceback__)
    if not tb:
        return False, None
    last = tb[-1]
    inside = last.filename.startswith(env.REPO.rstrip("/") + "/seqm")
    line = linecache.getline(last.filename, last.lineno)
    site = "%s:%d" % (last.filename.replace(env.REPO.rstrip("/") + "/", ""), last.lineno)
    deliberate = inside and ("raise" in line or "raise" in (last.line or ""))
    if inside and not deliberate:
        # multi-line raise statements: look a few lines up
        for k in range(1, 6):
            if "raise" in linecache.getline(last.filename, last.lineno - k):
                deliberate = True
                break
    return deliberate, site


def _neg_request(case):
    """Build the mutated request.  -> dict(species, coords, charges, mult, sett, stage-specific extras)"""
    from vlib import run

    g = np.random.default_rng(case["seed"])
    op, method = case["op"], case["method"]
    Z, X, q, m = gen.molecule(case["mol"])
    X = gen.distort(X, g, sigma=0.03)
    X = X @ gen.generic_rotation(X, g).T
    Z2, X2, q2, m2 = gen.molecule(case["mol2"])
    X2 = X2 @ gen.generic_rotation(X2, g).T
    req = {"species": [list(Z)], "coords": [X.tolist()], "charges": 0, "mult": 1, "sett": run.settings(method, eps=1e-7, converger=(1,)),
           "valid_sett": run.settings(method, eps=1e-7, converger=(1,)), "md": None, "driver_first": False}
    if op in ("unsorted-species", "unsorted-species-batch-row"):
        idx = [i for i in range(len(Z) - 1) if Z[i] != Z[i + 1]]
        i = idx[int(g.integers(0, len(idx)))]
        Zs, Xs = list(Z), X.copy()
        Zs[i], Zs[i + 1] = Zs[i + 1], Zs[i]
        Xs[[i, i + 1]] = Xs[[i + 1, i]]
        if op == "unsorted-species":
            req.update(species=[Zs], coords=[Xs.tolist()])
        else:
            S, C = gen.pad_batch([(Z2, X2), (Zs, Xs), (Z, X)])
            req.update(species=S, coords=C, charges=[0.0, 0.0, 0.0], mult=[1.0, 1.0, 1.0])
    elif op == "padding-before-atom":
        i = int(g.integers(0, len(Z)))
        Zs = list(Z[:i]) + [0] + list(Z[i:])
        Xs = np.vstack([X[:i], np.zeros((1, 3)), X[i:]])
        if i == len(Z):
            Zs, Xs = [0] + list(Z), np.vstack([np.zeros((1, 3)), X])
        req.update(species=[Zs], coords=[Xs.tolist()])
    elif op in ("rhf-odd-electrons", "rhf-odd-electrons-batch-row"):
        v = case["variant"]
        ch = {"cation": 1, "anion": -1, "trication": 3}.get(v, 0)
        Zr, Xr = Z, X
        if v == "radical":
            rads = [n for n in ("CH3.", "OH.", "NH2.", "NO.") if gen.available(n, method)]
            Zr, Xr, _, _ = gen.molecule(rads[int(g.integers(0, len(rads)))])
        if op == "rhf-odd-electrons":
            req.update(species=[list(Zr)], coords=[np.asarray(Xr).tolist()], charges=ch)
        else:
            S, C = gen.pad_batch([(Z2, X2), (Zr, Xr)])
            req.update(species=S, coords=C, charges=[0.0, float(ch)], mult=[1.0, 1.0])
    elif op == "uhf-impossible-multiplicity":
        v = case["variant"]
        req["sett"] = run.settings(method, eps=1e-7, converger=(1,), uhf=True)
        req["valid_sett"] = None
        if v == "even-doublet":
            req.update(mult=2)
        elif v == "even-quartet":
            req.update(mult=4)
        elif v == "odd-singlet":
            req.update(charges=1, mult=1)
        else:
            req.update(charges=-1, mult=3)
    elif op == "uhf-sp2":
        req["sett"] = run.settings(method, eps=1e-7, converger=(1,), uhf=True, sp2=1e-5)
    elif op == "uhf-pulay":
        req["sett"] = run.settings(method, eps=1e-7, converger=(2,), uhf=True)
    elif op == "uhf-ksa":
        req["sett"] = run.settings(method, eps=1e-7, converger=(3, {"T_el": 300.0, "max_rank": 3, "err_threshold": 1e-9}), uhf=True)
    elif op in ("uhf-cis", "uhf-rpa"):
        req["sett"] = run.settings(method, eps=1e-9, converger=(1,), uhf=True,
                                   excited={"n_states": 2, "method": "cis" if op == "uhf-cis" else "rpa"})
    elif op == "uhf-pm6":
        req["sett"] = run.settings("PM6", eps=1e-7, converger=(1,), uhf=True)
        req["valid_sett"] = run.settings("PM6", eps=1e-7, converger=(1,))
    elif op in ("hetero-batch-rpa", "hetero-batch-excited-gradient"):
        others = [n for n in ("H2O", "NH3", "HCN", "CH2O", "CO", "C2H4") if gen.available(n, method) and n != case["mol"]]
        Zb, Xb, _, _ = gen.molecule(others[int(g.integers(0, len(others)))])
        Xb = Xb @ gen.generic_rotation(Xb, g).T
        S, C = gen.pad_batch([(Z, X), (Zb, Xb)])
        req.update(species=S, coords=C, charges=[0.0, 0.0], mult=[1.0, 1.0])
        if op == "hetero-batch-rpa":
            req["sett"] = run.settings(method, eps=1e-9, converger=(1,), excited={"n_states": 2, "method": "rpa", "tolerance": 1e-6})
        else:
            req["sett"] = run.settings(method, eps=1e-9, converger=(1,), grad="analytical", active_state=1,
                                       excited={"n_states": 2, "method": "cis", "tolerance": 1e-6})
    elif op == "active-state-without-excited-settings":
        req["sett"] = run.settings(method, eps=1e-7, converger=(1,), active_state=int(g.integers(1, 3)))
    elif op in TENSOR_OPS:
        t = case["active_tensor"]
        mols = []
        for _ in t:
            Xk = gen.distort(gen.molecule(case["mol"])[1], g, sigma=0.03)
            mols.append((Z, Xk @ gen.generic_rotation(Xk, g).T))
        S, C = gen.pad_batch(mols)
        req.update(species=S, coords=C, charges=[0.0] * len(t), mult=[1.0] * len(t), active_tensor=t)
    elif op == "unknown-com-mode":
        req["md"] = {"remove_com": case["variant"]}
    elif op == "unsupported-principal-quantum-number":
        h = case["heavy"]
        d = 1.45 if h == 35 else 1.6
        req.update(species=[[h, 1]], coords=[[[0.0, 0.0, 0.0], [d * 0.6, d * 0.64, d * 0.48]]], charges=1 if h == 30 else 0)
        req["valid_sett"] = None
    elif op == "excited-states-not-a-dict":
        req["sett"] = run.settings(method, eps=1e-9, converger=(1,))
        req["sett"]["excited_states"] = [3, "cis"]
    elif op == "excited-states-without-n_states":
        req["sett"] = run.settings(method, eps=1e-9, converger=(1,), excited={"method": "cis"})
    elif op == "excited-method-unknown":
        req["sett"] = run.settings(method, eps=1e-9, converger=(1,), excited={"n_states": 2, "method": "tddft"})
    elif op == "too-many-roots":
        req["sett"] = run.settings(method, eps=1e-9, converger=(1,), excited={"n_states": 5000, "method": "cis"})
    elif op == "driver-before-molecule":
        req["driver_first"] = True
    elif op == "driver-built-for-other-elements":
        # a driver object built (with its own dictionary) for a molecule made of other elements is applied to this molecule
        # (H2: every base molecule of this operator contains at least one heavy atom the H2 driver has no parameters for)
        req["foreign_driver"] = {"species": [[1, 1]], "coords": [[[0.0, 0, 0], [0.45, 0.42, 0.4]]]}
    return req


def _run_neg(case):
    import copy
    import os

    import torch
    from seqm.ElectronicStructure import Electronic_Structure
    from seqm.Molecule import Molecule
    from seqm.seqm_functions.constants import Constants

    from vlib import env, run

    op = case["op"]
    stage_doc, expected = OPERATORS[op]
    req = _neg_request(case)
    mon = {}
    cells = ["neg/%s/%s" % (op, "precomputed" if case["precomputed"] else "fresh"),
             "neg-dict/%s/%s" % (op, case.get("dict_mode", "fresh"))]
    viol = []
    sp = torch.as_tensor(np.asarray(req["species"]), dtype=torch.int64)
    xyz = run.tens(req["coords"]).clone()
    ch = req["charges"] if isinstance(req["charges"], (int, float)) else run.tens(req["charges"])
    mu = req["mult"] if isinstance(req["mult"], (int, float)) else run.tens(req["mult"])
    raised, stage = None, None
    mol = None
    snap = None
    pre = False
    files = []
    aux_changed = []
    res_changed = []
    with run.quiet(), env.Scratch("c18") as d:
        const = Constants()
        sett = copy.deepcopy(req["sett"])
        dict_mode = case.get("dict_mode", "fresh")
        will_precompute = case["precomputed"] and req.get("valid_sett") is not None and stage_doc in ("forward", "md") \
            and op not in ("hetero-batch-rpa", "hetero-batch-excited-gradient", "uhf-sp2", "uhf-pulay", "uhf-ksa", "uhf-pm6")
        if dict_mode == "reused" and not will_precompute:
            # the very dictionary of the invalid request first serves a valid molecule (outside the judged call)
            pm = sett["method"]
            primers = [n for n in ("H2O", "CH4", "NH3", "HF") if gen.available(n, pm)]
            Zp, Xp, _, _ = gen.molecule(primers[case["seed"] % len(primers)])
            try:
                Molecule(const, sett, run.tens([Xp.tolist()]), torch.as_tensor([Zp], dtype=torch.int64))
            except Exception as exc:  # noqa: BLE001
                return {"ineligible": "priming the dictionary with a valid molecule raised %s" % type(exc).__name__}
        try:
            # optional valid pre-computation: the invalid request then hits a molecule that already carries results
            if case["precomputed"] and req.get("valid_sett") is not None and stage_doc in ("forward", "md") \
                    and op not in ("hetero-batch-rpa", "hetero-batch-excited-gradient", "uhf-sp2", "uhf-pulay", "uhf-ksa", "uhf-pm6"):
                vs = copy.deepcopy(req["valid_sett"])
                mol = Molecule(const, vs, xyz.clone(), sp, ch, mu)
                Electronic_Structure(vs)(mol)
                pre = True
                if op == "active-state-without-excited-settings":
                    mol.active_state = sett["active_state"]
                    sett = vs
                    sett["active_state"] = mol.active_state
                elif op == "unknown-com-mode":
                    sett = vs
                else:
                    sett["elements"] = list(vs["elements"])      # same element list as the dictionary the molecule was built with
            if mol is None and dict_mode == "user-elements":
                present = set(int(z) for z in np.asarray(req["species"]).reshape(-1))
                sett["elements"] = sorted(present | {0, 1, 6, 7, 8})
            foreign = None
            if req.get("foreign_driver"):
                rf = req["foreign_driver"]
                fs = copy.deepcopy(req["sett"])
                Molecule(const, fs, run.tens(rf["coords"]), torch.as_tensor(rf["species"], dtype=torch.int64))
                foreign = Electronic_Structure(fs)
            stage = "driver" if req["driver_first"] else "molecule"
            if req["driver_first"]:
                Electronic_Structure(sett)
            if mol is None:
                mol = Molecule(const, sett, xyz, sp, ch, mu)
            if req.get("active_tensor") is not None:
                mol.active_state = torch.tensor(req["active_tensor"], dtype=torch.int64)
            snap = _snapshot(mol)
            if req["md"] is not None:
                from seqm.MolecularDynamics import Molecular_Dynamics_Basic

                stage = "md"
                out = {"molid": [0], "prefix": os.path.join(d, "neg"), "print every": 0, "checkpoint every": 0, "xyz": 1,
                       "h5": {"data": 1, "coordinates": 1}}
                md = Molecular_Dynamics_Basic(sett, timestep=0.3, Temp=300.0, output=out)
                x0 = mol.coordinates.detach().clone()
                md.run(mol, 2, remove_com=tuple(req["md"]["remove_com"]), seed=3)
            else:
                stage = "driver"
                es = foreign if foreign is not None else Electronic_Structure(sett)
                stage = "forward"
                es(mol)
        except Exception as exc:  # noqa: BLE001   (the exception IS the observation)
            raised = exc
        files = sorted(os.listdir(d))
        if mol is not None and snap is not None:
            res_changed = _changed(mol, snap, RESULT_ATTRS)
            aux_changed = _changed(mol, snap, AUX_ATTRS)
            if req["md"] is not None and not torch.equal(mol.coordinates.detach(), x0):
                res_changed.append("coordinates")
    obs = {"op": op, "stage_reached": stage, "precomputed": pre, "files": files}
    if raised is None:
        viol.append({"clause": "invalid-request-accepted", "mech": None,
                     "detail": {"op": op, "stage_reached": stage, "case": case,
                                "Etot": None if mol is None or mol.Etot is None else mol.Etot.tolist()}})
        mon["negative_accepted_silently"] = 1
    else:
        deliberate, site = _guard_site(raised)
        tname = type(raised).__name__
        obs.update({"exception": tname, "message": str(raised)[:160], "site": site, "deliberate_guard": deliberate})
        mon["negative_raised"] = 1
        mon["negative_raised_dict_" + case.get("dict_mode", "fresh").replace("-", "_")] = 1
        if deliberate:
            mon["guard_sites_seen"] = 1
            cells.append("guard@%s" % site)
            fam_ok = tname in expected or ("Exception" in expected)
            mon["negative_expected_family"] = 1 if fam_ok else 0
            if not fam_ok:
                mon["negative_other_family"] = 1
                cells.append("other-family/%s/%s" % (op, tname))
        else:
            mon["negative_incidental_error"] = 1
            cells.append("incidental/%s/%s@%s" % (op, tname, site))
        if stage != stage_doc:
            cells.append("stage/%s/documented=%s/observed=%s" % (op, stage_doc, stage))
        if snap is not None:
            mon["negative_precomputed_checked" if pre else "negative_fresh_checked"] = 1
        else:
            mon["negative_fresh_checked"] = 1      # no molecule object exists at all: nothing can carry a result
        if res_changed or files:
            viol.append({"clause": "result-produced-before-rejection", "mech": None,
                         "detail": {"op": op, "attributes_changed": res_changed, "files": files, "exception": tname, "site": site,
                                    "case": case}})
        if aux_changed:
            mon["aux_attrs_set_before_raise"] = 1
            cells.append("aux-before-raise/%s/%s" % (op, "+".join(sorted(aux_changed))))
            obs["aux_changed"] = aux_changed
    margins = {"negative_rejected": 0.0 if raised is not None else 2.0,
               "no_result_before_rejection": 2.0 if (res_changed or files) and raised is not None else 0.0}
    return {"nontrivial": True, "violations": viol, "monitors": mon, "cells": cells, "margins": margins, "obs": obs}


# ---------------------------------------------------------------------------------------------
def _norb_ne(Z, method):
    no = sum(1 if z == 1 else 4 for z in Z if z > 0)
    ne = sum(gen.VALENCE[z] for z in Z if z > 0)
    return no, ne


def _pos_request(case):
    g = np.random.default_rng(case["seed"])
    fam, method = case["family"], case["method"]
    if fam == "dispersion":
        fam = case["sub"]
    rows = []        # (Z, X, charge, mult)
    if fam == "diatomic":
        Z, X = gen.diatomic(case["Z1"], case["Z2"], case["d"])
        X = X @ gen.generic_rotation(X, g).T
        no, ne = _norb_ne(Z, method)
        q = case.get("charge_shift", 0)
        if (ne - q) % 2 and not case["uhf"]:
            q += 1
        mult = 1 if (ne - q) % 2 == 0 else 2
        if ne - q < 2 or ne - q > 2 * no - 2:
            return None
        rows.append((Z, X, q, mult))
    elif fam in ("stretch", "compress"):
        Z, X, q, m = gen.molecule(case["mol"])
        X = X - X.mean(axis=0)
        dmin = gen.min_dist(X)
        if fam == "compress":
            s = case["target"] / dmin
        else:
            s = case["target"]
        X = (X * s) @ gen.generic_rotation(X, g).T
        rows.append((Z, X, q, m))
    elif fam == "ion":
        Z, X, q0, m0 = gen.molecule(case["mol"])
        X = gen.distort(X, g, sigma=0.05)
        X = X @ gen.generic_rotation(X, g).T
        no, ne = _norb_ne(Z, method)
        q = case["charge"]
        n = ne - q
        if n < 2 or n > 2 * no - 2:
            return None
        if n % 2 and not case["uhf"]:
            return None
        mult = 1 if n % 2 == 0 else 2
        rows.append((Z, X, q, mult))
    else:
        for name, s in zip(case["mols"], case["scales"]):
            Z, X, q, m = gen.molecule(name)
            X = X - X.mean(axis=0)
            X = (X * s) @ gen.generic_rotation(X, g).T
            if gen.min_dist(X) < 0.5:
                X = X * (0.5 / gen.min_dist(X))
            rows.append((Z, X, q, m))
    return rows


def _judge_rows(out, rows, S, method, case, mon, viol, extra=None):
    """finite-or-flagged post-condition on every row of one returned call.  -> worst ratio (0 or 2)"""
    nc = np.asarray(out["notconverged"]).reshape(-1)
    worst = 0.0
    for k, (Z, X, q, m) in enumerate(rows):
        n = len(Z)
        no = sum(1 if z == 1 else 4 for z in Z)
        vals = {"Etot": out["Etot"][k], "Eelec": out["Eelec"][k], "Enuc": out["Enuc"][k], "Hf": out["Hf"][k],
                "force": out["force"][k][:n], "q": out["q"][k][:n], "e_mo": out["e_mo"][k][..., :no]}
        if out.get("dipole") is not None:
            vals["dipole"] = out["dipole"][k]
        if np.asarray(out["gap"]).size:
            vals["gap"] = np.asarray(out["gap"])[k]
        bad = [name for name, v in vals.items() if not np.all(np.isfinite(np.asarray(v, float)))]
        padbad = bool(n < len(S[0]) and not np.all(np.isfinite(out["force"][k][n:])))
        if bool(nc[k]):
            mon["positive_rows_flagged_not_converged"] = mon.get("positive_rows_flagged_not_converged", 0) + 1
            if bad:
                mon["positive_rows_nonfinite_but_flagged"] = mon.get("positive_rows_nonfinite_but_flagged", 0) + 1
            continue
        if bad or padbad:
            worst = 2.0
            viol.append({"clause": "non-finite-result-with-clean-flag", "mech": None,
                         "detail": dict({"row": k, "species": Z, "coords": np.asarray(X).tolist(), "charge": q, "mult": m,
                                         "non_finite": bad, "padding_force_non_finite": padbad, "case": case}, **(extra or {}))})
        else:
            mon["positive_rows_finite"] = mon.get("positive_rows_finite", 0) + 1
            big = max(abs(float(out["Etot"][k])), float(np.abs(out["force"][k][:n]).max()))
            if big > 1e6:
                mon["positive_rows_finite_but_huge"] = mon.get("positive_rows_finite_but_huge", 0) + 1
    return worst


def _run_axis(case):
    """library molecule with a bonded pair put EXACTLY on each Cartesian axis direction (perpendicular components of the two
    atoms made bitwise equal), 6 single points per pair."""
    from vlib import run

    method = case["method"]
    Z, X0, q, m = gen.molecule(case["mol"])
    g = np.random.default_rng(case["seed"])
    X0 = gen.distort(X0, g, sigma=0.02)
    bonds = [tuple(case["pair"])] if case.get("pair") else (gen.bonded_pairs(Z, X0) or [(0, 1)])
    sett = run.settings(method, eps=case["eps"], converger=tuple(case["conv"]), grad=case["grad"])
    mon, viol, cells = {}, [], ["pos/axis/%s/%s" % (method, case["grad"])]
    worst = 0.0
    for (i, j) in bonds:
        for ax in AXIS_NAMES:
            R = gen.align_pair(X0, i, j, ax, cone=0.0, g=g)
            X = X0 @ R.T
            X = X - X[i] + g.uniform(-1, 1, 3)
            comp = "xyz".index(ax[1])
            for c in range(3):
                if c != comp:
                    X[j, c] = X[i, c]                   # exact: R_j - R_i has no component off the axis
            v = X[j] - X[i]
            assert v[(comp + 1) % 3] == 0.0 and v[(comp + 2) % 3] == 0.0 and (v[comp] > 0) == (ax[0] == "+")
            try:
                out = run.single_point([Z], [X.tolist()], sett, charges=float(q), mult=float(m))
            except Exception as exc:  # noqa: BLE001
                deliberate, site = _guard_site(exc)
                mon["positive_rejected_loudly"] = mon.get("positive_rejected_loudly", 0) + 1
                cells.append("pos-raised/%s@%s" % (type(exc).__name__, site))
                continue
            mon["positive_axis_aligned_runs"] = mon.get("positive_axis_aligned_runs", 0) + 1
            cells.append("axis/%s/%s" % (ax, "heavy-heavy" if Z[i] > 1 and Z[j] > 1 else ("X-H" if Z[i] > 1 else "H-H")))
            worst = max(worst, _judge_rows(out, [(Z, X, q, m)], [Z], method, case, mon, viol, extra={"pair": [i, j], "axis": ax}))
    return {"nontrivial": mon.get("positive_axis_aligned_runs", 0) > 0, "violations": viol, "monitors": mon, "cells": cells,
            "margins": {"finite_or_flagged": worst}, "obs": {"family": "axis", "mol": case["mol"], "pairs": [list(b) for b in bonds]}}


def _run_saddle(case):
    """excited-state analytical gradient on a cold-start Pulay reference; counts the cells in which that reference is
    really a saddle (lowest reported CIS root negative)."""
    import torch

    from vlib import run

    method = case["method"]
    if case.get("explicit"):
        Z, X = list(case["explicit"]["Z"]), np.asarray(case["explicit"]["X"], float)
    else:
        Z, X, _, _ = gen.molecule(case["mol"])
        g = np.random.default_rng(case["gseed"])
        X = gen.distort(X, g, case["sigma"]) if case["sigma"] > 0 else X.copy()
        X = X - X.mean(axis=0)
        X = X @ gen.generic_rotation(X, g).T
    sett = run.settings(method, eps=case["eps"], converger=tuple(case["conv"]), grad="analytical", active_state=case["active"],
                        excited={"n_states": case["n_states"], "method": case["excited_method"], "tolerance": 1e-8})
    mon, viol, cells = {}, [], ["pos/saddle/%s/%s/active=%d/%s" % (method, case["mol"], case["active"], case["excited_method"])]
    raised = None
    with run.quiet():
        mol, es, _ = run.build([Z], [X.tolist()], sett)
        try:
            es(mol)
        except Exception as exc:  # noqa: BLE001   (a loud rejection is an admissible outcome here)
            raised = exc
    ce = getattr(mol, "cis_energies", None)
    lowest = None
    if torch.is_tensor(ce) and ce.numel():
        lowest = float(ce.reshape(-1)[:case["n_states"]].min())
        if lowest < 0:
            mon["saddle_negative_cis_root_cells"] = 1
            cells.append("saddle/negative-lowest-root/%s/%s" % (method, case["mol"]))
    worst = 0.0
    if raised is not None:
        deliberate, site = _guard_site(raised)
        mon["positive_rejected_loudly"] = 1
        cells.append("pos-raised/%s@%s" % (type(raised).__name__, site))
        obs = {"raised": type(raised).__name__, "message": str(raised)[:120], "lowest_cis_root": lowest}
    else:
        out = run.harvest(mol, es)
        worst = _judge_rows(out, [(Z, X, 0, 1)], [Z], method, case, mon, viol, extra={"lowest_cis_root": lowest})
        obs = {"returned": True, "lowest_cis_root": lowest, "Etot": float(out["Etot"][0])}
    return {"nontrivial": True, "violations": viol, "monitors": mon, "cells": cells, "margins": {"finite_or_flagged": worst}, "obs": obs}


def _run_mdopt(case):
    """short MD run with rarely used run options; the state (coordinates, velocities, force, energies) is inspected on entry
    to every integrator step and after the run.  A non-finite state is a violation whether or not the run later dies of an
    unrelated error."""
    import os

    import torch
    from seqm.MolecularDynamics import Molecular_Dynamics_Basic, Molecular_Dynamics_Langevin

    from vlib import env, run

    method = case["method"]
    g = np.random.default_rng(case["seed"])
    rows = []
    for name, f in case["systems"]:
        Z, X, q, m = gen.molecule(name)
        X = X - X.mean(axis=0)
        X = (X * f) @ gen.generic_rotation(X, g).T
        rows.append((Z, X, q, m))
    S, C = gen.pad_batch([(Z, X) for Z, X, _, _ in rows])
    sett = run.settings(method, eps=case["eps"], converger=tuple(case["conv"]))
    opt = dict(case["options"])
    if "scale_vel" in opt:
        opt["scale_vel"] = tuple(opt["scale_vel"])
    mon = {"positive_md_option_runs": 1}
    cells = ["pos/md-options/%s/%s/%s/Temp=%g" % (method, case["engine"], "+".join(sorted(opt)) or "plain", case["temp"])]
    log = {"first_bad": None, "steps": 0, "guard": 0}
    real = torch.as_tensor(np.asarray(S)) > 0

    def inspect(molecule, step):
        bad = []
        for name in ("coordinates", "velocities", "force", "acc", "Etot"):
            v = getattr(molecule, name, None)
            if torch.is_tensor(v):
                vv = v.detach()
                if vv.dim() == 3:
                    vv = vv[real]
                if not bool(torch.isfinite(vv).all()):
                    bad.append(name)
        if bad and log["first_bad"] is None:
            log["first_bad"] = {"step": step, "non_finite": bad}
        v = getattr(molecule, "velocities", None)
        if torch.is_tensor(v) and step >= 1 and "control_energy_shift" in opt:
            # velocities of a molecule that are exactly zero after a real step can only come from the energy-shift guard
            for k in range(v.shape[0]):
                if bool((v[k][real[k]] == 0).all()):
                    log["guard"] += 1

    orig = Molecular_Dynamics_Basic._do_integrator_step

    def step(self, i, molecule, *a, **k):
        inspect(molecule, int(i))
        log["steps"] += 1
        return orig(self, i, molecule, *a, **k)

    raised = None
    with run.quiet(), env.Scratch("c18md") as d:
        ch = [float(r[2]) for r in rows] if len(rows) > 1 else float(rows[0][2])
        mu = [float(r[3]) for r in rows] if len(rows) > 1 else float(rows[0][3])
        mol, es, s2 = run.build(S, C, sett, ch, mu)
        out = {"molid": [0], "prefix": os.path.join(d, "md"), "print every": 0, "checkpoint every": 0, "xyz": 0, "h5": {"data": 0}}
        if case["engine"] == "langevin":
            md = Molecular_Dynamics_Langevin(damp=20.0, seqm_parameters=s2, timestep=case["dt"], Temp=case["temp"], output=out)
        else:
            md = Molecular_Dynamics_Basic(s2, timestep=case["dt"], Temp=case["temp"], output=out)
        Molecular_Dynamics_Basic._do_integrator_step = step
        try:
            md.run(mol, case["steps"], seed=5, **opt)
        except Exception as exc:  # noqa: BLE001
            raised = exc
        finally:
            Molecular_Dynamics_Basic._do_integrator_step = orig
        inspect(mol, log["steps"])
    mon["positive_md_steps_inspected"] = log["steps"]
    if log["guard"]:
        mon["md_energy_shift_guard_steps"] = log["guard"]
    viol = []
    worst = 0.0
    obs = {"steps": log["steps"], "guard_steps": log["guard"], "systems": case["systems"], "options": case["options"]}
    if raised is not None:
        deliberate, site = _guard_site(raised)
        obs.update({"raised": type(raised).__name__, "message": str(raised)[:120], "site": site})
        mon["positive_rejected_loudly"] = 1
        cells.append("pos-raised/%s@%s" % (type(raised).__name__, site))
    if log["first_bad"] is not None:
        worst = 2.0
        viol.append({"clause": "non-finite-md-state-without-flag", "mech": None,
                     "detail": {"first_non_finite": log["first_bad"], "run_later_raised": None if raised is None else
                                "%s: %s" % (type(raised).__name__, str(raised)[:120]), "case": case}})
    return {"nontrivial": raised is None or log["first_bad"] is not None, "violations": viol, "monitors": mon, "cells": cells,
            "margins": {"md_state_finite_every_step": worst}, "obs": obs}


def _run_pos(case):
    from vlib import run

    if case["family"] == "axis":
        return _run_axis(case)
    if case["family"] == "saddle":
        return _run_saddle(case)
    if case["family"] == "md-options":
        return _run_mdopt(case)
    rows = _pos_request(case)
    if rows is None:
        return {"ineligible": "electron count outside the generated domain for this solver"}
    method = case["method"]
    sett = run.settings(method, eps=case["eps"], converger=tuple(case["conv"]), uhf=case["uhf"],
                        extra={"dispersion": True} if case.get("dispersion") else None)
    S, C = gen.pad_batch([(Z, X) for Z, X, _, _ in rows])
    cells = ["pos/%s/%s/conv%s/%s" % (case["family"], method, case["conv"][0], "UHF" if case["uhf"] else "RHF")]
    mon = {}
    if case.get("dispersion"):
        mon["positive_dispersion_cases"] = 1
        cells.append("pos/dispersion/%s" % case["sub"])
    try:
        if len(rows) == 1:
            out = run.single_point(S, C, sett, charges=float(rows[0][2]), mult=float(rows[0][3]))
        else:
            out = run.single_point(S, C, sett, charges=[float(r[2]) for r in rows], mult=[float(r[3]) for r in rows])
    except Exception as exc:  # noqa: BLE001
        deliberate, site = _guard_site(exc)
        mon["positive_rejected_loudly"] = 1
        cells.append("pos-raised/%s@%s" % (type(exc).__name__, site))
        return {"nontrivial": False, "monitors": mon, "cells": cells,
                "obs": {"raised": type(exc).__name__, "message": str(exc)[:200], "site": site, "case_family": case["family"]}}
    viol = []
    nc = np.asarray(out["notconverged"]).reshape(-1)
    worst = _judge_rows(out, rows, S, method, case, mon, viol)
    for (Z, X, q, m) in rows:
        for z in set(Z):
            cells.append("element/%s/%d" % (method, z))
        if q:
            cells.append("charge/%+d" % q)
    if case["family"] == "diatomic" or case.get("sub") == "diatomic":
        cells.append("distance/%g" % case["d"])
    return {"nontrivial": True, "violations": viol, "monitors": mon, "cells": cells,
            "margins": {"finite_or_flagged": worst},
            "obs": {"family": case["family"], "Etot": np.asarray(out["Etot"]).tolist(), "notconverged": nc.tolist(),
                    "species": S}}


def run_case(case):
    if case.get("kind") == "neg":
        return _run_neg(case)
    return _run_pos(case)


def summarize(cases, results, report):
    ops = {}
    for c, r in zip(cases, results):
        if c.get("kind") == "neg" and r and not r.get("harness_error"):
            o = ops.setdefault(c["op"], {"cases": 0, "raised": 0, "sites": set(), "exceptions": set()})
            o["cases"] += 1
            ob = r.get("obs") or {}
            if ob.get("exception"):
                o["raised"] += 1
                o["sites"].add(str(ob.get("site")))
                o["exceptions"].add(ob["exception"])
    table = {k: {"cases": v["cases"], "raised": v["raised"], "sites": sorted(v["sites"]), "exceptions": sorted(v["exceptions"])}
             for k, v in ops.items()}
    missing = [k for k in OPERATORS if k not in table]
    if missing:
        report.notes.append("operators without a completed case: %s" % missing)
    return {"operators": table, "operators_listed_in_the_property": LISTED, "result_attributes_watched": list(RESULT_ATTRS),
            "auxiliary_attributes_counted_only": list(AUX_ATTRS)}
