"""C07 — outputs are correctly differentiable in Hamiltonian parameters and coordinates.

Runtime monitoring of the machine-learning interface (`seqm_parameters['learned']` + a
`learned_parameters` dict / callable handed to `Molecule` and `Energy` / `Electronic_Structure`).

Oracles (all independent of the code under test):
  * param   : torch.autograd.grad of Etot, Hf (and for scf_backward >= 1 of gap, a random contraction of the
              orbital energies and a random contraction of the atomic charges) w.r.t. the CALLER'S tensors
              (leaf, non-leaf theta = a*phi + b, callable(species, coordinates)) must be non-None and equal the
              Richardson central finite difference of the same returned output at scf_eps 1e-11.
  * force   : with a callable whose parameters depend on the geometry, the returned force equals the
              Richardson central difference of the returned energy (total derivative, parameter path included).
  * hessian : Hessian by unrolled back-propagation (scf_backward=2, create_graph) is symmetric and equals the
              Richardson central difference of the returned forces; the frequencies printed by the public
              'normal modes' switch equal those of the finite-difference Hessian.
  * hooks   : additive_term_rho1/2.backward must return the derivative of their own forward (central
              difference of the forward at the hook); call counters on SCF.backward, fixed_point_anderson,
              fixed_point_picard, additive_term_rho1/2.backward, degen_symeig.backward show that the adjoint
              path was really taken.

When the public path is blocked (supplied tensors are deep-copied: non-leaf => RuntimeError, leaf => grad None)
that is reported as a violation, and the case is continued with a harness-side *bypass* of exactly that copy so
that the deeper clauses stay observable; such observations carry detail['observed_with'].  Mismatches are
attributed to a mechanism by counterfactual replay with harness-side neutralisers (never used for the verdict).
"""
import math
import os

import numpy as np

from vlib import gen

PROPERTY = "C07"
RULE = ("param case = (library molecule, distortion seed, method, chunk of learnable parameter names that are "
        "non-zero for an element present, list of (supply mode, scf_backward, converger)); every (name, output, "
        "config) triple compares <grad_AD, v> with a Richardson central difference along a random per-atom direction v; "
        "force case = callable parameters with explicit geometry dependence, 3 random directions; hessian case = full "
        "3N x 3N Hessian; a case is non-trivial when at least one comparison with |FD| > 1e-6 (param), a parameter-path "
        "force contribution > 1e-3 eV/A (force) or a converged Hessian (hessian) was judged; distinct by SHA-1 of the case")
ASSUMPTIONS = ["float64 CPU, one torch thread", "scf_eps 1e-11 for every evaluation (AD and FD)",
               "orbital-energy / gap outputs judged only when neighbouring orbital energies are >= 0.15 eV apart",
               "finite differences judged only when the Richardson estimates from steps (h, h/2) and (h/2, h/4) agree to "
               "0.2 x bound (smooth branch: away from the hpp >= 0.1 eV clamp and from the ~1e-7 eV steps the returned "
               "energy has as a function of the orbital exponents)",
               "parameters whose table value is zero for an element are not perturbed for that element, except in the zero-entry "
               "cells, where entries that are exactly 0 get an absolute step of 0.1 x (1e-3, 5e-4, 2.5e-4)",
               "the deep-copy bypass replaces only copy.deepcopy((dict, alpha, chi)) by a shallow dict copy inside "
               "seqm.basics / seqm.Molecule, and only after the public path was observed to fail"]
REQUIRED_MONITORS = ["grad_compared", "grad_compared_density_outputs", "scf_backward_calls", "anderson_calls",
                     "picard_calls", "rho1_backward_calls", "rho2_backward_calls", "degen_symeig_backward_calls",
                     "force_dirs_compared", "hessian_entries_compared", "rho_hook_checked",
                     "grad_compared_atom_on_hpp_floor", "repeat_grad_compared",
                     "grad_compared_with_zero_valued_entries_fd_nonzero",
                     "evaluations_after_inplace_update_of_persistent_leaves"]
CASE_TIMEOUT = 900.0
# cases not started by then are skipped and reported (VERIF_C07_BUDGET overrides, for runs on a loaded machine)
BUDGET_S = {"quick": float(os.environ.get("VERIF_C07_BUDGET", 200)), "thorough": float(os.environ.get("VERIF_C07_BUDGET", 1700))}
MIN_NONTRIVIAL = 4

DENSITY_OUTPUTS = ("gap", "emo", "q")
TOL_G = 1e-5          # |g_AD - g_FD| <= TOL_G * max(1, |g_FD|)  (+ LAG_SB2 for density outputs of the unrolled mode)
# Unrolled back-propagation differentiates the finite iteration: its derivative lags the iterate by one accelerated
# step, so its error is L * e_{K-1}, where e_{K-1} (the error of the last iterate that did NOT pass the stopping rule
# max|dP| <= 15 eps) is only bounded by sqrt(15 eps) for a quadratically convergent accelerator; Lipschitz allowance 4.
# Measured on the corrected tree: up to 9e-6 (HCl, PM6_SP, Pulay) against 3e-10 for the implicit mode.
EPS = 1e-11
LAG_SB2 = 4.0 * math.sqrt(15.0 * EPS)
TOL_F_ABS, TOL_F_REL = 5e-6, 1e-6
TOL_H_SYM = 1e-8
TOL_H_REL = 2e-5      # * max|H|
TOL_FREQ = 1e-3       # relative, modes above 300 cm-1
TOL_HOOK = 1e-4       # relative, derivative of additive-term forward
CIS_ALLOW = 2e-5      # extra absolute allowance for gradients of the CIS active-state energy (amplitudes converged to
                      # 1e-9; measured agreement on the clean tree goes into the margins)
FD_STEPS = (1e-3, 5e-4, 2.5e-4)   # relative to |theta| per atom
MIN_SPACING = 0.15    # eV; below this the 5th derivative of an orbital energy makes the Richardson difference itself
                      # inaccurate (measured: spacing 0.053 eV -> FD error 3e-6, identical for every backward mode)
CONVS = [[0, 0.3], [1], [2]]
MODES = ["leaf", "nonleaf", "callable"]
ZERO_STEP = 0.1       # direction component (times FD_STEPS) given to parameter entries whose value is exactly 0
PAIR_NAME = "Kbeta"   # pair-level scaling of the resonance integrals, shape (npairs, 4); not in parameterlist


def _bad(x, bound=1.0):
    """True when x exceeds the bound OR is not a finite number (NaN never passes a clause)."""
    try:
        x = float(x)
    except (TypeError, ValueError):
        return True
    return not (x <= bound)


def _fin(x):
    """ratio for margins: non-finite counts as a huge excess"""
    x = float(x)
    return x if math.isfinite(x) else 1e30


def _tol(out, sb, r):
    return TOL_G * max(1.0, abs(r)) + (LAG_SB2 if (sb == 2 and out in DENSITY_OUTPUTS) else 0.0)


# =========================================================================================
# case generation (parent process: numpy only)
# =========================================================================================
# learnable names per method = seqm.basics.parameterlist[method] (compared with it at run time, see obs)
_POOL = {
    "MNDO": ["NH3", "HCN", "LiH", "CH3Cl", "H2O", "H2S"],
    "AM1": ["H2O", "CH2O", "NH3", "HCl", "HCN", "H2S"],
    "PM3": ["CH3F", "H2O", "HCN", "NH3", "HCl", "H2S"],
    "PM6_SP": ["H2S", "HCl", "NH3", "HCN", "CH2O", "LiH"],
}
_NAMES = {
    "MNDO": ["U_ss", "U_pp", "zeta_s", "zeta_p", "beta_s", "beta_p", "g_ss", "g_sp", "g_pp", "g_p2", "h_sp", "alpha"],
}
_NAMES["PM3"] = _NAMES["MNDO"] + ["Gaussian%d_%s" % (i, k) for k in "KLM" for i in (1, 2)]
_NAMES["AM1"] = _NAMES["MNDO"] + ["Gaussian%d_%s" % (i, k) for k in "KLM" for i in (1, 2, 3, 4)]
_NAMES["PM6_SP"] = (_NAMES["MNDO"] + ["s_orb_exp_tail", "p_orb_exp_tail", "F0SD", "G2SD", "rho_core", "EISOL"]
                    + ["Gaussian%d_%s" % (i, k) for k in "KLM" for i in (1, 2, 3, 4)])


def _chunks(names, g, nchunk):
    names = list(names)
    perm = [names[i] for i in g.permutation(len(names))]
    out = [sorted(perm[i::nchunk], key=names.index) for i in range(nchunk)]
    return [c for c in out if c]


def _configs(tier, g, rot):
    cfg = []
    if tier == "quick":
        for mi, mode in enumerate(MODES):
            for sb in (0, 1, 2):
                cfg.append([mode, sb, (mi + sb + rot) % 3])
    else:
        for mode in MODES:
            for sb in (0, 1, 2):
                for ci in range(3):
                    cfg.append([mode, sb, ci])
    return cfg


def gen_cases(tier, seed):
    g = gen.rng("C07", tier)
    cases, head = [], []
    if tier == "quick":
        plan = {"AM1": ["H2O", "CH2O"], "MNDO": ["NH3", "HCN"], "PM3": ["CH3F", "H2O"], "PM6_SP": ["H2S", "HCl"]}
        nchunk = 3
    else:
        plan = _POOL
        nchunk = 3
    # --- second order first (most expensive single cases)
    hess = [("H2O", "AM1", 2)] if tier == "quick" else [("H2O", "AM1", 2), ("NH3", "PM3", 1), ("HCN", "MNDO", 0), ("CH2O", "AM1", 2)]
    for mol, method, ci in hess:
        head.append({"kind": "hessian", "mol": mol, "method": method, "conv": ci,
                      "geom_seed": int(g.integers(0, 2**31))})
    # --- first order in parameters
    rot = 0
    for method, mols in plan.items():
        for mol in mols:
            if not gen.available(mol, method):
                continue
            gs = int(g.integers(0, 2**31))
            names = _NAMES[method] + [PAIR_NAME]
            for ch in _chunks(names, g, nchunk):
                cases.append({"kind": "param", "mol": mol, "method": method, "geom_seed": gs, "sigma": 0.05,
                              "names": ch, "configs": _configs(tier, g, rot), "dir_seed": int(g.integers(0, 2**31))})
                rot += 1
    # symmetric molecules: degenerate orbital energies; only degeneracy-invariant outputs are judged
    sym = [("CH4", "AM1")] if tier == "quick" else [("CH4", "AM1"), ("NH3", "MNDO"), ("CH4", "PM3"), ("BH3", "MNDO")]
    for mol, method in sym:
        cases.append({"kind": "param", "mol": mol, "method": method, "geom_seed": 0, "sigma": 0.0,
                      "names": ["U_ss", "beta_p", "g_ss", "g_pp", "h_sp", "zeta_p"],
                      "configs": [["leaf", 1, 2], ["nonleaf", 2, 1]] if tier == "quick" else
                                 [["leaf", 1, 2], ["nonleaf", 2, 2], ["callable", 1, 1], ["leaf", 2, 0]],
                      "dir_seed": int(g.integers(0, 2**31))})
    # --- named cells: an element ON the hpp = (g_pp - g_p2)/2 >= 0.1 eV floor of the rho2 solve (shipped tables: PM3 Cl,
    # Be, Mg; PM6_SP F, Be, Na, Mg).  There rho2 must not respond to g_pp / g_p2 at all; h_sp and zeta_p for contrast.
    floor = [("HCl", "PM3"), ("CH3F", "PM6_SP")] if tier == "quick" else \
            [("HCl", "PM3"), ("CH3F", "PM6_SP"), ("CH3Cl", "PM3"), ("BeH2", "PM3"), ("MgH2", "PM3"), ("HF", "PM6_SP"),
             ("NaH", "PM6_SP"), ("MgH2", "PM6_SP")]
    for i, (mol, method) in enumerate(floor):
        if not gen.available(mol, method):
            continue
        cfgs = [[mode, sb, (mi + sb + i) % 3] for mi, mode in enumerate(MODES) for sb in (0, 1, 2)]
        head.append({"kind": "param", "mol": mol, "method": method, "geom_seed": int(g.integers(0, 2**31)), "sigma": 0.05,
                     "names": ["g_pp", "g_p2", "h_sp", "zeta_p"], "configs": cfgs, "floor_cell": True,
                     "dir_seed": int(g.integers(0, 2**31))})
    # --- zero-entry cells: every Gaussian amplitude / exponent / centre and the p-type parameters, INCLUDING the entries
    # whose value is exactly 0 (elements with fewer Gaussians than the method allows, hydrogen's p parameters, or a
    # caller who initialises an amplitude at 0): the FD quotient around 0 decides what the gradient there must be
    gk = lambda m_, idx: ["Gaussian%d_%s" % (i, k) for i in idx for k in "KLM"] if m_ != "MNDO" else []
    ptype = ["U_pp", "beta_p", "g_pp", "g_p2", "g_sp", "h_sp", "zeta_p"]
    zc = [("H2O", "AM1", gk("AM1", (1, 2, 3, 4)), []), ("CH2O", "PM6_SP", gk("PM6_SP", (1, 2, 3, 4)), []),
          ("H2O", "PM3", gk("PM3", (1, 2)), ["Gaussian1_K"]), ("NH3", "AM1", ptype, [])]
    if tier == "thorough":
        zc += [("HCN", "AM1", gk("AM1", (1, 2, 3, 4)), ["Gaussian2_K"]), ("CH3F", "PM3", gk("PM3", (1, 2)), ["Gaussian2_K"]),
               ("H2S", "PM6_SP", gk("PM6_SP", (1, 2, 3, 4)), []), ("H2O", "MNDO", ptype, []), ("CH3Cl", "AM1", gk("AM1", (3, 4)) + ptype[:3], []),
               ("HCl", "PM6_SP", ptype, [])]
    for i, (mol, method, nm, zi) in enumerate(zc):
        if not gen.available(mol, method) or not nm:
            continue
        cfgs = [[mode, sb, (mi + sb + i) % 3] for mi, mode in enumerate(MODES) for sb in (0, 1, 2)]
        if tier == "quick":
            cfgs = [c for j, c in enumerate(cfgs) if j % 2 == 0 or c[0] == "leaf"]
        head.append({"kind": "param", "mol": mol, "method": method, "geom_seed": int(g.integers(0, 2**31)), "sigma": 0.05,
                     "names": nm, "configs": cfgs, "zero_entries": True, "zero_init": zi,
                     "dir_seed": int(g.integers(0, 2**31))})
    # --- training-loop cells: persistent leaf tensors for ALL learned names, updated in place between evaluations
    tr = [("H2O", "AM1", 0), ("CH2O", "PM3", 1), ("NH3", "MNDO", 2), ("H2O", "PM3", 1)]
    if tier == "thorough":
        tr += [("HCN", "AM1", 1), ("H2S", "PM6_SP", 0)]
    for mol, method, sb in tr:
        head.append({"kind": "train", "mol": mol, "method": method, "sb": sb, "sigma": 0.05,
                     "geom_seed": int(g.integers(0, 2**31)), "dir_seed": int(g.integers(0, 2**31))})
    # --- repeat cells: one Molecule / Energy object evaluated three times (nudged in place, P0 = previous density)
    rep = [(["H2O"], "AM1", 1, True), (["CH2O", "CH2O"], "PM3", 2, False), (["H2O", "NH3"], "AM1", 1, False)]
    if tier == "thorough":
        rep += [(["CH2O"], "AM1", 2, True), (["NH3", "H2O", "HCN"], "MNDO", 2, False), (["H2O", "H2O"], "MNDO", 1, True),
                (["CH3F"], "PM3", 1, False), (["H2S", "H2O"], "PM6_SP", 1, False)]
    for mols_, method, sb, cis in rep:
        head.append({"kind": "repeat", "mols": mols_, "method": method, "sb": sb, "cis": cis, "ncalls": 3,
                     "names": ["U_ss", "beta_p", "g_ss"], "geom_seed": int(g.integers(0, 2**31)),
                     "dir_seed": int(g.integers(0, 2**31))})
    # --- forces with a callable (parameters depend on the geometry)
    fplan = [("H2O", "AM1", 0, 2), ("HCN", "PM3", 1, 1)] if tier == "quick" else \
            [("H2O", "AM1", 0, 2), ("HCN", "PM3", 1, 1), ("NH3", "MNDO", 2, 0), ("CH2O", "AM1", 1, 2),
             ("HCl", "PM6_SP", 0, 2), ("CH3F", "PM3", 2, 2), ("H2S", "MNDO", 0, 1), ("LiH", "MNDO", 1, 2)]
    for mol, method, sb, ci in fplan:
        head.append({"kind": "force", "mol": mol, "method": method, "sb": sb, "conv": ci, "kappa": 0.05,
                      "geom_seed": int(g.integers(0, 2**31)), "dir_seed": int(g.integers(0, 2**31))})
    return head + cases


# =========================================================================================
# worker side: monitors
# =========================================================================================
_W = {}


def setup_worker():
    """Install the counting wrappers once per worker.  Every wrapper dispatches to a slot in IMPL so that
    neutralisers (used only for mechanism attribution) can swap the implementation underneath the counters."""
    if _W:
        return
    import collections
    import copy as _copy

    import torch

    import seqm.basics
    import seqm.Molecule
    from seqm.seqm_functions import cal_par as cp
    from seqm.seqm_functions import diag as dg
    from seqm.seqm_functions import scf_loop as sl
    from seqm.seqm_functions.constants import ev

    C = collections.Counter()
    IMPL = {}
    missing = []
    hookviol = []
    _W.update(C=C, IMPL=IMPL, missing=missing, hookviol=hookviol, torch=torch)

    # ---- SCF.backward + the two fixed-point solvers --------------------------------------------------
    if hasattr(sl, "SCF") and hasattr(sl.SCF, "backward"):
        IMPL["scf_bw"] = IMPL["scf_bw_orig"] = sl.SCF.backward

        def scf_bw(ctx, *a):
            C["scf_backward_calls"] += 1
            try:
                sv = ctx.saved_tensors
                att = any(getattr(t, "grad_fn", None) is not None for t in sv[1:9])
                prg = any(t.requires_grad for t in sv[4:9])
                if att and prg:
                    C["scf_backward_saved_inputs_attached_and_direct_param_grad"] += 1
            except Exception:
                pass
            return IMPL["scf_bw"](ctx, *a)

        sl.SCF.backward = staticmethod(scf_bw)
    else:
        missing.append("scf_loop.SCF.backward")
    for nm, key in (("fixed_point_anderson", "anderson_calls"), ("fixed_point_picard", "picard_calls")):
        if hasattr(sl, nm):
            def mk(orig, key):
                def w(fp_fun, *a, **k):
                    C[key] += 1
                    n = [0]

                    def f2(u):
                        n[0] += 1
                        return fp_fun(u)

                    try:
                        return orig(f2, *a, **k)
                    finally:
                        C[key.replace("_calls", "_fp_evals")] += n[0]
                return w
            setattr(sl, nm, mk(getattr(sl, nm), key))
        else:
            missing.append("scf_loop." + nm)

    # ---- additive terms: counters + invariant "backward == derivative of own forward" -----------------
    class _Dummy:
        def save_for_backward(self, *a):
            pass

    def mk_rho(cls, tag):
        of, ob = cls.forward, cls.backward
        IMPL[tag + "_bw"] = IMPL[tag + "_bw_orig"] = ob

        def fwd(ctx, h, D):
            ctx._verif_in = (h.detach().clone(), D.detach().clone())
            return of(ctx, h, D)

        def bwd(ctx, gout):
            C[tag + "_backward_calls"] += 1
            ret = IMPL[tag + "_bw"](ctx, gout)
            if IMPL[tag + "_bw"] is ob and getattr(ctx, "_verif_in", None) is not None and _W.get("hook_budget", 0) > 0:
                try:
                    h, D = ctx._verif_in
                    if h.numel():
                        _W["hook_budget"] -= 1
                        with torch.no_grad():
                            def f(hh, DD):
                                return of(_Dummy(), hh.clone(), DD.clone())
                            fd = []
                            for which in (0, 1):
                                x = (h, D)[which]
                                est = []
                                for rel in (2e-4, 1e-4):
                                    st = rel * x.abs().clamp_min(1e-3)
                                    a = f(h + st, D) if which == 0 else f(h, D + st)
                                    b = f(h - st, D) if which == 0 else f(h, D - st)
                                    est.append((a - b) / (2 * st))
                                fd.append((4 * est[1] - est[0]) / 3)
                            g = gout.detach()
                            for which, nm2 in ((0, "d/dh"), (1, "d/dD")):
                                want = g * fd[which]
                                got = ret[which].detach()
                                err = (got - want).abs()
                                bound = TOL_HOOK * torch.maximum(want.abs(), 1e-6 * torch.ones_like(want))
                                ratio = _fin((err / bound).max()) if bool(torch.isfinite(err / bound).all()) else 1e30
                                C[tag + "_hook_checked"] += 1
                                C["rho_hook_checked"] += 1
                                _W.setdefault("hook_margin", {})
                                k = "hook_%s_%s" % (tag, nm2)
                                _W["hook_margin"][k] = max(_W["hook_margin"].get(k, 0.0), ratio)
                                if _bad(ratio):
                                    sel = g.abs() > 0
                                    prod = (got[sel] / g[sel]) * fd[which][sel]
                                    recip = bool(sel.any()) and bool(((prod - 1).abs() < 1e-3).all())
                                    if len(hookviol) < 6:
                                        hookviol.append({
                                            "clause": "hook/additive_term_%s.backward %s" % (tag, nm2),
                                            "mech": "additive-term-backward-reciprocal" if recip else None,
                                            "detail": {"returned": got.tolist(), "grad_output": g.tolist(),
                                                       "fd_of_forward": fd[which].tolist(), "inputs_h": h.tolist(),
                                                       "inputs_D": D.tolist(),
                                                       "returned_over_grad_times_fd": prod.tolist(), "ratio_to_bound": ratio}})
                                    C[tag + "_hook_violations"] += 1
                except Exception as exc:  # the hook oracle must never disturb the run
                    C["hook_oracle_errors"] += 1
                    _W["hook_error"] = repr(exc)[:300]
            return ret

        cls.forward = staticmethod(fwd)
        cls.backward = staticmethod(bwd)

    for nm, tag in (("additive_term_rho1", "rho1"), ("additive_term_rho2", "rho2")):
        if hasattr(cp, nm):
            mk_rho(getattr(cp, nm), tag)
        else:
            missing.append("cal_par." + nm)

    # ---- degenerate-safe eigh backward ---------------------------------------------------------------
    if hasattr(dg, "degen_symeig"):
        ob = dg.degen_symeig.backward

        def dbw(ctx, ge, gv):
            C["degen_symeig_backward_calls"] += 1
            try:
                ev_ = ctx.saved_tensors[0]
                d = (ev_[..., 1:] - ev_[..., :-1]).abs()
                C["degen_symeig_backward_with_degenerate_pair"] += int(bool((d <= float(dg.DEGEN_THRESHOLD)).any()) and gv is not None)
            except Exception:
                pass
            return ob(ctx, ge, gv)

        dg.degen_symeig.backward = staticmethod(dbw)
    else:
        missing.append("diag.degen_symeig")

    # ---- neutralisers (mechanism attribution / bypass only) ------------------------------------------
    class _CopyShim:
        def __init__(self, real):
            self._real = real
            self.bypass = False
            self.hits = 0

        def __getattr__(self, k):
            return getattr(self._real, k)

        def deepcopy(self, x, memo=None):
            if self.bypass and isinstance(x, tuple) and len(x) == 3 and isinstance(x[0], dict):
                self.hits += 1
                return (dict(x[0]), x[1], x[2])
            return self._real.deepcopy(x) if memo is None else self._real.deepcopy(x, memo)

    shim = _CopyShim(_copy)
    import sys as _sys
    for mn in ("seqm.basics", "seqm.Molecule"):
        m = _sys.modules.get(mn)
        if m is not None and getattr(m, "copy", None) is _copy:
            m.copy = shim
            C["copy_shim_installed"] += 1
    _W["shim"] = shim

    def rho1_fixed(ctx, gout):
        rho1, D1 = ctx.saved_tensors
        tmp = (D1 ** 2 + rho1 ** 2) ** 1.5
        dh_drho = 0.25 * (rho1 / tmp - 1.0 / rho1 ** 2) * ev
        dD_drho = tmp / rho1 ** 2 / D1 - rho1 / D1
        return gout / dh_drho, gout / dD_drho

    def rho2_fixed(ctx, gout):
        rho2, D2 = ctx.saved_tensors
        t1 = 1.0 / (D2 ** 2 + rho2 ** 2) ** 1.5
        t2 = 1.0 / (2.0 * D2 ** 2 + rho2 ** 2) ** 1.5
        dh_drho = (-0.125 / rho2 ** 2 + rho2 * (t1 / 4.0 - t2 / 8.0))
        dD_drho = -dh_drho / (D2 / 4.0 * (t1 - t2))
        return gout / (dh_drho * ev), gout / dD_drho

    class _CtxProxy:
        def __init__(self, c):
            object.__setattr__(self, "_c", c)

        @property
        def saved_tensors(self):
            out = []
            for t in self._c.saved_tensors:
                if torch.is_tensor(t) and t.is_floating_point():
                    out.append(t.detach().requires_grad_(t.requires_grad))
                else:
                    out.append(t)
            return tuple(out)

        def __getattr__(self, k):
            return getattr(self._c, k)

    def scf_detached(ctx, *a):
        return IMPL["scf_bw_orig"](_CtxProxy(ctx), *a)

    _W["fixed"] = {"rho": (rho1_fixed, rho2_fixed), "scf": scf_detached}


class _Neutralise:
    """context manager: keys in {'deepcopy','rho','scf'}"""

    def __init__(self, keys):
        self.keys = set(keys)

    def __enter__(self):
        I, shim = _W["IMPL"], _W["shim"]
        self.old = (shim.bypass, I.get("rho1_bw"), I.get("rho2_bw"), I.get("scf_bw"))
        if "deepcopy" in self.keys:
            shim.bypass = True
        if "rho" in self.keys and "rho1_bw" in I:
            I["rho1_bw"], I["rho2_bw"] = _W["fixed"]["rho"]
        if "scf" in self.keys and "scf_bw" in I:
            I["scf_bw"] = _W["fixed"]["scf"]
        return self

    def __exit__(self, *a):
        I, shim = _W["IMPL"], _W["shim"]
        shim.bypass = self.old[0]
        for k, v in zip(("rho1_bw", "rho2_bw", "scf_bw"), self.old[1:]):
            if v is not None:
                I[k] = v


# =========================================================================================
# worker side: drivers
# =========================================================================================
def _geom(case):
    Z, X, q, m = gen.molecule(case["mol"])
    sig = case.get("sigma", 0.05)
    if sig > 0:
        X = gen.distort(X, np.random.default_rng(case["geom_seed"]), sigma=sig)
        X = X @ gen.generic_rotation(X, np.random.default_rng(case["geom_seed"] + 1)).T
    else:
        X = X @ gen.haar(np.random.default_rng(12345)).T
    return Z, X, q, m


def _table(method, Z, names):
    """table values per real atom, read with the package's own loader (the shipped CSV is the property's given)"""
    import os

    import torch

    import seqm.basics
    from seqm.seqm_functions.parameters import params

    els = [0] + sorted(set(Z))
    nm = [n for n in names if n != PAIR_NAME]
    p = params(method=method, elements=els, root_dir=os.path.dirname(seqm.basics.__file__) + "/params/", parameters=nm)
    Zt = torch.tensor(Z)
    return {n: p[Zt, i].detach().clone().to(torch.float64) for i, n in enumerate(nm)}


def _sett(method, names, sb, conv, extra=None):
    d = {"method": method, "scf_eps": EPS, "scf_converger": list(conv), "sp2": [False], "learned": list(names),
         "scf_backward": sb, "eig": True}
    if extra:
        d.update(extra)
    return d


def _energy(Z, X, q, m, sett, learned, want_coords=False):
    """Molecule + Energy(all_terms) -> dict of tensors WITH graph.  learned: dict (copied, the package writes into
    it) or callable."""
    import torch

    from seqm.basics import Energy
    from seqm.Molecule import Molecule
    from seqm.seqm_functions.constants import Constants
    from vlib import run

    sp = torch.tensor([list(Z)], dtype=torch.int64)
    xyz = torch.tensor(np.asarray(X, float)[None])
    const = Constants()
    with run.quiet():
        lp = dict(learned) if isinstance(learned, dict) else learned
        mol = Molecule(const, sett, xyz, sp, q, m, learned_parameters=lp)
        en = Energy(sett)
        lp = dict(learned) if isinstance(learned, dict) else learned
        Hf, Etot, Eelec, Enuc, Eiso, EnucAB, e_gap, e, P, charge, notconv = en(mol, learned_parameters=lp, all_terms=True)
    nat = len(Z)
    norb = int((4 * mol.nHeavy + mol.nHydro)[0])
    qat = const.tore[sp] - P.diagonal(dim1=1, dim2=2).reshape(1, nat, -1).sum(dim=2)
    return {"Hf": Hf[0], "Etot": Etot[0], "gap": e_gap.reshape(-1)[0], "e": e[0, :norb], "q": qat[0],
            "notconverged": bool(notconv.any()), "mol": mol, "norb": norb}


def _scalars(out, cvec):
    """the judged scalar outputs"""
    return {"Etot": out["Etot"], "Hf": out["Hf"], "gap": out["gap"],
            "emo": (out["e"] * cvec["emo"]).sum(), "q": (out["q"] * cvec["q"]).sum()}


def _callable_factory(names, base, phi, phi0, avec, Z, X0, kappa):
    """f(species, coordinates) -> dict.  theta_n = base_n*(1 + kappa*(s(x) - s(x0))) + a_n*(phi_n - phi0_n) with a smooth
    per-atom descriptor s(x) = sum_j exp(-r_ij^2/2.25): explicit geometry dependence, equal to base at (x0, phi0)."""
    import torch

    X0t = torch.tensor(np.asarray(X0, float))

    def desc(xyz):
        d2 = ((xyz[:, None, :] - xyz[None, :, :]) ** 2).sum(-1)
        return torch.exp(-d2 / 2.25).sum(1) - 1.0

    s0 = desc(X0t)
    ncall = [0]

    def f(species, coordinates):
        ncall[0] += 1
        xyz = coordinates[species > 0]
        s = desc(xyz)
        out = {}
        for n in names:
            if n == PAIR_NAME:
                out[n] = base[n] + (avec[n] * (phi[n] - phi0[n]) if phi is not None else 0.0)
            else:
                t = base[n] * (1.0 + kappa * (s - s0))
                if phi is not None:
                    t = t + avec[n] * (phi[n] - phi0[n])
                out[n] = t
        return out

    f.ncall = ncall
    return f


class _Phase(Exception):
    def __init__(self, phase, exc):
        Exception.__init__(self, "%s: %s" % (type(exc).__name__, exc))
        self.phase, self.exc = phase, exc


def _classify_exc(exc):
    s = "%s: %s" % (type(exc).__name__, exc)
    if "deepcopy protocol" in s:
        return "supplied-parameters-deepcopied"
    return None


# -----------------------------------------------------------------------------------------
def _run_param(case):
    import torch

    C = _W["C"]
    mon0 = dict(C)
    Z, X, q, m = _geom(case)
    method = case["method"]
    nat = len(Z)
    names_all = list(case["names"])
    base = _table(method, Z, names_all)
    # pair-level Kbeta: ones(npairs, 4)
    npairs = nat * (nat - 1) // 2
    if PAIR_NAME in names_all:
        base[PAIR_NAME] = torch.ones(npairs, 4)
    zero_mode = bool(case.get("zero_entries"))
    for n in case.get("zero_init", []):
        if n in base:
            base[n] = torch.zeros_like(base[n])   # a caller who initialises this parameter at exactly 0
    # learnable here = non-zero for at least one atom (zero-entry cells: every name, entries that are exactly 0 included)
    names = list(names_all) if zero_mode else [n for n in names_all if float(base[n].abs().max()) > 0]
    skipped_zero = [n for n in names_all if n not in names]
    # atoms sitting on the hpp floor (the rho2 solve must be insensitive to their g_pp / g_p2)
    gt = _table(method, Z, ["g_pp", "g_p2"])
    hpp_atom = 0.5 * (gt["g_pp"] - gt["g_p2"])
    on_floor = [int(i) for i in range(nat) if Z[i] > 2 and float(hpp_atom[i]) < 0.1 and float(gt["g_pp"][i].abs() + gt["g_p2"][i].abs()) > 0]
    try:
        from seqm.basics import parameterlist
        not_driven = sorted(set(parameterlist[method]) - set(_NAMES[method]))
    except Exception:
        not_driven = ["<parameterlist not importable>"]
    if not names:
        return {"ineligible": "all parameters of the chunk are zero for these elements"}
    g = np.random.default_rng(case["dir_seed"])
    vdir = {}
    for n in names:
        b = base[n]
        d = torch.tensor(g.normal(size=tuple(b.shape)))
        d = d / d.abs().max()
        if n == PAIR_NAME:
            vdir[n] = d
        elif zero_mode:
            # entries whose current value is exactly 0 are perturbed too, with an absolute step
            vdir[n] = torch.where(b != 0, b.abs() * d, ZERO_STEP * d)
        else:
            vdir[n] = b.abs() * d                                # zero where the table value is zero
    cvec = None

    # ---------------- finite differences (reference configuration: Pulay, no backward) -----------------
    sett_fd = _sett(method, names, 0, [2])

    def value(theta):
        out = _energy(Z, X, q, m, sett_fd, theta)
        if out["notconverged"]:
            raise _NotConv()
        sc = _scalars(out, cvec)
        return {k: float(v.detach()) for k, v in sc.items()}

    class _NotConv(Exception):
        pass

    class _Branch(Exception):
        pass

    try:
        ref = _energy(Z, X, q, m, sett_fd, {n: base[n].clone() for n in names})
        # the reference must be the stable self-consistent solution: if adaptive mixing finds a lower one than Pulay
        # (solver-dependent solutions / saddle landings are C04's subject), the finite differences are taken there
        alt_sett = _sett(method, names, 0, [1])
        alt = _energy(Z, X, q, m, alt_sett, {n: base[n].clone() for n in names})
        if not alt["notconverged"] and (ref["notconverged"] or
                                        float(alt["Etot"].detach()) < float(ref["Etot"].detach()) - 1e-6):
            C["reference_switched_to_lower_scf_solution"] += 1
            sett_fd.clear()
            sett_fd.update(alt_sett)
            ref = alt
    except Exception as exc:
        return {"inconclusive": "reference evaluation raised %r" % (exc,)}
    if ref["notconverged"]:
        return {"ineligible": "reference SCF not converged"}
    norb = ref["norb"]
    E_ref = float(ref["Etot"].detach())
    cvec = {"emo": torch.tensor(g.normal(size=norb)), "q": torch.tensor(g.normal(size=nat))}
    e = ref["e"].detach().numpy()
    spacing = float(np.min(np.diff(np.sort(e)))) if norb > 1 else 9.0
    emo_ok = spacing >= MIN_SPACING
    fd, fd_bad, nonfinite = {}, {}, {}
    C["fd_energy_evaluations"] += 1
    for n in names:
        ests = []
        try:
            for h in FD_STEPS:
                tp = {k: base[k].clone() for k in names}
                tm = {k: base[k].clone() for k in names}
                tp[n] = base[n] + h * vdir[n]
                tm[n] = base[n] - h * vdir[n]
                a, b = value(tp), value(tm)
                C["fd_energy_evaluations"] += 2
                if not (abs(a["Etot"] + b["Etot"] - 2 * E_ref) <= 1e-3 + 0.2 * abs(a["Etot"] - b["Etot"])):
                    raise _Branch()
                nf = [k for k in a if not (math.isfinite(a[k]) and math.isfinite(b[k]))]
                if nf and n not in nonfinite:
                    nonfinite[n] = nf
                ests.append({k: (a[k] - b[k]) / (2 * h) for k in a})
        except _NotConv:
            fd_bad[n] = "not converged at a displaced parameter"
            continue
        except _Branch:
            # the displaced SCF landed on another self-consistent solution (energy jumps by far more than the step
            # explains): no derivative to compare with
            fd_bad[n] = "a displaced evaluation converged to another SCF solution"
            C["fd_other_scf_solution_skipped"] += 1
            continue
        fd[n] = {}
        for k in ests[0]:
            # two Richardson estimates from three nested steps; the returned outputs are not perfectly smooth in the
            # parameters (measured: jumps of ~6e-7 eV in Etot as a function of zeta_s, i.e. 1e-4 in a difference
            # quotient), so a difference is only used as an oracle when both estimates agree to a fifth of the bound
            r1 = (4 * ests[1][k] - ests[0][k]) / 3
            r2 = (4 * ests[2][k] - ests[1][k]) / 3
            smooth = abs(r2 - r1) <= 0.2 * TOL_G * max(1.0, abs(r2))
            fd[n][k] = (r2, smooth)

    # ---------------- AD under every configuration -----------------------------------------------
    viol, margins, cells = [], {}, []
    for n, nf in nonfinite.items():
        viol.append({"clause": "non-finite-output", "mech": None,
                     "detail": {"name": n, "outputs": nf, "method": method, "mol": case["mol"],
                                "note": "returned output is not finite at a parameter value within 1e-3 relative of the table"}})
    if not all(math.isfinite(float(v.detach())) for v in (ref["Etot"], ref["Hf"], ref["gap"])) or \
            not bool(torch.isfinite(ref["e"]).all()) or not bool(torch.isfinite(ref["q"]).all()):
        viol.append({"clause": "non-finite-output", "mech": None, "detail": {"where": "reference evaluation", "method": method,
                                                                              "mol": case["mol"]}})
    ncomp = [0, 0, 0]  # compared, compared density outputs, nonzero FD

    def upd(name, ratio):
        ratio = _fin(ratio)
        if name not in margins or ratio > margins[name]:
            margins[name] = ratio

    def build(mode):
        """-> (learned object for the package, caller tensors {n: tensor}, scale {n: tensor})"""
        gg = np.random.default_rng(case["dir_seed"] + 17)
        if mode == "leaf":
            th = {n: base[n].clone().requires_grad_(True) for n in names}
            return dict(th), th, {n: torch.ones_like(base[n]) for n in names}
        avec = {n: torch.tensor(gg.uniform(0.5, 2.0, size=tuple(base[n].shape))) for n in names}
        phi = {n: torch.tensor(gg.normal(size=tuple(base[n].shape))).requires_grad_(True) for n in names}
        if mode == "nonleaf":
            th = {n: avec[n] * phi[n] + (base[n] - avec[n] * phi[n].detach()) for n in names}
            return th, phi, avec
        phi0 = {n: phi[n].detach().clone() for n in names}
        f = _callable_factory(names, base, phi, phi0, avec, Z, X, 0.05)
        return f, phi, avec

    def ad_run(cfg, neutral):
        """-> (grads {out: {n: float <g, v/a>} or None}, status)"""
        mode, sb, ci = cfg
        with _Neutralise(neutral):
            learned, mine, scale = build(mode)
            sett = _sett(method, names, sb, CONVS[ci])
            try:
                out = _energy(Z, X, q, m, sett, learned)
            except Exception as exc:
                raise _Phase("accept", exc)
            if out["notconverged"]:
                return None, "notconverged"
            if not (abs(float(out["Etot"].detach()) - E_ref) <= 1e-6):
                # this solver converged to ANOTHER self-consistent solution than the reference configuration the
                # finite differences are taken with (solver-dependent SCF solutions are C04's subject, not C07's)
                C["ad_config_on_other_scf_solution"] += 1
                return None, "other-solution"
            sc = _scalars(out, cvec)
            outs = ["Etot", "Hf"] + (list(DENSITY_OUTPUTS) if sb >= 1 else [])
            res = {}
            tens = [mine[n] for n in names]
            for k in outs:
                try:
                    gr = torch.autograd.grad(sc[k], tens, retain_graph=True, allow_unused=True)
                except Exception as exc:
                    raise _Phase("backward-raised/%s" % k, exc)
                res[k] = {}
                for n, gi in zip(names, gr):
                    res[k][n] = None if gi is None else float((gi.detach() * (vdir[n] / scale[n])).sum())
            return res, "ok"

    def judge(res, sb):
        """-> list of (out, name, kind, ad, fdval, ratio)"""
        bad = []
        for k, per in res.items():
            if k in ("gap", "emo") and (not emo_ok or case.get("sigma", 0.05) == 0):
                continue
            for n, ad in per.items():
                if n not in fd:
                    continue
                r, smooth = fd[n][k]
                if not smooth:
                    continue
                bound = _tol(k, sb, r)
                if ad is None:
                    if _bad(abs(r), bound):
                        bad.append((k, n, "grad-none", None, r, 1e30))
                    continue
                ratio = _fin(abs(ad - r) / bound)
                if _bad(ratio):
                    bad.append((k, n, "grad-mismatch" if math.isfinite(ad) else "grad-non-finite", ad, r, ratio))
        return bad

    def worst_ratio(res, sb):
        w = 0.0
        for k, per in res.items():
            if k in ("gap", "emo") and (not emo_ok or case.get("sigma", 0.05) == 0):
                continue
            for n, ad in per.items():
                if n in fd and fd[n][k][1] and ad is not None:
                    w = max(w, _fin(abs(ad - fd[n][k][0]) / _tol(k, sb, fd[n][k][0])))
        return w

    def count(res, sb, cfgkey):
        for k, per in res.items():
            if k in ("gap", "emo") and (not emo_ok or case.get("sigma", 0.05) == 0):
                C["skipped_degenerate_orbital_outputs"] += len(per)
                continue
            for n, ad in per.items():
                if n not in fd:
                    continue
                r, smooth = fd[n][k]
                if not smooth:
                    C["fd_not_smooth_skipped"] += 1
                    continue
                C["grad_compared"] += 1
                ncomp[0] += 1
                if zero_mode and n != PAIR_NAME and bool(((base[n] == 0) & (vdir[n] != 0)).any()):
                    C["grad_compared_with_zero_valued_entries"] += 1
                    if abs(r) > 1e-6:
                        C["grad_compared_with_zero_valued_entries_fd_nonzero"] += 1
                if n in ("g_pp", "g_p2") and any(float(vdir[n][i].abs()) > 0 for i in on_floor):
                    C["grad_compared_atom_on_hpp_floor"] += 1
                if k in DENSITY_OUTPUTS:
                    C["grad_compared_density_outputs"] += 1
                    ncomp[1] += 1
                if abs(r) > 1e-6:
                    ncomp[2] += 1
                if ad is not None:
                    upd("grad_%s_sb%d" % (k, sb), abs(ad - r) / _tol(k, sb, r))

    for cfg in case["configs"]:
        mode, sb, ci = cfg
        cfgkey = "%s/sb%d/conv%d" % (mode, sb, CONVS[ci][0])
        observed_with = []
        res = None
        try:
            res, st = ad_run(cfg, [])
        except _Phase as exc:
            if exc.phase.startswith("backward-raised") and "did not converge" in str(exc).lower():
                C["backward_solver_did_not_converge"] += 1   # same standing as a non-convergence flag
                continue
            mech = _classify_exc(exc.exc)
            viol.append({"clause": "%s/%s" % (exc.phase, mode), "mech": mech,
                         "detail": {"config": cfg, "exception": str(exc)[:400],
                                    "method": method, "mol": case["mol"], "names": names}})
            C["public_path_raised"] += 1
            st = "raised"
        if res is not None:
            C["public_path_completed"] += 1
            bad = judge(res, sb)
            nonecount = sum(1 for b in bad if b[2] == "grad-none")
            if nonecount:
                # gradient did not reach the caller's tensors: is it the copy?  (counterfactual replay)
                try:
                    res_b, st_b = ad_run(cfg, ["deepcopy"])
                except Exception:
                    res_b = None
                bad_b = judge(res_b, sb) if res_b else bad
                still_none = {(b[0], b[1]) for b in bad_b if b[2] == "grad-none"}
                shown = 0
                for b in bad:
                    if b[2] != "grad-none":
                        continue
                    mech = "supplied-parameters-deepcopied" if (b[0], b[1]) not in still_none else None
                    if shown < 1 or mech is None:
                        viol.append({"clause": "grad-none/%s" % mode, "mech": mech,
                                     "detail": {"config": cfg, "name": b[1], "output": b[0], "fd": b[4],
                                                "method": method, "mol": case["mol"]}})
                        shown += 1
                C["grad_none_observed"] += nonecount
                if res_b is not None and _W["shim"].hits:
                    res, observed_with = res_b, ["deepcopy-bypass"]
        elif st == "raised":
            try:
                res, st = ad_run(cfg, ["deepcopy"])
                observed_with = ["deepcopy-bypass"]
            except _Phase as exc:
                C["bypass_also_raised"] += 1
                viol.append({"clause": "%s-with-bypass/%s" % (exc.phase, mode), "mech": None,
                             "detail": {"config": cfg, "exception": str(exc)[:400]}})
                continue
        if res is None:
            C["ad_run_not_converged_or_other_solution"] += 1
            continue
        if observed_with:
            C["observed_with_deepcopy_bypass"] += 1
        count(res, sb, cfgkey)
        cells.append("%s/%s" % (method, cfgkey))
        bad = [b for b in judge(res, sb) if b[2] == "grad-mismatch" or observed_with]
        if not bad:
            continue
        # ---- mechanism attribution by counterfactual replay (labels only, never the verdict) ----
        neutral = ["deepcopy"] if observed_with else []
        remaining = {(b[0], b[1]): b for b in bad}
        labels = {}
        for key, mech in (("rho", "additive-term-backward-reciprocal"),
                          ("scf", "implicit-adjoint-double-counts-saved-inputs")):
            if not remaining:
                break
            neutral = neutral + [key]
            try:
                res_n, st_n = ad_run(cfg, neutral)
            except Exception:
                res_n = None
            if res_n is None:
                continue
            C["attribution_replays"] += 1
            jn = judge(res_n, sb)
            still = {(b[0], b[1]) for b in jn}
            for kk in list(remaining):
                if kk not in still:
                    labels[kk] = mech
                    del remaining[kk]
            if not remaining:
                # every mismatch vanished under the neutralisers applied so far: record how well AD == FD then
                w = worst_ratio(res_n, sb)
                upd("residual_after_neutralisers(%s)" % "+".join(neutral), w)
        if remaining and sb == 2 and CONVS[ci][0] == 2:
            # unrolled back-propagation through Pulay/DIIS: the extrapolation coefficients are constants for autograd, so
            # the tangent converges more slowly than the density itself and the loop stops on the density alone
            try:
                res_n, st_n = ad_run([mode, 2, 1], ["deepcopy"] if observed_with else [])
            except Exception:
                res_n = None
            if res_n is not None:
                C["attribution_replays"] += 1
                still = {(b[0], b[1]) for b in judge(res_n, sb)}
                for kk in list(remaining):
                    if kk not in still and kk[0] in DENSITY_OUTPUTS:
                        labels[kk] = "unrolled-pulay-gradient-lags-scf-convergence"
                        del remaining[kk]
        per = {}
        for b in bad:
            mech = labels.get((b[0], b[1]))
            cl = "%s/%s/sb%d" % (b[2], "energy" if b[0] in ("Etot", "Hf") else "density", sb)
            per.setdefault((cl, mech), []).append(b)
        for (cl, mech), lst in per.items():
            lst.sort(key=lambda b: -b[5])
            for b in lst[: (1 if mech else 4)]:
                viol.append({"clause": cl, "mech": mech,
                             "detail": {"config": cfg, "name": b[1], "output": b[0], "ad": b[3], "fd": b[4],
                                        "ratio_to_bound": b[5], "ad_times_fd": (b[3] * b[4]) if b[3] is not None else None,
                                        "observed_with": observed_with, "method": method, "mol": case["mol"],
                                        "names_with_same_clause_and_mechanism": sorted({x[1] for x in lst})}})
    for n in names:
        cells.append("%s/name/%s" % (method, n))
    if zero_mode:
        for n in names:
            if n != PAIR_NAME and bool((base[n] == 0).any()):
                cells.append("%s/zero-valued-entry/%s" % (method, n))
    for i in on_floor:
        if "g_pp" in names or "g_p2" in names:
            cells.append("%s/hpp-floor/%s" % (method, gen.SYM.get(Z[i], Z[i])))
    mon = {k: C[k] - mon0.get(k, 0) for k in C if C[k] - mon0.get(k, 0)}
    mon["fd_energy_evaluations"] = mon.get("fd_energy_evaluations", 0)
    return {"nontrivial": ncomp[2] > 0, "violations": viol, "margins": margins, "monitors": mon, "cells": cells,
            "obs": {"names": names, "zero_for_these_elements": skipped_zero, "fd_unusable": fd_bad,
                    "package_parameterlist_names_not_in_harness_list": not_driven,
                    "atoms_on_hpp_floor": on_floor, "hpp_eV": [float(x) for x in hpp_atom],
                    "min_orbital_spacing_eV": spacing, "compared": ncomp[0], "compared_density": ncomp[1],
                    "fd_nonzero": ncomp[2], "worst": margins,
                    "fd_sample": {n: {k: fd[n][k][0] for k in fd[n]} for n in list(fd)[:2]}}}


# -----------------------------------------------------------------------------------------
def _run_force(case):
    import torch

    from vlib import run

    C = _W["C"]
    Z, X, q, m = _geom(case)
    method, sb, conv, kappa = case["method"], case["sb"], CONVS[case["conv"]], case["kappa"]
    nat = len(Z)
    names = [n for n in _NAMES[method] if n != "EISOL"]
    base = _table(method, Z, names)
    names = [n for n in names if float(base[n].abs().max()) > 0]
    f = _callable_factory(names, base, None, None, None, Z, X, kappa)
    mon0 = dict(C)
    viol, margins = [], {}

    def es_full(Xc, learned, nm):
        """Molecule AND driver get the learned object (as the package's own ML wrapper does)."""
        from seqm.ElectronicStructure import Electronic_Structure
        from seqm.Molecule import Molecule
        from seqm.seqm_functions.constants import Constants

        sett = _sett(method, nm, sb, conv)
        sp = torch.tensor([list(Z)], dtype=torch.int64)
        xyz = torch.tensor(np.asarray(Xc, float)[None])
        with run.quiet():
            mol = Molecule(Constants(), sett, xyz, sp, q, m, learned_parameters=learned)
            drv = Electronic_Structure(sett)
            drv(mol, learned_parameters=learned)
        return {"F": mol.force.detach().numpy()[0].copy(), "Etot": float(mol.Etot[0]), "Hf": float(mol.Hf[0]),
                "nc": bool(drv.notconverged.any())}

    observed_with = []
    ref = None
    try:
        ref = es_full(X, f, names)
        C["public_path_completed"] += 1
    except Exception as exc:
        viol.append({"clause": "accept/callable-force", "mech": _classify_exc(exc),
                     "detail": {"exception": ("%s: %s" % (type(exc).__name__, exc))[:400], "method": method, "mol": case["mol"]}})
        C["public_path_raised"] += 1
        observed_with = ["deepcopy-bypass"]
    neutral = ["deepcopy"] if observed_with else []
    with _Neutralise(neutral):
        try:
            if ref is None:
                ref = es_full(X, f, names)
                C["observed_with_deepcopy_bypass"] += 1
            fixed = es_full(X, {n: base[n].clone() for n in names}, names)
        except Exception as exc:
            viol.append({"clause": "accept-with-bypass/callable-force", "mech": None,
                         "detail": {"exception": ("%s: %s" % (type(exc).__name__, exc))[:400]}})
            return {"violations": viol, "monitors": {k: C[k] - mon0.get(k, 0) for k in C if C[k] - mon0.get(k, 0)},
                    "nontrivial": False}
        if ref["nc"]:
            return {"ineligible": "reference not converged"}
        # same energy at x0 with frozen table parameters (the callable equals the table at x0)
        dE0 = abs(ref["Etot"] - fixed["Etot"])
        path = float(np.abs(ref["F"] - fixed["F"]).max())
        g = np.random.default_rng(case["dir_seed"])
        ndir = 0
        badd = []
        for _ in range(7):
            if ndir >= 3:
                break
            d = g.normal(size=(nat, 3))
            d /= np.linalg.norm(d)
            D = {}
            ok = True
            for key in ("Etot", "Hf"):
                D[key] = []
            for h in (2e-3, 1e-3, 5e-4):
                a = es_full(X + h * d, f, names)
                b = es_full(X - h * d, f, names)
                if a["nc"] or b["nc"]:
                    ok = False
                    break
                for key in ("Etot", "Hf"):
                    D[key].append((a[key] - b[key]) / (2 * h))
            if not ok:
                continue
            Fd = float((ref["F"] * d).sum())
            Ffix = float((fixed["F"] * d).sum())
            rich = {key: (4 * D[key][2] - D[key][1]) / 3 for key in D}
            rich1 = {key: (4 * D[key][1] - D[key][0]) / 3 for key in D}
            tol = TOL_F_ABS + TOL_F_REL * abs(Fd)
            # the returned energy is not perfectly smooth (steps of ~5e-7 eV as a function of the orbital exponents, which
            # the callable moves with the geometry): a difference quotient is an oracle only when two nested Richardson
            # estimates agree to a fifth of the bound
            if all(math.isfinite(rich[k]) and math.isfinite(rich1[k]) for k in rich) and \
                    not all(abs(rich[k] - rich1[k]) <= 0.2 * tol for k in rich):
                C["fd_not_smooth_skipped"] += 1
                continue
            r_hf = _fin(abs(Fd + rich["Hf"]) / tol)
            r_et = _fin(abs(Fd + rich["Etot"]) / tol)
            ndir += 1
            C["force_dirs_compared"] += 1
            ratio = min(r_hf, r_et)
            margins["callable_force_vs_fd"] = max(margins.get("callable_force_vs_fd", 0.0), ratio)
            C["force_matches_dHf"] += int(r_hf <= 1)
            C["force_matches_dEtot"] += int(r_et <= 1)
            if _bad(ratio):
                missing_path = abs(Ffix + rich["Hf"]) / tol <= 1 or abs(Fd - Ffix) < 1e-9
                badd.append((d, Fd, Ffix, rich, tol, ratio, bool(missing_path)))
        # mechanism attribution by counterfactual replay (labels only)
        labels = {}
        if badd:
            nt = list(neutral)
            for key, mech in (("rho", "additive-term-backward-reciprocal"),
                              ("scf", "implicit-adjoint-double-counts-saved-inputs")):
                nt = nt + [key]
                try:
                    with _Neutralise(nt):
                        rn = es_full(X, f, names)
                except Exception:
                    continue
                C["attribution_replays"] += 1
                wr = 0.0
                for i, (d, Fd, Ffix, rich, tol, ratio, mp) in enumerate(badd):
                    Fn = float((rn["F"] * d).sum())
                    r2 = _fin(min(_fin(abs(Fn + rich["Hf"])), _fin(abs(Fn + rich["Etot"]))) / (TOL_F_ABS + TOL_F_REL * abs(Fn)))
                    wr = max(wr, r2)
                    if r2 <= 1.0 and i not in labels:
                        labels[i] = mech
                if len(labels) == len(badd):
                    margins["residual_after_neutralisers(%s)" % "+".join(nt)] = wr
                    break
        for i, (d, Fd, Ffix, rich, tol, ratio, mp) in enumerate(badd):
            if i and labels.get(i) == labels.get(0):
                continue
            viol.append({"clause": "callable-force-vs-fd", "mech": labels.get(i),
                         "detail": {"F.d": Fd, "minus_dHf_fd": -rich["Hf"], "minus_dEtot_fd": -rich["Etot"],
                                    "F_frozen_parameters.d": Ffix, "parameter_path_missing": mp, "ratio_to_bound": ratio,
                                    "direction": d.tolist(), "observed_with": observed_with, "method": method,
                                    "mol": case["mol"], "sb": sb}})
    mon = {k: C[k] - mon0.get(k, 0) for k in C if C[k] - mon0.get(k, 0)}
    mon["callable_invocations"] = f.ncall[0]
    return {"nontrivial": ndir > 0 and path > 1e-3, "violations": viol, "margins": margins, "monitors": mon,
            "cells": ["force/%s/sb%d/conv%d" % (method, sb, conv[0])],
            "obs": {"parameter_path_force_contribution_max": path, "dE_at_x0_vs_table": dE0, "dirs": ndir,
                    "observed_with": observed_with, "worst": margins}}


# -----------------------------------------------------------------------------------------
def _run_hessian(case):
    import re

    import torch

    from seqm.basics import Energy
    from seqm.ElectronicStructure import Electronic_Structure
    from seqm.Molecule import Molecule
    from seqm.seqm_functions.constants import Constants
    from vlib import run

    C = _W["C"]
    mon0 = dict(C)
    Z, X, q, m = _geom(case)
    method, conv = case["method"], CONVS[case["conv"]]
    nat = len(Z)
    n3 = 3 * nat
    viol, margins = [], {}
    sett = {"method": method, "scf_eps": EPS, "scf_converger": list(conv), "sp2": [False], "scf_backward": 2,
            "eig": True, "2nd_grad": True}
    sp = torch.tensor([list(Z)], dtype=torch.int64)
    xyz = torch.tensor(np.asarray(X, float)[None])
    const = Constants()
    with run.quiet():
        mol = Molecule(const, dict(sett), xyz, sp, q, m)
        en = Energy(mol.seqm_parameters)
        mol.coordinates.requires_grad_(True)
        out = en(mol, all_terms=True)
    Hf = out[0]
    if bool(out[-1].any()):
        return {"ineligible": "SCF not converged"}
    g1 = torch.autograd.grad(Hf.sum(), mol.coordinates, create_graph=True)[0].reshape(-1)
    H = np.zeros((n3, n3))
    for i in range(n3):
        row = torch.autograd.grad(g1[i], mol.coordinates, retain_graph=True)[0]
        H[i] = row.detach().numpy().reshape(-1)
    C["hessian_rows_by_backprop"] += n3
    if not np.isfinite(H).all():
        viol.append({"clause": "hessian-non-finite", "mech": None, "detail": {"n_non_finite": int((~np.isfinite(H)).sum())}})
    hmax = float(np.abs(H).max())
    asym = float(np.abs(H - H.T).max())
    margins["hessian_symmetry"] = _fin(asym / TOL_H_SYM)
    if _bad(asym, TOL_H_SYM):
        viol.append({"clause": "hessian-symmetry", "mech": None, "detail": {"max_asym": asym, "hmax": hmax}})
    # finite difference of the RETURNED forces (public driver, same settings without the unrolling)
    sett_f = {"method": method, "scf_eps": EPS, "scf_converger": [2], "sp2": [False]}

    def force(Xc):
        o = run.single_point(Z, Xc, sett_f, charges=q, mult=m)
        if o["notconverged"] is not None and bool(np.any(o["notconverged"])):
            raise RuntimeError("nc")
        return o["force"][0].reshape(-1)

    Hfd = np.zeros((n3, n3))
    try:
        for i in range(n3):
            est = []
            for h in (2e-3, 1e-3):
                d = np.zeros(n3)
                d[i] = h
                est.append(-(force(X + d.reshape(nat, 3)) - force(X - d.reshape(nat, 3))) / (2 * h))
            Hfd[i] = (4 * est[1] - est[0]) / 3
    except RuntimeError:
        return {"ineligible": "a displaced force evaluation did not converge"}
    err = float(np.abs(H - Hfd).max())
    margins["hessian_vs_fd_of_forces"] = _fin(err / (TOL_H_REL * hmax))
    C["hessian_entries_compared"] += n3 * n3
    if _bad(err, TOL_H_REL * hmax):
        i, j = np.unravel_index(np.argmax(np.abs(H - Hfd)), H.shape)
        viol.append({"clause": "hessian-vs-fd-of-forces", "mech": None,
                     "detail": {"max_err": err, "hmax": hmax, "entry": [int(i), int(j)], "ad": float(H[i, j]), "fd": float(Hfd[i, j])}})
    # the public switch: frequencies are only printed, so they are read from the captured stdout
    freq_obs = None
    if nat >= 3:
        sett_nm = dict(sett)
        sett_nm["normal modes"] = True
        with run.quiet() as buf:
            mol2 = Molecule(Constants(), sett_nm, xyz.clone(), sp, q, m)
            Electronic_Structure(sett_nm)(mol2)
        freq_obs = [float(x) for x in re.findall(r"Mode\s+\d+:\s+([-0-9.eE+]+)", buf.getvalue())]
        mass = Constants().mass[sp[0]].reshape(-1).numpy().astype(float)
        mv = np.repeat(mass, 3)
        Hs = 0.5 * (Hfd + Hfd.T)
        lam = np.linalg.eigvalsh(Hs / np.sqrt(mv[:, None] * mv[None, :]))
        fr = np.sort(521.470898 * np.sqrt(np.clip(lam, 0, None)[6:]))
        if len(freq_obs) == len(fr):
            C["frequencies_compared"] += len(fr)
            rel = max([abs(a - b) / max(b, 1.0) for a, b in zip(freq_obs, fr) if b > 300.0] + [0.0])
            if not all(math.isfinite(x) for x in freq_obs):
                rel = float("nan")
            margins["normal_mode_frequencies"] = _fin(rel / TOL_FREQ)
            if _bad(rel, TOL_FREQ):
                viol.append({"clause": "normal-mode-frequencies", "mech": None,
                             "detail": {"printed": freq_obs, "from_fd_hessian": fr.tolist()}})
        else:
            C["frequencies_not_parsed"] += 1
    mon = {k: C[k] - mon0.get(k, 0) for k in C if C[k] - mon0.get(k, 0)}
    return {"nontrivial": True, "violations": viol, "margins": margins, "monitors": mon,
            "cells": ["hessian/%s/conv%d" % (method, conv[0])],
            "obs": {"hmax": hmax, "asym": asym, "err_vs_fd": err, "frequencies_printed": freq_obs, "worst": margins}}


# -----------------------------------------------------------------------------------------
def _run_repeat(case):
    """The SAME Molecule (and Energy) object evaluated several times: coordinates nudged in place between the calls,
    P0 = density of the previous call.  From the second call on the package relabels orbitals against the previous
    call's orbitals, re-uses stored amplitudes etc.; gradients (parameters AND coordinates) of Etot (CIS: total energy of
    the active state), gap and an orbital-energy contraction must still equal finite differences taken with FRESH
    objects at the geometry of that call.  A gradient that is None, not finite, silently zero or that cannot be
    taken (output without graph) fails."""
    import torch

    from seqm.basics import Energy
    from seqm.Molecule import Molecule
    from seqm.seqm_functions.constants import Constants
    from vlib import run

    C = _W["C"]
    mon0 = dict(C)
    method, sb, cis = case["method"], case["sb"], bool(case.get("cis"))
    g = np.random.default_rng(case["geom_seed"])
    mols = []
    for name in case["mols"]:
        Z, X, q, m = gen.molecule(name)
        X = gen.distort(X, g, sigma=0.05)
        X = X @ gen.generic_rotation(X, g).T
        mols.append((Z, X))
    if len(mols) == 1:
        S, Cx = [mols[0][0]], np.asarray(mols[0][1])[None]
    else:
        S, Cx = gen.pad_batch(mols)
        Cx = np.asarray(Cx)
    S = np.asarray(S)
    real = S > 0
    nmol = S.shape[0]
    Zflat = [int(z) for z in S.reshape(-1) if z > 0]
    names = list(case["names"])
    base = _table(method, Zflat, names)
    names = [n for n in names if float(base[n].abs().max()) > 0]
    extra = {}
    if cis:
        extra = {"excited_states": {"n_states": 3, "tolerance": 1e-9, "method": "cis"}, "active_state": 1}
    conv = [1]
    gd = np.random.default_rng(case["dir_seed"])
    wmol = torch.tensor(gd.uniform(0.5, 1.5, size=nmol))

    def evaluate(coords, theta, mol=None, en=None, P0=None, grad=False):
        """-> (scalars dict of tensors, mol, en, P, e) ; theta: dict of tensors"""
        sett = _sett(method, names, sb, conv, extra)
        sp = torch.tensor(S, dtype=torch.int64)
        with run.quiet():
            if mol is None:
                xyz = torch.tensor(np.asarray(coords, float))
                mol = Molecule(Constants(), sett, xyz, sp, 0, 1, learned_parameters=dict(theta))
                en = Energy(mol.seqm_parameters)
            mol.coordinates.requires_grad_(True)
            out = en(mol, learned_parameters=dict(theta), all_terms=True, P0=P0)
        Hf, Etot, Eelec, Enuc, Eiso, EnucAB, e_gap, e, P, charge, notconv = out
        norb = (4 * mol.nHeavy + mol.nHydro)
        sc = {"Etot": (Etot * wmol).sum(), "gap": (e_gap.reshape(-1) * wmol).sum(),
              "emo": sum((e[b, :int(norb[b])] * cvec[b][:int(norb[b])]).sum() * wmol[b] for b in range(nmol))}
        return sc, mol, en, P, e, bool(notconv.any()), norb

    nmax = 4 * S.shape[1]
    cvec = [torch.tensor(gd.normal(size=nmax)) for _ in range(nmol)]
    outs = ["Etot", "gap", "emo"]
    viol, margins, cells = [], {}, []
    ncomp = [0]

    def upd(name, ratio):
        ratio = _fin(ratio)
        if name not in margins or ratio > margins[name]:
            margins[name] = ratio

    def fresh_values(coords, theta):
        sc, _, _, _, e, nc, norb = evaluate(coords, theta)
        if nc:
            raise RuntimeError("nc")
        return {k: float(v.detach()) for k, v in sc.items()}, e.detach(), norb

    # direction vectors
    dcoord = gd.normal(size=Cx.shape)
    dcoord[~real] = 0.0
    dcoord /= np.linalg.norm(dcoord)
    vdir = {}
    for n in names:
        d = torch.tensor(gd.normal(size=tuple(base[n].shape)))
        vdir[n] = base[n].abs() * d / d.abs().max()

    theta = {n: base[n].clone().requires_grad_(True) for n in names}
    mol = en = None
    P0 = None
    coords_now = Cx.copy()
    ncalls = int(case.get("ncalls", 3))
    for call in range(1, ncalls + 1):
        if call > 1:
            nud = gd.normal(scale=0.01, size=Cx.shape)
            nud[~real] = 0.0
            coords_now = coords_now + nud
            with torch.no_grad():
                mol.coordinates.add_(torch.tensor(nud))
        try:
            sc, mol, en, P, e, nc, norb = evaluate(coords_now, theta, mol=mol, en=en, P0=P0)
        except Exception as exc:
            viol.append({"clause": "repeat-call-raised", "mech": None,
                         "detail": {"call": call, "exception": ("%s: %s" % (type(exc).__name__, exc))[:400]}})
            break
        P0 = P.detach().clone()
        C["repeat_calls"] += 1
        if nc:
            return {"ineligible": "SCF not converged on call %d" % call}
        if call == 1:
            continue  # the first call is what every other case already exercises
        # ---- FD with fresh objects at this geometry ----
        try:
            ref, e_ref, _ = fresh_values(coords_now, {n: base[n].clone() for n in names})
        except RuntimeError:
            return {"ineligible": "fresh reference not converged"}
        # same orbital labelling as a fresh evaluation?  (no crossing between the nudged geometries)
        same_order = all(bool(torch.allclose(e.detach()[b, :int(norb[b])], e_ref[b, :int(norb[b])], atol=1e-6, rtol=0))
                         for b in range(nmol))
        spacing = min(float(np.min(np.diff(np.sort(e_ref[b, :int(norb[b])].numpy())))) for b in range(nmol))
        emo_ok = same_order and spacing >= MIN_SPACING
        fwd = max(abs(float(sc[k].detach()) - ref[k]) for k in (outs if emo_ok else ["Etot"]))
        upd("repeat_forward_vs_fresh", fwd / 1e-6)
        if _bad(fwd, 1e-6):
            viol.append({"clause": "repeat-forward-differs-from-fresh", "mech": None,
                         "detail": {"call": call, "max_diff": fwd, "values": {k: float(sc[k].detach()) for k in outs}, "fresh": ref}})
        fd = {}

        def fdq(make):
            ests = []
            for h in make[1]:
                a, _, _ = fresh_values(*make[0](+h))
                b, _, _ = fresh_values(*make[0](-h))
                C["fd_energy_evaluations"] += 2
                ests.append({k: (a[k] - b[k]) / (2 * h) for k in a})
            res = {}
            for k in ests[0]:
                r1 = (4 * ests[1][k] - ests[0][k]) / 3
                r2 = (4 * ests[2][k] - ests[1][k]) / 3
                res[k] = (r2, abs(r2 - r1) <= 0.2 * TOL_G * max(1.0, abs(r2)))
            return res

        try:
            fd["coords"] = fdq((lambda h: (coords_now + h * dcoord, {n: base[n].clone() for n in names}), (2e-3, 1e-3, 5e-4)))
            for n in names:
                def mk(h, n=n):
                    t = {k: base[k].clone() for k in names}
                    t[n] = base[n] + h * vdir[n]
                    return coords_now, t
                fd["par_" + n] = fdq((mk, FD_STEPS))
        except RuntimeError:
            return {"ineligible": "a displaced evaluation did not converge"}
        # ---- AD on the repeated object ----
        inputs = {"coords": (mol.coordinates, torch.tensor(dcoord))}
        for n in names:
            inputs["par_" + n] = (theta[n], vdir[n])
        for k in outs:
            if k in ("gap", "emo") and not emo_ok:
                C["skipped_degenerate_orbital_outputs"] += 1
                continue
            cl = "energy" if k == "Etot" else "density"
            try:
                gr = torch.autograd.grad(sc[k], [inputs[i][0] for i in inputs], retain_graph=True, allow_unused=True)
            except Exception as exc:
                viol.append({"clause": "repeat-backward-raised/%s" % cl, "mech": None,
                             "detail": {"call": call, "output": k, "output_requires_grad": bool(sc[k].requires_grad),
                                        "exception": ("%s: %s" % (type(exc).__name__, exc))[:300], "sb": sb, "mols": case["mols"]}})
                continue
            for (iname, (_, v)), gi in zip(inputs.items(), gr):
                r, smooth = fd[iname][k]
                if not smooth:
                    C["fd_not_smooth_skipped"] += 1
                    continue
                bound = _tol(k, sb, r) + (CIS_ALLOW if cis and k == "Etot" else 0.0)
                C["grad_compared"] += 1
                C["repeat_grad_compared"] += 1
                ncomp[0] += int(abs(r) > 1e-6)
                if k != "Etot":
                    C["grad_compared_density_outputs"] += 1
                if gi is None:
                    if _bad(abs(r), bound):
                        viol.append({"clause": "repeat-grad-none/%s" % cl, "mech": None,
                                     "detail": {"call": call, "output": k, "input": iname, "fd": r, "sb": sb, "mols": case["mols"]}})
                    continue
                ad = float((gi.detach() * v).sum())
                ratio = _fin(abs(ad - r) / bound)
                upd("repeat_%s_%s_sb%d" % (k, "coords" if iname == "coords" else "param", sb), ratio)
                if _bad(ratio):
                    viol.append({"clause": "repeat-grad-mismatch/%s" % cl, "mech": None,
                                 "detail": {"call": call, "output": k, "input": iname, "ad": ad, "fd": r, "ratio_to_bound": ratio,
                                            "silently_zero": bool(ad == 0.0), "sb": sb, "mols": case["mols"], "method": method,
                                            "cis": cis}})
        cells.append("repeat/%s/sb%d/%s/call%d" % (method, sb, "cis" if cis else ("hetero" if len({tuple(r) for r in S.tolist()}) > 1 else
                                                                                   "uniform%d" % nmol), call))
    mon = {k: C[k] - mon0.get(k, 0) for k in C if C[k] - mon0.get(k, 0)}
    # keep at most 2 witnesses per clause
    seen, keep = {}, []
    for v in viol:
        seen[v["clause"]] = seen.get(v["clause"], 0) + 1
        if seen[v["clause"]] <= 2:
            keep.append(v)
    return {"nontrivial": ncomp[0] > 0, "violations": keep, "margins": margins, "monitors": mon, "cells": cells,
            "obs": {"mols": case["mols"], "names": names, "compared": mon.get("repeat_grad_compared", 0), "worst": margins,
                    "n_violations_total": len(viol)}}


# -----------------------------------------------------------------------------------------
def _run_train(case):
    """Training-loop sequence: ONE set of persistent leaf tensors for all learned names; evaluate -> in-place update
    (torch.optim.SGD step) -> evaluate again (3 rounds).  After every in-place update the outputs and the gradients of
    the evaluation with the persistent leaves must equal (a) an evaluation with brand-new tensors holding the same
    values and (b) finite differences."""
    import torch

    C = _W["C"]
    mon0 = dict(C)
    Z, X, q, m = _geom(case)
    method, sb = case["method"], case["sb"]
    nat = len(Z)
    names = [n for n in _NAMES[method] if n != "EISOL"]
    base = _table(method, Z, names)
    names = [n for n in names if float(base[n].abs().max()) > 0]
    g = np.random.default_rng(case["dir_seed"])
    conv = [1]
    sett = lambda: _sett(method, names, sb, conv)
    theta = {n: base[n].clone().requires_grad_(True) for n in names}       # persistent leaves
    opt = None
    viol, margins = [], {}
    norb_c = None
    ncomp = [0]

    def upd(name, ratio):
        ratio = _fin(ratio)
        if name not in margins or ratio > margins[name]:
            margins[name] = ratio

    def scal(out):
        return {"Etot": out["Etot"], "Hf": out["Hf"], "gap": out["gap"], "emo": (out["e"] * cvec["emo"]).sum(),
                "q": (out["q"] * cvec["q"]).sum()}

    cvec = None
    outs = ["Etot", "Hf"] + (["gap", "emo", "q"] if sb >= 1 else [])
    vals_only = ["Etot", "Hf", "gap", "emo", "q"]
    fd_names = [n for n in ("g_sp", "h_sp", "g_pp", "U_ss") if n in names]
    for rnd in range(1, 4):
        try:
            outp = _energy(Z, X, q, m, sett(), dict(theta))
        except Exception as exc:
            viol.append({"clause": "train-evaluation-raised", "mech": None,
                         "detail": {"round": rnd, "exception": ("%s: %s" % (type(exc).__name__, exc))[:300]}})
            break
        if outp["notconverged"]:
            return {"ineligible": "SCF not converged in round %d" % rnd}
        if cvec is None:
            cvec = {"emo": torch.tensor(g.normal(size=outp["norb"])), "q": torch.tensor(g.normal(size=nat))}
        scp = scal(outp)
        vdir = {n: theta[n].detach().abs().clamp_min(0.0) * torch.tensor(g.normal(size=tuple(base[n].shape))) for n in names}
        gp = {}
        for k in outs:
            gr = torch.autograd.grad(scp[k], [theta[n] for n in names], retain_graph=True, allow_unused=True)
            gp[k] = {n: (None if gi is None else float((gi.detach() * vdir[n]).sum())) for n, gi in zip(names, gr)}
        ghf = torch.autograd.grad(scp["Hf"], [theta[n] for n in names], allow_unused=True)
        if rnd > 1:
            C["evaluations_after_inplace_update_of_persistent_leaves"] += 1
            # (a) brand-new tensors with the same values
            fresh = {n: theta[n].detach().clone().requires_grad_(True) for n in names}
            outf = _energy(Z, X, q, m, sett(), dict(fresh))
            if outf["notconverged"]:
                return {"ineligible": "fresh-tensor evaluation not converged"}
            scf_ = scal(outf)
            emo_ok = float(np.min(np.diff(np.sort(outf["e"].detach().numpy())))) >= MIN_SPACING
            for k in vals_only:
                d = abs(float(scp[k].detach()) - float(scf_[k].detach()))
                tol = 1e-7 if k in ("Etot", "Hf") else 1e-6
                upd("train_value_%s_vs_fresh_tensors" % k, d / tol)
                C["train_values_compared"] += 1
                if _bad(d, tol):
                    viol.append({"clause": "train-value-differs-from-fresh-tensors/%s" % ("energy" if k in ("Etot", "Hf") else "density"),
                                 "mech": None, "detail": {"round": rnd, "output": k, "persistent_leaves": float(scp[k].detach()),
                                                          "fresh_tensors": float(scf_[k].detach()), "sb": sb, "method": method,
                                                          "mol": case["mol"]}})
            for k in outs:
                if k in ("gap", "emo") and not emo_ok:
                    continue
                gr = torch.autograd.grad(scf_[k], [fresh[n] for n in names], retain_graph=True, allow_unused=True)
                for n, gi in zip(names, gr):
                    a = gp[k][n]
                    b = None if gi is None else float((gi.detach() * vdir[n]).sum())
                    if a is None and b is None:
                        continue
                    C["train_grad_compared"] += 1
                    C["grad_compared"] += 1
                    ncomp[0] += 1
                    if k in DENSITY_OUTPUTS:
                        C["grad_compared_density_outputs"] += 1
                    ratio = 1e30 if (a is None or b is None) else _fin(abs(a - b) / _tol(k, sb, b))
                    upd("train_grad_%s_vs_fresh_tensors_sb%d" % (k, sb), ratio)
                    if _bad(ratio):
                        viol.append({"clause": "train-grad-differs-from-fresh-tensors/%s" % ("energy" if k in ("Etot", "Hf") else "density"),
                                     "mech": None, "detail": {"round": rnd, "output": k, "name": n, "persistent_leaves": a,
                                                              "fresh_tensors": b, "ratio_to_bound": ratio, "sb": sb,
                                                              "method": method, "mol": case["mol"]}})
            # (b) finite differences (plain tensors) for a few names
            cur = {n: theta[n].detach().clone() for n in names}
            for n in fd_names:
                ests = []
                ok = True
                for h in FD_STEPS:
                    vv = []
                    for sgn in (1, -1):
                        t = {k2: cur[k2].clone() for k2 in names}
                        t[n] = cur[n] + sgn * h * vdir[n]
                        o = _energy(Z, X, q, m, _sett(method, names, 0, conv), t)
                        C["fd_energy_evaluations"] += 1
                        if o["notconverged"]:
                            ok = False
                            break
                        vv.append({k2: float(v.detach()) for k2, v in scal(o).items()})
                    if not ok:
                        break
                    ests.append({k2: (vv[0][k2] - vv[1][k2]) / (2 * h) for k2 in vv[0]})
                if not ok:
                    continue
                for k in outs:
                    if k in ("gap", "emo") and not emo_ok:
                        continue
                    r1 = (4 * ests[1][k] - ests[0][k]) / 3
                    r2 = (4 * ests[2][k] - ests[1][k]) / 3
                    if not (abs(r2 - r1) <= 0.2 * TOL_G * max(1.0, abs(r2))):
                        C["fd_not_smooth_skipped"] += 1
                        continue
                    a = gp[k][n]
                    C["grad_compared"] += 1
                    C["train_grad_vs_fd_compared"] += 1
                    ratio = 1e30 if a is None else _fin(abs(a - r2) / _tol(k, sb, r2))
                    if a is None and not _bad(abs(r2), _tol(k, sb, r2)):
                        continue
                    upd("train_grad_%s_vs_fd_sb%d" % (k, sb), ratio)
                    if _bad(ratio):
                        viol.append({"clause": "train-grad-vs-fd/%s" % ("energy" if k in ("Etot", "Hf") else "density"),
                                     "mech": None, "detail": {"round": rnd, "output": k, "name": n, "ad": a, "fd": r2,
                                                              "ratio_to_bound": ratio, "sb": sb, "method": method, "mol": case["mol"]}})
        # ---- in-place update of the persistent leaves (plain SGD step on Hf) ----
        if rnd < 3:
            if opt is None:
                worst = max(float((gi.detach().abs() / theta[n].detach().abs().clamp_min(0.1)).max())
                            for n, gi in zip(names, ghf) if gi is not None)
                opt = torch.optim.SGD([theta[n] for n in names], lr=5e-3 / max(worst, 1e-12))
            opt.zero_grad()
            for n, gi in zip(names, ghf):
                theta[n].grad = None if gi is None else gi.detach().clone()
            opt.step()
            C["inplace_optimizer_steps"] += 1
    mon = {k: C[k] - mon0.get(k, 0) for k in C if C[k] - mon0.get(k, 0)}
    seen, keep = {}, []
    for v in viol:
        seen[v["clause"]] = seen.get(v["clause"], 0) + 1
        if seen[v["clause"]] <= 2:
            keep.append(v)
    return {"nontrivial": ncomp[0] > 0, "violations": keep, "margins": margins, "monitors": mon,
            "cells": ["train/%s/sb%d" % (method, sb)],
            "obs": {"names": names, "worst": margins, "n_violations_total": len(viol),
                    "max_relative_parameter_change_per_step": 5e-3}}


def run_case(case):
    setup_worker()
    if _W["missing"]:
        return {"inconclusive": "required internal symbol(s) missing: %s" % ", ".join(_W["missing"])}
    kind = case.get("kind")
    _W["hook_budget"] = 6
    _W["hook_margin"] = {}
    del _W["hookviol"][:]
    if kind == "param":
        res = _run_param(case)
    elif kind == "force":
        res = _run_force(case)
    elif kind == "hessian":
        res = _run_hessian(case)
    elif kind == "repeat":
        res = _run_repeat(case)
    elif kind == "train":
        res = _run_train(case)
    else:
        return {"harness_error": "unknown case kind %r" % kind}
    # invariant-at-hook results gathered by the additive-term wrappers while this case ran
    seen = set()
    for v in _W["hookviol"]:
        if v["clause"] not in seen:
            seen.add(v["clause"])
            res.setdefault("violations", []).append(v)
    for k, v in _W["hook_margin"].items():
        res.setdefault("margins", {})[k] = max(v, res.get("margins", {}).get(k, 0.0))
    if _W.get("hook_error"):
        res.setdefault("obs", {})["hook_oracle_error"] = _W.pop("hook_error")
    return res
