"""C17 - surface hopping: norm, energy, per-trajectory isolation.

Runtime monitoring of the real methods of seqm/NonadiabaticDynamics.py on lightweight instances (subclass that
skips __init__, exactly the pattern of tests/test_nonadiabatic.py) and of scripts/tully_surface_hopping/TullyModels.py
in live batched dynamics.  Five case kinds, one per clause of DESIGN section 6 "C17":

 prop     (a) _propagate_electronic vs reference model R3 (vlib/ref/tdse.py: Magnus-4 / scipy expm on a 64x finer
              grid with the same piecewise-linear E(t), D(t)); norm and amplitude error against a derived RK4 bound,
              and the order of both on a sub-step doubling ladder.  Each case also feeds (b)'s range clauses.
 hopfreq  (b) _attempt_hop on a _hop_integral produced by the real _propagate_electronic only; g read from the
              returning frame (sys.monitoring PY_RETURN, f_locals['g_rows']); range clauses + exact binomial test of
              the empirical hop frequencies.
 rescale  (c) _rescale_velocity_along_nac against the closed-form quadratic (R3.rescale_roots), incl. the tie v.d = 0.
 after    (d) _detect_crossings -> _propagate_electronic -> _after_electronic_update with the REAL _attempt_hop and
              the REAL rescaling: frustrated / accepted hops, trivial-crossing relabelling (whatever relabelling is
              applied must be a bitwise permutation of the amplitude rows, the active index must follow the same
              permutation, and every label that moved must have gone to the state it corresponds to; whether a planned
              relabelling is applied at all is counted, not judged), row isolation vs a control run with a quiet row 0.
 afterseq (d) the same three real methods for 3-6 consecutive steps on ONE object (its caches and reusable buffers
              persist, the cache dicts are shifted as _do_integrator_step does): 2-3 crossing events at different steps
              on different rows / pairs with quiet steps in between; every step is judged with the oracles of 'after',
              and for each event a control sequence without it must leave every other row bitwise identical at
              every step.
 hold1    (d) single step with trajectories still in post-hop holdoff (post_hop_holdoff > 0, prev_state set; with a
              strong overlap of their active state they form the PROBE group of _detect_crossings) at a lower / higher
              batch index than a trajectory with a genuine pairwise crossing; relabel oracle, bitwise control without
              the crossing, and every trajectory processed alone (same inputs, same uniform draw supplied by the
              harness: integer state and hop log exact, floats to 1e-12).  'afterseq' has the same configuration
              arising naturally (step 0 relabels the active state of row h, step 1 has h in holdoff overlapping again
              while row c crosses) and also compares every trajectory alone through the whole sequence.
 init     initial amplitudes through the regular path (real _ensure_active_states / _normalize_initial_state /
              _init_coeffs) with int, all-equal-tensor and per-row MIXED initial states: at step 0 every row has
              population exactly 1 on its own state and 0 elsewhere and the matching active index; after one real
              propagation step norm / amplitudes vs R3, g range, and every row equal to the same trajectory initialised
              and propagated alone.  The Tully runs use mixed initial states in every second case.
 tully    (e) TullyFSSH, batched, three model potentials: exact conservation across every _after_electronic_update,
              applied force = -dE_active/dx (finite difference of the model's own energy), total-energy drift against
              the velocity-Verlet shadow-Hamiltonian bound, norm.
 selftest     closed-form self-test of R3 (a failure is a harness error, never a verdict).
"""
import math

import numpy as np

from vlib import gen

PROPERTY = "C17"
RULE = ("case kinds prop/hopfreq/rescale/after/tully (see module docstring); every case is a seeded random instance: "
        "n_states 2-8, batch 1-6, antisymmetric couplings 1e-3..3 1/fs with spikes 10-100 1/fs at old/new/both ends, "
        "gaps 1e-4..5 eV, dt 0.05-0.5 fs, fixed and adaptive sub-steps, masses H..Cl, hop energies of both signs "
        "1e-4..5 eV, the tie v.d = 0, decoherence on/off, relabellings incl. 3-cycles; non-trivial when the real "
        "method under observation was executed and at least one clause was evaluated on its output; distinct by SHA-1")
ASSUMPTIONS = [
    "float64 CPU",
    "hbar and the kinetic-energy unit constant are the program's own values (checked to agree with CODATA to 1e-6 "
    "relative; they define the program's energy accounting)",
    "lightweight instances: SurfaceHoppingDynamics subclass that skips __init__ (the repository's own test pattern); "
    "_compute_NACR_for_hop and _recompute_active_force are stubbed with row-local tables in kind 'after' (they need a "
    "full electronic-structure state); every method named in the property is the real one",
    "statistical clause (b): exact two-sided binomial tail, alarm below 1e-12 per test (7.1 sigma; per-run false-alarm "
    "probability < 1e-8 for up to 1e4 tests), i.e. no alarm inside 6 sigma",
    "order clause: the norm error alone changes sign along the ladder (h^4 and h^5 terms of either sign; ratios down to "
    "3.6 far above round-off were seen on the unchanged tree), so 'shrinks >= 8x per doubling' is asserted pointwise on "
    "the amplitude error (a vector norm) and as an 8^-k envelope anchored at max(norm error, 2 x amplitude error) of the "
    "base level for the norm error",
    "tully energy drift is bounded by the velocity-Verlet shadow Hamiltonian, not by a fixed 1e-5: "
    "10 (1 + accepted hops) dt^2 max_t ( |v^2 V''|/12 + F^2/(12 m K) )  (V'' and F from finite differences of the "
    "model's own energy)",
]
REQUIRED_MONITORS = ["init_rows_with_state_differing_from_row0", "propagate_returns_seen", "r3_comparisons", "ladder_levels", "g_frames_read", "hop_draws",
                     "rescale_accepted", "rescale_rejected", "rescale_tie_trials", "after_hops_accepted",
                     "after_hops_frustrated", "after_trivial_relabels", "after_isolation_rows_compared",
                     "afterseq_sequences_with_two_applied_events", "afterseq_isolation_rows_compared",
                     "hold1_holdoff_row_below_crossing_row", "hold1_holdoff_row_above_crossing_row", "hold1_crossing_applied",
                     "afterseq_holdoff_row_below_relabelled_row", "afterseq_holdoff_row_above_relabelled_row",
                     "solo_rows_compared",
                     "tully_steps", "tully_hops_accepted"]
CASE_TIMEOUT = 600.0
BUDGET_S = {"quick": 220, "thorough": 1700}
MIN_NONTRIVIAL = 10

# ---- tolerances (derivations in the final report / DESIGN section 4) ---------------------------------------------
EPS = 2.220446049250313e-16
BIG = 1e300              # margin recorded for a non-finite observation
C_AMP = 1.0 / 20.0       # RK4 principal local error ~ (h Lambda)^5/120 per sub-step; x6 allowance
FLOOR_A = 2e-12          # round-off floor of |u - u_R3| (product of <= 5120 unitary factors + phase wrap)
FLOOR_N = 1e-13          # round-off floor of |sum|c|^2 - 1|
PHI_MAX_ABS = 0.5        # absolute RK4 bound asserted for per-sub-step phase advance below this
PHI_LADDER = 0.4         # ladder base is refined until the phase advance is below this
NORM_ABS = 1e-3          # |norm-1| <= 1e-3 whenever the per-sub-step phase advance <= PHI_NORM_ABS
PHI_NORM_ABS = 0.2       # (DESIGN said 0.3: RK4 loses nsub phi^6/72 = 8e-4 there for nsub = 80, only 1.2x inside)
ALPHA_STAT = 1e-12       # per-test alarm level of the binomial test
Z_ALARM = 7.1307         # its two-sided sigma equivalent
REL_E = 1e-10            # energy conservation of the rescaling, relative
MECH_TIE = "rescale-tie-vdotd-zero"
MECH_CYCLE = "trivial-crossing-cycle-not-permutation"
MECH_TULLY_GRAD = "tully-model-gradient-not-derivative"
MECH_TULLY_ROW0 = "tully-batch-force-from-row0-state"

MASSES = [1.008, 12.011, 14.007, 15.999, 18.998, 32.06, 35.45]


# =======================================================================================================
# case generation (parent process: numpy only)
# =======================================================================================================
def gen_cases(tier, seed):
    g = gen.rng("C17", tier)
    q = tier == "quick"
    cases = []

    def s():
        return int(g.integers(0, 2 ** 31))

    # (e) first: the expensive ones
    n_t = 2 if q else 40
    for k in range(n_t):
        for model in ("single_crossing", "double_crossing", "extended_coupling"):
            cases.append({"kind": "tully", "model": model, "B": int(g.integers(4, 9)),
                          "dt": float(g.choice([0.01, 0.02, 0.05])), "seed": s(),
                          "mass": float(g.choice([1.097, 1.097, 2.0])), "vmax": float(g.choice([0.25, 0.4])),
                          "mixed_init": bool(k % 2 == 1)})
    # initial amplitudes through the regular path (_ensure_active_states / _init_coeffs), per-row initial states
    n_i = 40 if q else 600
    for k in range(n_i):
        cases.append({"kind": "init", "ns": int(g.integers(2, 9)), "B": int(g.integers(2, 7)),
                      "form": ["tensor-mixed", "tensor-mixed", "tensor-mixed", "int", "tensor-equal"][k % 5],
                      "dt": float(g.uniform(0.05, 0.4)), "sub": [None, 8, 16][k % 3], "seed": s()})
    # (b) hop statistics
    n_h = 8 if q else 80
    for k in range(n_h):
        cases.append({"kind": "hopfreq", "ns": int(2 + k % 7), "configs": 8, "reps": 500 if q else 1000,
                      "calls": 60 if q else 100, "dt": float(g.uniform(0.05, 0.5)),
                      "sub": [None, 8, 16][k % 3], "seed": s()})
    # (a) propagation
    n_p = 160 if q else 4000
    spikes = ["none", "none", "new", "old", "both", "none", "jump"]
    for k in range(n_p):
        mode = ["adaptive", "fixed"][k % 2]
        cases.append({"kind": "prop", "ns": int(2 + (k // 2) % 7), "B": int(1 + (k // 14) % 6),
                      "dt": float(g.uniform(0.05, 0.5)), "gap": float(10 ** g.uniform(-4, math.log10(5.0))),
                      "dscale": float(10 ** g.uniform(-3, 0.5)), "spike": spikes[int(g.integers(0, len(spikes)))],
                      "mode": mode, "sub": int(g.choice([4, 8, 12, 16, 32, 50])) if mode == "fixed" else None,
                      "first_step": bool(g.random() < 0.1), "pure": bool(g.random() < 0.25),
                      "ladder": bool(k % 2 == 0 or not q), "seed": s()})
    # (c) rescaling
    n_r = 12 if q else 150
    for k in range(n_r):
        cases.append({"kind": "rescale", "trials": 400, "seed": s()})
    # (d) after-update pipeline
    n_a = 140 if q else 3000
    scen = ["accepted", "frustrated", "swap", "swap2", "double-swap", "cycle3", "at-rest", "accepted", "swap-active",
            "quiet"]
    regimes = ["adaptive-nospike", "fixed", "fixed-spike", "adaptive-spike"]
    for k in range(n_a):
        sc = scen[k % len(scen)]
        ns = int(g.integers(2, 9))
        if sc in ("swap2", "cycle3") and ns < 3:
            ns = 3
        if sc == "double-swap" and ns < 4:
            ns = 4
        cases.append({"kind": "after", "scenario": sc, "regime": regimes[(k // len(scen)) % len(regimes)],
                      "ns": ns, "B": int(g.integers(2, 7)), "molsize": int(g.integers(1, 6)),
                      "dt": float(g.uniform(0.05, 0.5)), "decohere": bool(g.random() < 0.4), "seed": s()})
    # (d) single step with trajectories in post-hop holdoff below / above a crossing trajectory
    n_h1 = 48 if q else 1000
    for k in range(n_h1):
        cases.append({"kind": "hold1", "ns": int(g.integers(3, 9)), "B": int(g.integers(2, 7)), "molsize": int(g.integers(1, 5)),
                      "dt": float(g.uniform(0.05, 0.4)), "hold_pos": ["below", "above", "both", "below"][k % 4],
                      "hold_strong": bool((k // 4) % 3 != 2), "regime": ["fixed", "adaptive-nospike"][(k // 2) % 2],
                      "decohere": bool(g.random() < 0.3), "seed": s()})
    # (d) multi-step sequences on ONE dynamics object (persistent caches / buffers between crossing events)
    n_s = 60 if q else 1200
    for k in range(n_s):
        ns = int(g.integers(3, 9))
        nsteps = int(g.integers(3, 7))
        nev = 2 if nsteps < 5 or g.random() < 0.5 else 3
        cases.append({"kind": "afterseq", "ns": ns, "B": int(g.integers(2, 7)), "molsize": int(g.integers(1, 5)),
                      "dt": float(g.uniform(0.05, 0.4)), "nsteps": nsteps, "nevents": nev,
                      "pattern": ["plain", "holdoff-below", "plain", "holdoff-above"][k % 4],
                      "regime": ["fixed", "adaptive-nospike"][(k // 4) % 2], "decohere": bool(g.random() < 0.3), "seed": s()})
    cases.append({"kind": "selftest"})
    return cases


# =======================================================================================================
# worker side helpers
# =======================================================================================================
_MON = {"ready": False, "g": [], "nsub": [], "error": None}


def _install_monitors():
    """sys.monitoring PY_RETURN readers on the code objects of _attempt_hop (frame local g_rows) and
    _propagate_electronic (frame local nsub).  No source edit, no wrapper in the call path."""
    import sys

    if _MON["ready"]:
        return
    from seqm.NonadiabaticDynamics import NonadiabaticDynamicsBase, SurfaceHoppingDynamics

    mon = sys.monitoring
    tid = None
    for t in (4, 3, 2, 1, 5):
        if mon.get_tool(t) is None:
            tid = t
            break
    if tid is None:
        _MON["error"] = "no free sys.monitoring tool id"
        return
    mon.use_tool_id(tid, "verif-c17")
    code_hop = SurfaceHoppingDynamics._attempt_hop.__code__
    code_prop = NonadiabaticDynamicsBase._propagate_electronic.__code__
    _MON["codes"] = (code_hop, code_prop)

    def on_return(code, offset, retval):
        fr = sys._getframe(1)
        if fr.f_code is not code:
            return
        loc = fr.f_locals
        if code is code_hop:
            gr = loc.get("g_rows")
            _MON["g"].append((None if gr is None else gr.detach().clone(),
                              retval.detach().clone() if hasattr(retval, "detach") else retval,
                              "g_rows" in loc or loc.get("_hop_integral", 1) is None))
        elif code is code_prop:
            _MON["nsub"].append(loc.get("nsub"))

    mon.register_callback(tid, mon.events.PY_RETURN, on_return)
    mon.set_local_events(tid, code_hop, mon.events.PY_RETURN)
    mon.set_local_events(tid, code_prop, mon.events.PY_RETURN)
    _MON["ready"] = True


def setup_worker():
    _install_monitors()


def _consts():
    from seqm.MolecularDynamics import CONSTANTS
    from seqm.NonadiabaticDynamics import HBAR_EV_FS

    return float(HBAR_EV_FS), float(CONSTANTS.KINETIC_ENERGY_SCALE), float(CONSTANTS.ACC_SCALE)


_LITE = {}


def _mk(nmol, ns, dt, sub=None, decohere=False):
    import torch
    from seqm.NonadiabaticDynamics import SurfaceHoppingDynamics

    if "cls" not in _LITE:
        class LiteFSSH(SurfaceHoppingDynamics):
            def __init__(self):  # skip the heavy parent init (pattern of tests/test_nonadiabatic.py)
                pass

        _LITE["cls"] = LiteFSSH
    d = _LITE["cls"]()
    d.timestep = float(dt)
    d.damp = None
    d.step_offset = 0
    d._electronic_substeps = sub
    d._nstates = ns
    d._amp_phase = torch.zeros((nmol, ns, 3), dtype=torch.float64)
    d._current_potential = None
    d._hop_integral = None
    d._detect_crossings_flag = True
    d._eye_cache = {}
    d._arange_cache = {}
    d._perm_cost_buffers = {}
    d._trivial_zero_buffers = {}
    d._trivial_swap_buffers = {}
    d._active_states = torch.zeros((nmol,), dtype=torch.long)
    d.post_hop_holdoff = torch.zeros((nmol,), dtype=torch.long)
    d.prev_state = torch.full((nmol,), -1, dtype=torch.long)
    d._decohere_on_hop = bool(decohere)
    d._trivial_crossing_mask = None
    d.hop_log = []
    return d


def _antisym(g, ns, scale):
    M = g.normal(0.0, 1.0, (ns, ns)) * scale
    return M - M.T


def _energies(g, ns, gap):
    """state energies with one adjacent pair exactly `gap` apart and a total spread <= 6 eV"""
    spread = gap if ns == 2 else min(gap * (ns - 1), 6.0)
    spread = max(spread, gap if gap <= 6.0 else 6.0)
    pos = np.sort(g.uniform(0.0, 1.0, ns)) * spread
    pos[1] = pos[0] + min(gap, spread)
    pos = np.sort(pos)
    return g.uniform(0.0, 4.0) + pos


def _rand_amp(g, ns, pure_on=None):
    if pure_on is not None:
        u = np.zeros(ns, complex)
        u[pure_on] = 1.0
    else:
        u = g.normal(size=ns) + 1j * g.normal(size=ns)
        u /= np.linalg.norm(u)
    th = g.uniform(-math.pi, math.pi, ns)
    return u, th


def _set_amp(dyn, u, th):
    """u[B,ns] complex, th[B,ns]: store (x, y, theta) with (x+iy) e^{i theta} = u"""
    import torch

    a = u * np.exp(-1j * th)
    dyn._amp_phase[..., 0] = torch.tensor(a.real)
    dyn._amp_phase[..., 1] = torch.tensor(a.imag)
    dyn._amp_phase[..., 2] = torch.tensor(th)


def _T(a):
    import torch

    return torch.tensor(np.asarray(a), dtype=torch.float64)


def _phis(E0, E1, D0, D1, dt, nsub, hbar):
    """dimensionless per-sub-step sizes of one row (h = dt/nsub):
    b0 = h max|D|_2, psi = h^2 |dD/dt|_2, g = h spread(E)/hbar, gam = h^2 |d spread/dt|/hbar"""
    h = dt / nsub
    b0 = h * max(np.linalg.norm(D0, 2), np.linalg.norm(D1, 2))
    psi = h * np.linalg.norm(D1 - D0, 2) / nsub
    g = h * max(np.ptp(E0), np.ptp(E1)) / hbar
    gam = h * np.ptp(E1 - E0) / hbar / nsub
    return b0, psi, g, gam


def _amp_bound(nsub, ph):
    """global RK4 error bound for the interaction-picture equation da/dt = B(t) a, B = -e^{-i theta} D e^{i theta}.
    With b_k >= h^{k+1} |d^k B/dt^k| (D linear in t, theta quadratic in t):
        b1 = psi + g b0,  b2 = 2 g psi + (g^2 + gam) b0,  b3 = 3 g^2 psi + g^3 b0 + 3 gam (psi + g b0),
        b4 = 4 g^3 psi + g^4 b0 + 6 gam g (psi + g b0) + 3 gam^2 b0,
    the order-5 elementary differentials of a linear non-autonomous system are the products
        b0^5, b0^3 b1, b0 b1^2, b0^2 b2, b1 b2, b0 b3, b4
    (the stage phases of the code, frozen at the start / middle of the sub-step, add terms gam b0^2 (b0 + g) of
    the same weight, which b0^2 b2 and b0 b3 dominate).  Local error <= C_AMP x their sum, global = nsub x local."""
    b0, psi, g, gam = ph
    b1 = psi + g * b0
    b2 = 2 * g * psi + (g * g + gam) * b0
    b3 = 3 * g * g * psi + g ** 3 * b0 + 3 * gam * (psi + g * b0)
    b4 = 4 * g ** 3 * psi + g ** 4 * b0 + 6 * gam * g * (psi + g * b0) + 3 * gam * gam * b0
    local = b0 ** 5 + b0 ** 3 * b1 + b0 * b1 ** 2 + b0 ** 2 * b2 + b1 * b2 + b0 * b3 + b4
    return C_AMP * nsub * local


def _phase(ph):
    """per-sub-step phase advance: coupling part + energy part"""
    return ph[0] + ph[2]


class _Acc:
    """collects violations / margins / monitors / cells of one case"""

    def __init__(self):
        self.viol, self.margins, self.mon, self.cells, self.obs = [], {}, {}, set(), {}

    def count(self, name, n=1):
        self.mon[name] = self.mon.get(name, 0) + int(n)

    def margin(self, name, value, bound):
        """observed/bound; a non-finite observation (NaN compares False with everything) is a violation of its clause"""
        v, b = float(value), float(bound)
        if not math.isfinite(v) or not math.isfinite(b):
            r = BIG
        elif b > 0:
            r = min(v / b, BIG)
        else:
            r = 0.0 if v == 0 else BIG
        if name not in self.margins or r > self.margins[name]:
            self.margins[name] = r
        return not (r <= 1.0)

    def violate(self, clause, mech, **detail):
        if len(self.viol) < 12:
            self.viol.append({"clause": clause, "mech": mech, "detail": detail})
        self.count("violations_raised")

    def result(self, nontrivial=True, **extra):
        out = {"nontrivial": bool(nontrivial), "violations": self.viol, "margins": self.margins, "monitors": self.mon,
               "cells": sorted(self.cells), "obs": self.obs}
        out.update(extra)
        return out


# =======================================================================================================
# (a) propagation
# =======================================================================================================
def _prop_inputs(case):
    g = np.random.default_rng(case["seed"])
    ns, B = case["ns"], case["B"]
    E0 = np.zeros((B, ns))
    E1 = np.zeros((B, ns))
    D0 = np.zeros((B, ns, ns))
    D1 = np.zeros((B, ns, ns))
    u0 = np.zeros((B, ns), complex)
    th0 = np.zeros((B, ns))
    act = g.integers(0, ns, B)
    for b in range(B):
        gap = case["gap"] if b == 0 else float(10 ** g.uniform(-4, math.log10(5.0)))
        E0[b] = _energies(g, ns, gap)
        E1[b] = E0[b] + g.normal(0.0, 0.1 * min(gap, 1.0), ns) + g.normal(0.0, 0.03)
        if g.random() < 0.2:  # the closest pair crosses inside the step
            E1[b, [0, 1]] = E1[b, [1, 0]]
        sc = case["dscale"] * (1.0 if b == 0 else float(10 ** g.uniform(-1, 0)))
        D0[b] = _antisym(g, ns, sc)
        D1[b] = D0[b] + _antisym(g, ns, 0.3 * sc) if g.random() < 0.5 else _antisym(g, ns, sc)
        u0[b], th0[b] = _rand_amp(g, ns, pure_on=int(act[b]) if case.get("pure") else None)
    sp = case["spike"]
    if sp != "none":
        b = int(g.integers(0, B))
        i, j = g.choice(ns, 2, replace=False)
        s = float(g.uniform(10.0, 100.0) * g.choice([-1.0, 1.0]))
        if sp in ("new", "both", "jump"):
            D1[b, i, j] += s
            D1[b, j, i] -= s
        if sp in ("old", "both"):
            D0[b, i, j] += s
            D0[b, j, i] -= s
        if sp == "jump":  # sign flip of the spike between the two ends
            D0[b, i, j] -= s
            D0[b, j, i] += s
    return {"E0": E0, "E1": E1, "D0": D0, "D1": D1, "u0": u0, "th0": th0, "act": act}


def _propagate_once(inp, dt, sub, first_step=False):
    """one real _propagate_electronic call from the given initial state -> (dyn, nsub seen by the frame reader)"""
    import torch

    B, ns = inp["E0"].shape
    dyn = _mk(B, ns, dt, sub)
    _set_amp(dyn, inp["u0"], inp["th0"])
    dyn._active_states = torch.tensor(np.asarray(inp["act"]), dtype=torch.long)
    co = {"energies": _T(inp["E0"])}
    if not first_step:
        co["nac_dot"] = _T(inp["D0"])
    cn = {"energies": _T(inp["E1"]), "nac_dot": _T(inp["D1"])}
    _MON["nsub"].clear()
    dyn._propagate_electronic(co, cn, substeps=sub)
    nsub = _MON["nsub"][-1] if _MON["nsub"] else None
    return dyn, nsub


def _check_g(acc, dyn, ncalls=1, label="prop"):
    """(b) range clauses on the g_rows local of a returning real _attempt_hop; returns list of (g, targets)"""
    out = []
    act = dyn._active_states.numpy()
    B = act.shape[0]
    for _ in range(ncalls):
        _MON["g"].clear()
        tg = dyn._attempt_hop()
        if not _MON["g"] or _MON["g"][-1][0] is None:
            acc.count("g_frame_missing")
            continue
        g = _MON["g"][-1][0].numpy()
        t = tg.numpy()
        acc.count("g_frames_read")
        acc.count("g_rows_checked", B)
        out.append((g, t))
        bad = None
        if not np.all(np.isfinite(g)):
            bad = ("g-finite", float("nan"))
        elif g.min() < 0.0:
            bad = ("g-nonnegative", float(g.min()))
        elif g.max() > 1.0 + 1e-12:
            bad = ("g-at-most-one", float(g.max()))
        elif g.sum(axis=1).max() > 1.0 + 1e-12:
            bad = ("g-rowsum-at-most-one", float(g.sum(axis=1).max()))
        elif np.any(g[np.arange(B), act] != 0.0):
            bad = ("g-diagonal-zero", float(np.abs(g[np.arange(B), act]).max()))
        if np.isfinite(g).all():
            # the bound 1 is attained (renormalised rows): the margin is the excess over it against the 1e-12 allowance
            acc.margin("g_max_excess_over_1", max(float(g.max()) - 1.0, 0.0), 1e-12)
            acc.margin("g_rowsum_excess_over_1", max(float(g.sum(axis=1).max()) - 1.0, 0.0), 1e-12)
            if float(g.sum(axis=1).max()) > 1.0 - 1e-9:
                acc.count("g_rows_renormalised", int((g.sum(axis=1) > 1.0 - 1e-9).sum()))
        hop = t >= 0
        if bad is None and (np.any(t[hop] == act[hop]) or np.any(t >= g.shape[1]) or np.any(t < -1)):
            bad = ("hop-target-valid", 0.0)
        if bad is None and hop.any() and np.any(g[np.arange(B)[hop], t[hop]] <= 0.0):
            bad = ("hop-target-has-positive-g", 0.0)
        if bad:
            acc.violate(bad[0], None, value=bad[1], where=label, g_row=g[int(np.argmax(g.sum(axis=1)))].tolist(),
                        active=act.tolist())
    return out


def _run_prop(case):
    from vlib.ref import tdse

    hbar, K, _ = _consts()
    acc = _Acc()
    inp = _prop_inputs(case)
    dt = case["dt"]
    B, ns = inp["E0"].shape
    sub = case["sub"]
    first = case["first_step"]
    D0eff = inp["D1"] if first else inp["D0"]
    dyn, nsub = _propagate_once(inp, dt, sub, first_step=first)
    if nsub is None:
        return acc.result(False, inconclusive="frame local 'nsub' of _propagate_electronic not readable")
    acc.count("propagate_returns_seen")
    if sub is not None and int(nsub) != int(sub):
        acc.violate("fixed-substeps-honoured", None, asked=sub, used=int(nsub))
    nsub = int(nsub)
    u = dyn._coeffs_complex().numpy()
    pop = dyn.populations.numpy()
    hi = dyn._hop_integral
    if not (np.isfinite(u).all() and np.isfinite(pop).all() and (hi is None or bool(np.isfinite(hi.numpy()).all()))):
        acc.violate("amplitudes-and-hop-integral-finite", None, nsub=nsub, finite_u=bool(np.isfinite(u).all()))
    acc.cells.add("prop/ns%d/%s/spike-%s/%s" % (ns, case["mode"], case["spike"], "first" if first else "later"))
    acc.cells.add("prop/gap1e%d" % int(math.floor(math.log10(case["gap"]))))
    acc.cells.add("prop/B%d" % B)
    if case["mode"] == "adaptive":
        acc.cells.add("prop/adaptive-nsub-%s" % ("8" if nsub == 8 else ("80" if nsub == 80 else "9-79")))
    obs_rows = []
    phimax = 0.0
    for b in range(B):
        ph = _phis(inp["E0"][b], inp["E1"][b], D0eff[b], inp["D1"][b], dt, nsub, hbar)
        phi = _phase(ph)
        phimax = max(phimax, phi)
        ref = tdse.propagate(inp["u0"][b], inp["E0"][b], inp["E1"][b], D0eff[b], inp["D1"][b], dt, 64 * nsub, hbar=hbar)
        A = float(np.linalg.norm(u[b] - ref))
        N = abs(float(pop[b].sum()) - 1.0)
        acc.count("r3_comparisons")
        bd = _amp_bound(nsub, ph)
        wit = {"row": b, "nsub": nsub, "b0": ph[0], "psi": ph[1], "g": ph[2], "gam": ph[3]}
        if phi <= PHI_MAX_ABS:
            acc.count("abs_bound_rows")
            if acc.margin("amp_vs_R3", A, bd + FLOOR_A):
                acc.violate("amplitude-vs-R3", None, err=A, bound=bd + FLOOR_A, **wit)
            if acc.margin("norm_rk4_bound", N, 2.2 * bd + FLOOR_N):
                acc.violate("norm-rk4-bound", None, err=N, bound=2.2 * bd + FLOOR_N, **wit)
        if phi <= PHI_NORM_ABS:
            acc.count("norm_1e-3_rows")
            if acc.margin("norm_1e-3_at_phase_0.2", N, NORM_ABS):
                acc.violate("norm-1e-3", None, row=b, err=N, phi=phi, nsub=nsub)
        obs_rows.append({"b0": ph[0], "psi": ph[1], "g": ph[2], "gam": ph[3], "amp_err": A, "norm_err": N,
                         "amp_err/bound": A / (bd + FLOOR_A)})
    # (b) range clauses on the hop integral just produced
    _check_g(acc, dyn, ncalls=2)
    # ---- order ladder -------------------------------------------------------------------------------
    if case.get("ladder"):
        b = 0
        ph = _phis(inp["E0"][b], inp["E1"][b], D0eff[b], inp["D1"][b], dt, nsub, hbar)
        n0 = nsub
        while _phase(ph) * nsub / n0 > PHI_LADDER and n0 < 640:
            n0 *= 2
        if _phase(ph) * nsub / n0 <= PHI_LADDER:
            one = {k: v[b:b + 1] for k, v in inp.items()}
            ref = tdse.propagate(inp["u0"][b], inp["E0"][b], inp["E1"][b], D0eff[b], inp["D1"][b], dt, 64 * n0, hbar=hbar)
            As, Ns = [], []
            for k in range(4):
                dk, nk = _propagate_once(one, dt, n0 * 2 ** k, first_step=first)
                acc.count("propagate_returns_seen")
                if nk is None or int(nk) != n0 * 2 ** k:
                    acc.violate("fixed-substeps-honoured", None, asked=n0 * 2 ** k, used=None if nk is None else int(nk))
                As.append(float(np.linalg.norm(dk._coeffs_complex().numpy()[0] - ref)))
                Ns.append(abs(float(dk.populations.numpy()[0].sum()) - 1.0))
                acc.count("ladder_levels")
            if not np.isfinite(As + Ns).all():
                acc.violate("amplitudes-and-hop-integral-finite", None, n0=n0, amp_errs=As, norm_errs=Ns)
            anchor = max(Ns[0], 2.0 * As[0])
            for k in range(1, 4):
                if As[k - 1] > 8.0 * FLOOR_A:
                    acc.count("amp_order_ratios_judged")
                    if acc.margin("amp_order_(A2n/An)/(1/8)", As[k] / As[k - 1], 1.0 / 8.0) and As[k] > FLOOR_A:
                        acc.violate("amplitude-order", None, n0=n0, level=k, errs=As, phase_at_nsub=_phase(ph), nsub=nsub)
                env = anchor / 8.0 ** k
                if env > FLOOR_N:
                    acc.count("norm_envelope_levels_judged")
                    if acc.margin("norm_order_envelope", Ns[k], env):
                        acc.violate("norm-order", None, n0=n0, level=k, norm_errs=Ns, amp_errs=As)
                if Ns[k - 1] > 64 * FLOOR_N:  # recorded, not judged (sign changes, see ASSUMPTIONS)
                    acc.count("norm_pointwise_ratio_ge8" if Ns[k - 1] >= 8 * Ns[k] else "norm_pointwise_ratio_lt8")
            acc.obs["ladder"] = {"n0": n0, "amp": As, "norm": Ns}
            acc.cells.add("ladder/n0-%s" % ("8" if n0 <= 8 else ("9-79" if n0 < 80 else "80+")))
        else:
            acc.count("ladder_not_asymptotic")
    acc.obs.update({"nsub": nsub, "rows": obs_rows[:3], "phimax": phimax})
    return acc.result(True)


# =======================================================================================================
# (b) hop statistics
# =======================================================================================================
def _run_hopfreq(case):
    import torch
    from scipy import stats

    acc = _Acc()
    g = np.random.default_rng(case["seed"])
    ns, C, R, M, dt = case["ns"], case["configs"], case["reps"], case["calls"], case["dt"]
    # target size of sum_j g_ij per configuration: none, tiny ... renormalised
    targets = [0.0, 1e-3, 1e-2, 0.05, 0.2, 0.6, 2.0, 20.0]
    E0 = np.zeros((C, ns))
    E1 = np.zeros((C, ns))
    D0 = np.zeros((C, ns, ns))
    D1 = np.zeros((C, ns, ns))
    u0 = np.zeros((C, ns), complex)
    th0 = np.zeros((C, ns))
    act = g.integers(0, ns, C)
    for c in range(C):
        E0[c] = _energies(g, ns, float(10 ** g.uniform(-3, 0)))
        E1[c] = E0[c] + g.normal(0, 0.02, ns)
        u0[c], th0[c] = _rand_amp(g, ns)
        tgt = targets[c % len(targets)]
        # coupling scale such that 2 dt |D| ~ tgt (amplitude ratios are O(1))
        sc = tgt / (2.0 * dt) / max(1.0, math.sqrt(ns - 1.0))
        D0[c] = _antisym(g, ns, sc)
        D1[c] = D0[c] + _antisym(g, ns, 0.1 * sc)
    rep = lambda a: np.repeat(a, R, axis=0)  # noqa: E731
    inp = {"E0": rep(E0), "E1": rep(E1), "D0": rep(D0), "D1": rep(D1), "u0": rep(u0), "th0": rep(th0), "act": rep(act)}
    dyn, nsub = _propagate_once(inp, dt, case["sub"])
    if nsub is None:
        return acc.result(False, inconclusive="frame local 'nsub' not readable")
    acc.count("propagate_returns_seen")
    if dyn._hop_integral is None:
        return acc.result(False, inconclusive="_propagate_electronic left no _hop_integral")
    torch.manual_seed(case["seed"] % (2 ** 31))
    counts = np.zeros((C, ns + 1), dtype=np.int64)  # last column: no hop
    g_first = None
    rows = np.arange(C * R)
    cfg = rows // R
    for m in range(M):
        res = _check_g(acc, dyn, ncalls=1, label="hopfreq")
        if not res:
            return acc.result(False, inconclusive="frame local 'g_rows' of _attempt_hop not readable")
        gm, t = res[0]
        if g_first is None:
            g_first = gm
        elif not np.array_equal(gm, g_first):
            acc.violate("g-deterministic-given-state", None, call=m, maxdiff=float(np.abs(gm - g_first).max()))
        col = np.where(t >= 0, t, ns)
        np.add.at(counts, (cfg, col), 1)
        acc.count("hop_draws", C * R)
    n = R * M
    worst = []
    for c in range(C):
        gc = g_first[c * R:(c + 1) * R]
        spread = float(np.abs(gc - gc[0]).max())
        acc.margin("g_replica_spread", spread, 1e-13)
        p = gc.mean(axis=0)
        p_all = np.concatenate([p, [max(0.0, 1.0 - p.sum())]])
        ssum = float(p.sum())
        acc.cells.add("hopfreq/ns%d/sum-g-%s" % (ns, "0" if ssum == 0 else ("<1e-2" if ssum < 1e-2 else ("<0.5" if ssum < 0.5 else ("<1" if ssum < 1 - 1e-9 else "renormalised")))))
        for j in range(ns + 1):
            k = int(counts[c, j])
            pj = float(min(1.0, p_all[j]))
            acc.count("binomial_tests")
            if not math.isfinite(pj):
                acc.violate("hop-frequency", None, config=c, target=j, g="non-finite")
                continue
            if pj <= 0.0:
                if k != 0:
                    acc.violate("hop-frequency", None, config=c, target=j, count=k, n=n, g=pj, note="hop to a state with g = 0")
                continue
            if pj >= 1.0:
                if k != n and j < ns:
                    acc.violate("hop-frequency", None, config=c, target=j, count=k, n=n, g=pj)
                continue
            p_two = min(1.0, 2.0 * min(stats.binom.cdf(k, n, pj), stats.binom.sf(k - 1, n, pj)))
            z = float(stats.norm.isf(max(p_two, 1e-300) / 2.0))
            worst.append(z)
            if acc.margin("hop_frequency_sigma/7.13", z, Z_ALARM) or p_two < ALPHA_STAT:
                acc.violate("hop-frequency", None, config=c, target=("none" if j == ns else j), count=k, n=n, g=pj,
                            p_two_sided=p_two, sigma=z, active=int(act[c]), g_row=p.tolist())
    acc.obs.update({"draws_per_config": n, "max_sigma": max(worst) if worst else None, "nsub": int(nsub),
                    "sum_g": [float(g_first[c * R].sum()) for c in range(C)]})
    return acc.result(True)


# =======================================================================================================
# (c) velocity rescaling
# =======================================================================================================
def _fsum(a):
    return math.fsum(np.asarray(a, float).ravel().tolist())


def _is_tie(v, d):
    """mechanism predicate of the tie: v.d vanishes to round-off (exactly zero, or a float64 sum of the products that
    can round to 0.0 in some summation order), i.e. |sum v_i d_i| <= 8 eps sum |v_i d_i|"""
    pr = np.asarray(v, float) * np.asarray(d, float)
    return bool(abs(_fsum(pr)) <= 8 * EPS * _fsum(np.abs(pr)))


def _rescale_oracle(acc, v0, v1, ok, d_eff, m, minv, dE, K, row, tag, extra, check_others=True):
    """judge one _rescale_velocity_along_nac outcome on row `row`.
    v0/v1 [nmol,molsize,3] before/after, d_eff [molsize,3] the coupling vector in the direction used (its sign is
    immaterial), m/minv [molsize]."""
    from vlib.ref import tdse

    real = minv > 0
    vb, va = v0[row], v1[row]
    vd = _fsum(vb * d_eff)
    D2 = _fsum(minv[:, None] * d_eff * d_eff)
    c = dE / K
    disc, small, large = tdse.rescale_roots(vd, D2, c)
    scale = vd * vd + abs(2.0 * c * D2)
    band = 1e-9 * scale
    tie = _is_tie(vb, d_eff)
    mech = MECH_TIE if tie else None
    others = [r for r in range(v0.shape[0]) if r != row]
    if check_others and others and not np.array_equal(v0[others].view(np.int64), v1[others].view(np.int64)):
        acc.violate("rescale-other-rows-untouched", mech, where=tag, row=row, **extra)
    ke0 = 0.5 * K * _fsum(m[:, None] * vb * vb)
    ke1 = 0.5 * K * _fsum(m[:, None] * va * va)
    dke = 0.5 * K * _fsum(m[:, None] * (va - vb) * (va + vb))
    wit = dict(extra)
    wit.update({"where": tag, "v_dot_d": vd, "d2_by_m": D2, "dE": dE, "disc": disc, "ke_before": ke0, "ke_after": ke1,
                "accepted": bool(ok), "tie": tie, "v": vb.tolist(), "d": d_eff.tolist(), "mass": m.tolist()})
    if not np.isfinite(va).all():
        acc.violate("rescale-velocities-finite", mech, **wit)
        return "nonfinite"
    if abs(disc) <= band:
        acc.count("rescale_near_threshold_not_judged")
        return "threshold"
    if ok:
        acc.count("rescale_accepted")
        if disc < 0:
            acc.violate("rescale-accepted-without-real-root", mech, **wit)
            return "accepted"
        escale = max(abs(dE), ke0, ke1)
        if acc.margin("rescale_energy_rel/1e-10", abs(dke + dE), REL_E * escale):
            acc.violate("rescale-energy-conserved", mech, dke=dke, **wit)
            return "accepted"
        dp = (m[:, None] * (va - vb))[real]
        dr = d_eff[real]
        pn = float(np.linalg.norm((m[:, None] * vb)[real]))
        dn = float(np.linalg.norm(dr))
        a_obs = float(np.sum(dp * dr)) / (dn * dn)
        perp = float(np.linalg.norm(dp - a_obs * dr))
        tol_p = 1e-10 * float(np.linalg.norm(dp)) + 64 * EPS * pn + 1e-300
        if acc.margin("rescale_parallel", perp, tol_p):
            acc.violate("rescale-dp-parallel-to-d", mech, perp=perp, tol=tol_p, **wit)
        tol_a = 1e-10 * abs(small) + 64 * EPS * (abs(vd) / D2 + pn / dn) + 1e-300
        # at (or within round-off of) the tie both roots have the same modulus: either is "the smaller"
        same_mod = tie or abs(abs(small) - abs(large)) <= 1e-9 * abs(large)
        err_s = min(abs(a_obs - small), abs(a_obs - large)) if same_mod else abs(a_obs - small)
        if acc.margin("rescale_smaller_root", err_s, tol_a):
            acc.violate("rescale-smaller-root", mech, alpha_observed=a_obs, alpha_small=small, alpha_large=large, **wit)
        return "accepted"
    acc.count("rescale_rejected")
    if not np.array_equal(vb.view(np.int64), va.view(np.int64)):
        acc.violate("rescale-rejected-velocities-untouched", mech, **wit)
    if disc > 0:
        acc.violate("rescale-rejected-although-root-exists", mech, alpha_small=small, **wit)
    return "rejected"


def _run_rescale(case):
    import torch
    from types import SimpleNamespace

    hbar, K, _ = _consts()
    acc = _Acc()
    g = np.random.default_rng(case["seed"])
    dyn = _mk(1, 2, 0.1)
    scen = ["generic", "generic", "up-small", "down", "frustrated", "tie-rest", "tie-orth", "near-tie", "tiny-dE", "padded"]
    for t in range(case["trials"]):
        sc = scen[t % len(scen)]
        nmol = int(g.integers(1, 5))
        ms = int(g.integers(1, 7))
        row = int(g.integers(0, nmol))
        m = np.array([[MASSES[int(k)] for k in g.integers(0, len(MASSES), ms)] for _ in range(nmol)])
        npad = 0
        if sc == "padded" and ms > 1:
            npad = int(g.integers(1, ms))
            m[:, ms - npad:] = 0.0
        minv = np.where(m > 0, 1.0 / np.where(m > 0, m, 1.0), 0.0)
        v = g.normal(0.0, 10 ** g.uniform(-3, -1.3), (nmol, ms, 3)) * (m > 0)[..., None]
        d = g.normal(0.0, 10 ** g.uniform(-2, 1.5), (nmol, ms, 3)) * (m > 0)[..., None]
        ke = 0.5 * K * float(np.sum(m[row][:, None] * v[row] ** 2))
        mag = float(10 ** g.uniform(-4, math.log10(5.0)))
        dE = mag * float(g.choice([-1.0, 1.0]))
        if sc == "up-small":
            dE = abs(ke) * float(g.uniform(1e-3, 0.3)) + 1e-6
        elif sc == "down":
            dE = -mag
        elif sc == "frustrated":
            dE = ke * float(g.uniform(1.5, 50.0)) + 1e-3
        elif sc == "tie-rest":
            v[row] = 0.0
            dE = -mag if t % 4 else mag
        elif sc == "tie-orth":
            # v and d on disjoint Cartesian components: every product is exactly 0.0
            ax = int(g.integers(0, 3))
            d[row, :, ax] = 0.0
            keep = np.zeros(3)
            keep[ax] = 1.0
            v[row] = v[row] * keep
            dE = -mag if t % 4 else mag
        elif sc == "near-tie":
            # v.d tiny but non-zero
            dr = d[row].ravel()
            vr = v[row].ravel()
            vr = vr - (vr @ dr) / (dr @ dr) * dr
            v[row] = vr.reshape(ms, 3)
        elif sc == "tiny-dE":
            dE = float(g.choice([-1.0, 1.0])) * ke * 1e-9 if ke > 0 else -1e-9
        i, j = [int(x) for x in g.choice(5, 2, replace=False)]
        key = (min(i, j), max(i, j))
        d_eff = d[row] if i < j else -d[row]
        if _fsum(minv[row][:, None] * d[row] ** 2) <= 1e-9:
            acc.count("rescale_ineligible_tiny_d")
            continue
        mol = SimpleNamespace(velocities=_T(v), mass_inverse=_T(minv).unsqueeze(-1))
        nac = {key: _T(d)}
        ok = dyn._rescale_velocity_along_nac(nac, i, j, mol, float(dE), mol_index=row)
        v1 = mol.velocities.detach().numpy()
        acc.count("rescale_calls")
        if sc.startswith("tie"):
            acc.count("rescale_tie_trials")
        out = _rescale_oracle(acc, v, v1, bool(ok), d_eff, m[row], minv[row], float(dE), K, row, "rescale",
                              {"scenario": sc, "trial": t})
        acc.cells.add("rescale/%s/%s/dE%s" % (sc, out, "+" if dE > 0 else "-"))
    acc.obs["K_vs_codata"] = K / 103.64269650 - 1.0
    return acc.result(acc.mon.get("rescale_calls", 0) > 0)


# =======================================================================================================
# (d) _after_electronic_update pipeline
# =======================================================================================================
def _plan_perm(g, ns, scenario, active):
    """planned relabelling p (old state i is new state p[i]) for row 0, inside the +-2 window"""
    p = list(range(ns))
    if scenario in ("swap", "swap-active"):
        i = int(g.integers(0, ns - 1)) if scenario == "swap" else min(active, ns - 2) if active < ns - 1 else active - 1
        p[i], p[i + 1] = i + 1, i
    elif scenario == "swap2":
        i = int(g.integers(0, ns - 2))
        p[i], p[i + 2] = i + 2, i
    elif scenario == "double-swap":
        i = int(g.integers(0, ns - 3))
        p[i], p[i + 1] = i + 1, i
        p[i + 2], p[i + 3] = i + 3, i + 2
    elif scenario == "cycle3":
        i = int(g.integers(0, ns - 2))
        if g.random() < 0.5:
            p[i], p[i + 1], p[i + 2] = i + 1, i + 2, i  # one state drops below two others
        else:
            p[i], p[i + 1], p[i + 2] = i + 2, i, i + 1
    return p


def _after_inputs(case, attempt):
    g = np.random.default_rng([case["seed"], attempt])
    g0 = np.random.default_rng(case["seed"])  # attempt-independent part
    ns, B, ms, dt = case["ns"], case["B"], case["molsize"], case["dt"]
    sc, regime = case["scenario"], case["regime"]
    hbar, K, ACC = _consts()
    nov = 12
    E0 = np.zeros((B, ns))
    E1 = np.zeros((B, ns))
    D0 = np.zeros((B, ns, ns))
    D1 = np.zeros((B, ns, ns))
    u0 = np.zeros((B, ns), complex)
    th0 = np.zeros((B, ns))
    act = g0.integers(0, ns, B)
    m = np.array([[MASSES[int(k)] for k in g0.integers(0, len(MASSES), ms)] for _ in range(B)])
    v = g0.normal(0.0, 0.01, (B, ms, 3))
    dlim = 0.9 / dt  # |D| dt <= 0.9 keeps the adaptive sub-step count at its base value
    for b in range(B):
        E0[b] = _energies(g0, ns, float(10 ** g0.uniform(-2, 0)))
        E1[b] = E0[b] + g0.normal(0, 0.01, ns)
        sc_b = min(0.3 * dlim, float(10 ** g0.uniform(-2, 0.3)))
        D0[b] = np.clip(_antisym(g0, ns, sc_b), -dlim, dlim)
        D1[b] = np.clip(D0[b] + _antisym(g0, ns, 0.2 * sc_b), -dlim, dlim)
        u0[b], th0[b] = _rand_amp(g if b == 0 else g0, ns)
    if regime == "adaptive-spike":
        # bystanders must not attempt hops (their decision could flip on an RK4-level change of g)
        for b in range(1, B):
            D1[b, act[b], :] = 0.0
            D1[b, :, act[b]] = 0.0
    # ---- row 0 events ------------------------------------------------------------------------------
    a0 = int(act[0])
    if sc in ("accepted", "frustrated", "at-rest"):
        tgt = int((a0 + 1 + g0.integers(0, ns - 1)) % ns)
        # strong population on the active state, weaker on the target, large coupling: population flows out of it
        mod = np.full(ns, 0.05)
        mod[a0], mod[tgt] = 0.9, 0.3
        ph = g.uniform(-math.pi, math.pi, ns)
        u = mod * np.exp(1j * ph)
        u0[0] = u / np.linalg.norm(u)
        # (attempt-dependent: the direction of the population flow depends on the rotation angle |D| dt)
        big = dlim * float(g.uniform(0.3, 1.0)) if regime in ("adaptive-nospike", "fixed") else float(g.uniform(10.0, 100.0))
        s = big * float(g.choice([-1.0, 1.0]))
        for D in (D0, D1):
            D[0] *= 0.05
            D[0, a0, tgt], D[0, tgt, a0] = s, -s
        ke0 = 0.5 * K * float(np.sum(m[0][:, None] * v[0] ** 2))
        gap = float(10 ** g0.uniform(-3, 0.5))
        if sc == "frustrated":
            # upward gap several times the kinetic energy (velocities scaled down rather than the gap blown up)
            E1[0, tgt] = E1[0, a0] + gap
            v[0] *= math.sqrt(gap / float(g0.uniform(2.0, 30.0)) / ke0)
        elif sc == "at-rest":
            v[0] = 0.0
            E1[0, tgt] = E1[0, a0] - gap
        else:
            E1[0, tgt] = E1[0, a0] + (-gap if g0.random() < 0.6 else 0.05 * ke0 * float(g0.uniform(0.01, 1.0)))
    # ---- CIS amplitude sets for the real _detect_crossings -----------------------------------------
    cis_old = np.zeros((B, ns, nov))
    cis_new = np.zeros((B, ns, nov))
    perms = [list(range(ns)) for _ in range(B)]
    for b in range(B):
        Q = np.linalg.qr(g0.normal(size=(nov, nov)))[0]
        cis_old[b] = Q[:ns]
        Ws = g0.normal(size=(nov, nov)) * 0.02
        from scipy.linalg import expm
        Rm = expm(Ws - Ws.T)  # small rotation: overlaps with the partner stay >= 0.99
        if b == 0 and sc in ("swap", "swap2", "double-swap", "cycle3", "swap-active"):
            perms[b] = _plan_perm(g0, ns, sc, a0)
        for i in range(ns):
            cis_new[b, perms[b][i]] = (cis_old[b, i] @ Rm) * float(g0.choice([-1.0, 1.0]))
    ftab = g0.normal(0, 1.0, (B, ns, ms, 3))
    nactab = {(i, j): g0.normal(0, 10 ** g0.uniform(-1, 1), (B, ms, 3)) for i in range(ns) for j in range(i + 1, ns)}
    etot = g0.uniform(-3.0, 3.0, B)
    sub = None if regime.startswith("adaptive") else int(g0.choice([8, 16, 32]))
    return {"E0": E0, "E1": E1, "D0": D0, "D1": D1, "u0": u0, "th0": th0, "act": act, "m": m, "v": v,
            "cis_old": cis_old, "cis_new": cis_new, "perms": perms, "ftab": ftab, "nactab": nactab, "etot": etot,
            "sub": sub, "dt": dt, "decohere": case["decohere"]}


def _quiet_row0(inp):
    out = {k: (v.copy() if isinstance(v, np.ndarray) else v) for k, v in inp.items()}
    out["D0"][0] = 0.0
    out["D1"][0] = 0.0
    out["cis_new"][0] = out["cis_old"][0]
    out["perms"] = [list(range(inp["E0"].shape[1]))] + inp["perms"][1:]
    return out


def _pipe_init(inp):
    """one lightweight dynamics object + molecule that live for a whole sequence of steps"""
    import torch
    from types import SimpleNamespace

    hbar, K, ACC = _consts()
    B, ns = inp["E0"].shape
    dyn = _mk(B, ns, inp["dt"], inp["sub"], inp["decohere"])
    _set_amp(dyn, inp["u0"], inp["th0"])
    dyn._active_states = torch.tensor(np.asarray(inp["act"]), dtype=torch.long)
    if inp.get("hold") is not None:
        dyn.post_hop_holdoff = torch.tensor(np.asarray(inp["hold"]), dtype=torch.long)
    if inp.get("prev") is not None:
        dyn.prev_state = torch.tensor(np.asarray(inp["prev"]), dtype=torch.long)
    minv = 1.0 / inp["m"]
    ftab = _T(inp["ftab"])
    ar = torch.arange(B)
    mol = SimpleNamespace(coordinates=torch.zeros((B, inp["m"].shape[1], 3)), velocities=_T(inp["v"]),
                          mass_inverse=_T(minv).unsqueeze(-1), Etot=_T(inp["etot"]))
    mol.force = ftab[ar, dyn._active_states].clone()
    mol.acc = mol.force * mol.mass_inverse * ACC
    calls = {"nacr": 0, "recompute": 0}

    def nacr(molecule, pairs):
        calls["nacr"] += 1
        return {(a - 1, b - 1): _T(inp["nactab"][(a - 1, b - 1)]) for (a, b) in pairs}

    def recompute(molecule):
        calls["recompute"] += 1
        molecule.force = ftab[ar, dyn._active_states].clone()

    dyn._compute_NACR_for_hop = nacr
    dyn._recompute_active_force = recompute
    return {"dyn": dyn, "mol": mol, "calls": calls, "sub": inp["sub"], "nlog": 0}


def _pipe_step(st, co, cn, torch_seed=None, step=0, rvec=None):
    """the electronic part of _do_integrator_step with the real methods on the persistent object, snapshots in
    between; co / cn are the cache dicts (torch tensors) exactly as the driver would hold them"""
    import torch

    dyn, mol = st["dyn"], st["mol"]
    dyn.post_hop_holdoff = (dyn.post_hop_holdoff - 1).clamp(min=0)
    sw = dyn._detect_crossings(co, cn)
    dyn._trivial_crossing_mask = sw
    swap = None if sw is None else sw.clone().numpy()
    _MON["nsub"].clear()
    dyn._propagate_electronic(co, cn, substeps=st["sub"])
    nsub = _MON["nsub"][-1] if _MON["nsub"] else None
    mid = {"amp": dyn._amp_phase.clone().numpy(), "act": dyn._active_states.clone().numpy(),
           "vel": mol.velocities.clone().numpy(), "etot": mol.Etot.clone().numpy(),
           "u": dyn._coeffs_complex().numpy(), "nd_new": cn["nac_dot"].clone().numpy()}
    if torch_seed is not None:
        torch.manual_seed(torch_seed)
    _MON["g"].clear()
    if rvec is None:
        dyn._after_electronic_update(mol, excitation_energies=cn["energies"], step=step)
    else:
        # the uniform draws of _attempt_hop are supplied by the harness (one per row) so that a trajectory processed
        # alone sees exactly the draw it sees inside the batch
        real_rand = torch.rand
        rv = [float(x) for x in rvec]

        def fake_rand(*size, **kw):
            n = int(size[0]) if size and not isinstance(size[0], (tuple, list)) else int(size[0][0])
            if n != len(rv):
                raise RuntimeError("harness: torch.rand asked for %d draws, %d supplied" % (n, len(rv)))
            return torch.tensor(rv, dtype=torch.float64)

        torch.rand = fake_rand
        try:
            dyn._after_electronic_update(mol, excitation_energies=cn["energies"], step=step)
        finally:
            torch.rand = real_rand
    gframes = list(_MON["g"])
    fin = {"amp": dyn._amp_phase.clone().numpy(), "act": dyn._active_states.clone().numpy(),
           "vel": mol.velocities.clone().numpy(), "etot": mol.Etot.clone().numpy(),
           "hold": dyn.post_hop_holdoff.clone().numpy(), "prev": dyn.prev_state.clone().numpy(),
           "force": mol.force.clone().numpy(), "acc": mol.acc.clone().numpy(),
           "cur": dyn._current_potential.clone().numpy()}
    log = [(int(e.mol_index), int(e.from_state), int(e.to_state), bool(e.accepted), e.reason)
           for e in dyn.hop_log[st["nlog"]:]]
    st["nlog"] = len(dyn.hop_log)
    return {"mid": mid, "fin": fin, "log": log, "swap": swap, "nsub": nsub, "calls": st["calls"], "g": gframes}


def _pipeline(inp, torch_seed):
    """a single step on a fresh object"""
    st = _pipe_init(inp)
    co = {"energies": _T(inp["E0"]), "nac_dot": _T(inp["D0"]), "cis_amp": _T(inp["cis_old"])}
    cn = {"energies": _T(inp["E1"]), "nac_dot": _T(inp["D1"]), "cis_amp": _T(inp["cis_new"])}
    return _pipe_step(st, co, cn, torch_seed, step=0)


def _beq(a, b):
    a = np.ascontiguousarray(a)
    b = np.ascontiguousarray(b)
    if a.dtype.kind == "f":
        return np.array_equal(a.view(np.int64), b.view(np.int64))
    return np.array_equal(a, b)


def _check_g_frames(acc, res, clause="g-range-in-pipeline"):
    for gr, tg, ok in res["g"]:
        if gr is None:
            acc.count("g_frame_missing")
            continue
        gnp = gr.numpy()
        acc.count("g_frames_read")
        if not np.isfinite(gnp).all() or gnp.min() < 0 or gnp.max() > 1 + 1e-12 or gnp.sum(axis=1).max() > 1 + 1e-12:
            acc.violate(clause, None, gmin=float(gnp.min()), gmax=float(gnp.max()), rowsum=float(gnp.sum(axis=1).max()),
                        finite=bool(np.isfinite(gnp).all()))


def _judge_step(acc, inp, res, decohere, sc, regime):
    """relabelling / hop / untouched-row oracles of ONE _after_electronic_update step.
    inp needs: perms (planned old->new label map per row at this step), E1, nactab, m.  -> rows that attempted a hop"""
    hbar, K, ACC = _consts()
    B, ns = inp["E1"].shape
    mid, fin, log = res["mid"], res["fin"], res["log"]
    # ---- relabelling ---------------------------------------------------------------------------------
    # Judged: whatever relabelling WAS applied is a permutation pi of the amplitude rows (bitwise), the active index
    # follows the same pi, and every label that moved went to the state it corresponds to (pi(i) = p(i), p = the
    # planned old->new correspondence built into the CIS amplitudes).  Not judged: whether a planned relabelling is
    # applied at all (the statement does not demand it; e.g. longer cycles are deliberately left alone) - counted.
    exp_act = mid["act"].copy()
    for b in range(B):
        p = inp["perms"][b]
        ident = p == list(range(ns))
        hop_rows = [e for e in log if e[0] == b and e[4] != "Trivial crossing"]
        decoh = decohere and bool(hop_rows)
        pm, pf = mid["amp"][b], fin["amp"][b]
        popm = pm[:, 0] ** 2 + pm[:, 1] ** 2
        popf = pf[:, 0] ** 2 + pf[:, 1] ** 2
        has_cycle = _has_long_cycle(p)
        mech = MECH_CYCLE if has_cycle else None
        a_mid = int(mid["act"][b])
        triv = [e for e in log if e[0] == b and e[4] == "Trivial crossing"]
        swap_row = None if res["swap"] is None else res["swap"][b].tolist()
        pi = None
        if not decoh:
            # observed map: where did the amplitude triple of old label i end up?
            cand = []
            for i in range(ns):
                js = [j for j in range(ns) if _beq(pm[i], pf[j])]
                cand.append(js)
            pi = []
            for i in range(ns):
                js = [j for j in cand[i] if j not in pi] or cand[i]
                pi.append(p[i] if p[i] in js else (i if i in js else (js[0] if js else -1)))
            if sorted(pi) != list(range(ns)) or not _beq(np.sort(popm), np.sort(popf)):
                acc.violate("relabel-is-permutation-of-amplitudes", mech, row=b, planned=p, swap_to=swap_row, observed_map=pi,
                            pop_before=popm.tolist(), pop_after=popf.tolist(), sum_after=float(popf.sum()))
                pi = None
            else:
                acc.margin("relabel_norm_change", abs(float(popf.sum() - popm.sum())), 1e-14)
                moved = [i for i in range(ns) if pi[i] != i]
                if moved:
                    acc.count("after_trivial_relabels")
                    acc.cells.add("relabel/applied/%s" % ("cycle>=3" if _has_long_cycle(pi) else "swaps"))
                if any(pi[i] != p[i] for i in moved):
                    inv = [p.index(i) for i in range(ns)]
                    if pi == inv and inv != p:
                        acc.violate("relabel-applied-the-wrong-way-round", None, row=b, planned=p, observed_map=pi, swap_to=swap_row)
                    else:
                        acc.violate("relabel-follows-the-state-correspondence", mech, row=b, planned=p, observed_map=pi,
                                    swap_to=swap_row)
                if not ident and not moved:
                    acc.count("after_planned_cycle_not_relabelled" if has_cycle else "after_planned_swap_not_relabelled")
                    acc.cells.add("relabel/not-applied/%s" % ("cycle>=3" if has_cycle else "swaps"))
        if pi is not None:
            exp_act[b] = pi[a_mid]
        elif triv:
            exp_act[b] = triv[0][2]  # amplitudes unavailable (collapsed / already flagged): take the logged relabel
        if pi is not None or decoh:
            if exp_act[b] != a_mid:
                acc.count("after_active_relabelled")
                if not (len(triv) == 1 and triv[0][1] == a_mid and triv[0][2] == int(exp_act[b])):
                    acc.violate("relabel-active-index-follows", mech, row=b, planned=p, observed_map=pi, active_before=a_mid,
                                logged=triv, active_after=int(fin["act"][b]))
                elif decoh and int(exp_act[b]) != p[a_mid]:
                    acc.violate("relabel-follows-the-state-correspondence", mech, row=b, planned=p, active_before=a_mid, logged=triv)
            elif triv:
                acc.violate("relabel-active-index-follows", mech, row=b, planned=p, observed_map=pi, logged=triv,
                            note="relabel event logged although the active label did not move")
    # ---- hops ----------------------------------------------------------------------------------------
    hopped = {}
    for (b, fr, to, ok, reason) in log:
        if reason == "Trivial crossing":
            continue
        hopped[b] = (fr, to, ok)
        dE = float(inp["E1"][b, to] - inp["E1"][b, fr])
        key = (min(fr, to), max(fr, to))
        d_eff = inp["nactab"][key][b] if fr < to else -inp["nactab"][key][b]
        if fr != int(exp_act[b]):
            acc.violate("hop-starts-from-active-state", None, row=b, logged_from=fr, active=int(exp_act[b]))
        out = _rescale_oracle(acc, mid["vel"], fin["vel"], ok, d_eff, inp["m"][b], 1.0 / inp["m"][b], dE, K, b, "after",
                              {"scenario": sc, "regime": regime}, check_others=False)
        tie = _is_tie(mid["vel"][b], d_eff)
        mech = MECH_TIE if tie else None
        if ok:
            acc.count("after_hops_accepted")
            if int(fin["act"][b]) != to or int(fin["hold"][b]) != 2:
                acc.violate("accepted-hop-updates-active-index", mech, row=b, to=to, active_after=int(fin["act"][b]),
                            holdoff=int(fin["hold"][b]))
            ke0 = 0.5 * K * _fsum(inp["m"][b][:, None] * mid["vel"][b] ** 2)
            ke1 = 0.5 * K * _fsum(inp["m"][b][:, None] * fin["vel"][b] ** 2)
            tot0, tot1 = ke0 + float(mid["etot"][b]), ke1 + float(fin["etot"][b])
            tol = REL_E * max(abs(dE), ke0, ke1) + 16 * EPS * (abs(float(mid["etot"][b])) + abs(float(fin["etot"][b])) + float(np.abs(inp["E1"][b]).max()))
            if acc.margin("after_Ekin_plus_Eactive", abs(tot1 - tot0), tol):
                acc.violate("accepted-hop-conserves-Ekin-plus-Eactive", mech, row=b, total_before=tot0, total_after=tot1,
                            dE=dE, ke_before=ke0, ke_after=ke1, v_dot_d=float(np.sum(mid["vel"][b] * d_eff)))
            if decohere:
                a = fin["amp"][b]
                want = np.zeros_like(a)
                want[to, 0] = 1.0
                if not np.array_equal(a, want):
                    acc.violate("decoherence-collapses-onto-new-state", None, row=b, amp=a.tolist())
        else:
            acc.count("after_hops_frustrated")
            if int(fin["act"][b]) != int(exp_act[b]) or not _beq(mid["vel"][b], fin["vel"][b]):
                acc.violate("frustrated-hop-leaves-state-and-velocities", mech, row=b, active_before=int(exp_act[b]),
                            active_after=int(fin["act"][b]))
            if not (abs(float(fin["etot"][b]) - (float(mid["etot"][b]) + float(inp["E1"][b, exp_act[b]] - inp["E1"][b, mid["act"][b]]))) <= 1e-12 * (1 + abs(float(mid["etot"][b])))):
                acc.violate("frustrated-hop-leaves-active-energy", mech, row=b)
    for b in range(B):
        if b not in hopped:
            if not _beq(mid["vel"][b], fin["vel"][b]):
                acc.violate("no-hop-row-velocities-untouched", None, row=b)
            if int(fin["act"][b]) != int(exp_act[b]):
                acc.violate("no-hop-row-active-index", MECH_CYCLE if _has_long_cycle(inp["perms"][b]) else None, row=b,
                            expected=int(exp_act[b]), got=int(fin["act"][b]), planned=inp["perms"][b])
    return hopped


def _run_after(case):
    hbar, K, ACC = _consts()
    acc = _Acc()
    sc, regime = case["scenario"], case["regime"]
    want_hop = sc in ("accepted", "frustrated", "at-rest")
    res = inp = None
    tries = 0
    for attempt in range(40):
        tries += 1
        inp = _after_inputs(case, attempt)
        tseed = (case["seed"] + 7919 * attempt) % (2 ** 31)
        res = _pipeline(inp, tseed)
        if not want_hop or any(e[0] == 0 and e[4] != "Trivial crossing" for e in res["log"]):
            break
    if res["nsub"] is None:
        return acc.result(False, inconclusive="frame local 'nsub' not readable")
    acc.count("propagate_returns_seen")
    acc.count("after_update_calls")
    B, ns = inp["E0"].shape
    mid, fin, log = res["mid"], res["fin"], res["log"]
    acc.cells.add("after/%s/%s/decohere-%s" % (sc, regime, "on" if case["decohere"] else "off"))
    _check_g_frames(acc, res)
    hopped = _judge_step(acc, inp, res, case["decohere"], sc, regime)
    if want_hop and 0 not in hopped:
        acc.count("after_no_hop_attempt_in_row0")
    # ---- row isolation: control run with a quiet row 0 --------------------------------------------------
    ctrl_inp = _quiet_row0(inp)
    ctrl = _pipeline(ctrl_inp, (case["seed"] + 7919 * (tries - 1)) % (2 ** 31))
    same_nsub = ctrl["nsub"] == res["nsub"]
    acc.cells.add("isolation/%s" % ("same-nsub-bitwise" if same_nsub else "different-nsub-rk4"))
    for b in range(1, B):
        acc.count("after_isolation_rows_compared")
        if same_nsub:
            diffs = [k for k in ("amp", "act", "vel", "etot", "hold", "prev", "force", "acc", "cur")
                     if not _beq(res["fin"][k][b], ctrl["fin"][k][b])]
            if [e for e in res["log"] if e[0] == b] != [e for e in ctrl["log"] if e[0] == b]:
                diffs.append("hop_log")
            if not _beq(res["mid"]["amp"][b], ctrl["mid"]["amp"][b]):
                diffs.append("amp_after_propagate")
            if diffs:
                acc.violate("row-isolation-bitwise", None, row=b, differing=diffs, scenario=sc, regime=regime,
                            nsub=int(res["nsub"]))
        else:
            # shared adaptive sub-step count changed: amplitudes agree within the RK4 bounds of both runs
            n1, n2 = int(res["nsub"]), int(ctrl["nsub"])
            bd = 0.0
            for n in (n1, n2):
                bd += _amp_bound(n, _phis(inp["E0"][b], inp["E1"][b], inp["D0"][b], inp["D1"][b], inp["dt"], n, hbar))
            da = float(np.linalg.norm(res["mid"]["u"][b] - ctrl["mid"]["u"][b]))
            if acc.margin("isolation_rk4_level", da, bd + FLOOR_A):
                acc.violate("row-isolation-within-rk4", None, row=b, diff=da, bound=bd + FLOOR_A, nsub=[n1, n2])
            for k in ("act", "vel", "hold", "prev"):
                if not _beq(res["fin"][k][b], ctrl["fin"][k][b]):
                    acc.violate("row-isolation-bitwise", None, row=b, differing=[k], scenario=sc, regime=regime)
    acc.obs.update({"tries": tries, "log": log[:6], "nsub": int(res["nsub"]), "ctrl_nsub": int(ctrl["nsub"]),
                    "swap_to_row0": None if res["swap"] is None else res["swap"][0].tolist(), "planned_row0": inp["perms"][0]})
    return acc.result(True)


# =======================================================================================================
# (d) each trajectory processed alone; single-step holdoff configurations
# =======================================================================================================
_SOLO_FLOAT = ("amp", "vel", "etot", "force", "acc", "cur")
_SOLO_INT = ("act", "hold", "prev")


def _slice_base(inp, b):
    """inputs of row b alone (batch of one)"""
    out = {}
    for k, v in inp.items():
        if k == "nactab":
            out[k] = {kk: vv[b:b + 1] for kk, vv in v.items()}
        elif k == "perms":
            out[k] = [v[b]]
        elif isinstance(v, np.ndarray) and v.ndim >= 1 and k not in ("rvec",):
            out[k] = v[b:b + 1]
        else:
            out[k] = v
    return out


def _cmp_solo(acc, res, solo, b, **where):
    """row b inside the batch vs the same trajectory processed alone (same inputs, same uniform draw): integer state
    and hop log exact, floating state within 1e-12 (no bitwise demand across batch sizes).  -> True when equal"""
    acc.count("solo_rows_compared")
    diffs = []
    for k in _SOLO_INT:
        if not np.array_equal(res["fin"][k][b], solo["fin"][k][0]):
            diffs.append(k)
    worst = 0.0
    for k in _SOLO_FLOAT:
        x, y = np.asarray(res["fin"][k][b], float), np.asarray(solo["fin"][k][0], float)
        d = float(np.abs(x - y).max()) if x.size else 0.0
        sc = 1e-12 * max(1.0, float(np.abs(y).max()) if y.size else 1.0)
        if not (d <= sc):
            diffs.append(k)
        worst = max(worst, d / sc if math.isfinite(d) else BIG)
    d = float(np.abs(res["mid"]["amp"][b] - solo["mid"]["amp"][0]).max())
    if not (d <= 1e-12 * max(1.0, float(np.abs(solo["mid"]["amp"][0]).max()))):
        diffs.append("amp_after_propagate")
    if [(e[1], e[2], e[3], e[4]) for e in res["log"] if e[0] == b] != [(e[1], e[2], e[3], e[4]) for e in solo["log"]]:
        diffs.append("hop_log")
    acc.margin("solo_vs_batch_float_state", worst, 1.0) if not diffs else None
    if diffs:
        acc.violate("trajectory-in-batch-equals-trajectory-alone", None, row=b, differing=diffs,
                    active_in_batch=int(res["fin"]["act"][b]), active_alone=int(solo["fin"]["act"][0]),
                    log_in_batch=[e for e in res["log"] if e[0] == b], log_alone=solo["log"],
                    swap_to_in_batch=None if res["swap"] is None else res["swap"].tolist(),
                    swap_to_alone=None if solo["swap"] is None else solo["swap"].tolist(), **where)
    return not diffs


def _hold1_inputs(case):
    from scipy.linalg import expm

    g = np.random.default_rng(case["seed"])
    ns, B, ms, dt = case["ns"], case["B"], case["molsize"], case["dt"]
    nov = 12
    act = g.integers(0, ns, B)
    m = np.array([[MASSES[int(k)] for k in g.integers(0, len(MASSES), ms)] for _ in range(B)])
    v = g.normal(0.0, 0.01, (B, ms, 3))
    dlim = 0.9 / dt
    E0 = np.zeros((B, ns))
    E1 = np.zeros((B, ns))
    D0 = np.zeros((B, ns, ns))
    D1 = np.zeros((B, ns, ns))
    u0 = np.zeros((B, ns), complex)
    th0 = np.zeros((B, ns))
    for b in range(B):
        E0[b] = _energies(g, ns, float(10 ** g.uniform(-2, 0)))
        E1[b] = E0[b] + g.normal(0, 0.01, ns)
        sc_b = min(0.2 * dlim, float(10 ** g.uniform(-2, 0.0)))
        D0[b] = np.clip(_antisym(g, ns, sc_b), -dlim, dlim)
        D1[b] = np.clip(D0[b] + _antisym(g, ns, 0.2 * sc_b), -dlim, dlim)
        u0[b], th0[b] = _rand_amp(g, ns)
    # rows: holdoff row(s) and the row with the genuine pairwise crossing
    rows = list(g.permutation(B))
    c = int(rows[0])
    below = [r for r in range(B) if r < c]
    above = [r for r in range(B) if r > c]
    want = case["hold_pos"]
    if want == "below" and not below:
        c = B - 1
        below = list(range(B - 1))
    if want == "above" and not above:
        c = 0
        above = list(range(1, B))
    pool = below if want == "below" else (above if want == "above" else below + above)
    nh = 1 if len(pool) == 1 or g.random() < 0.6 else 2
    holds = [int(x) for x in g.choice(pool, nh, replace=False)]
    if want == "both" and below and above:
        holds = [int(g.choice(below)), int(g.choice(above))]
    hold = np.zeros(B, dtype=np.int64)
    prev = np.full(B, -1, dtype=np.int64)
    perms = [list(range(ns)) for _ in range(B)]
    pc = _plan_perm(g, ns, str(g.choice(["swap", "swap2", "swap-active"] + (["double-swap"] if ns >= 4 else []))), int(act[c]))
    perms[c] = pc
    for h in holds:
        hold[h] = int(g.choice([2, 2, 3]))  # the driver decrements before detection: 1 or 2 at detection time
        a = int(act[h])
        partners = [j for j in (a - 2, a - 1, a + 1, a + 2) if 0 <= j < ns]
        if case["hold_strong"]:
            for _ in range(20):
                j = int(g.choice(partners))
                ph = list(range(ns))
                ph[a], ph[j] = j, a
                if {i for i in range(ns) if ph[i] != i} != {i for i in range(ns) if pc[i] != i}:
                    break
            perms[h] = ph
            # prev_state: the partner itself (no holdoff reset) or another state (reset)
            prev[h] = j if g.random() < 0.5 else int(g.choice([x for x in range(ns) if x != a]))
        else:
            prev[h] = int(g.choice([x for x in range(ns) if x != a])) if g.random() < 0.7 else -1
    cis_old = np.zeros((B, ns, nov))
    cis_new = np.zeros((B, ns, nov))
    for b in range(B):
        Q = np.linalg.qr(g.normal(size=(nov, nov)))[0]
        cis_old[b] = Q[:ns]
        W = g.normal(size=(nov, nov)) * 0.02
        Rm = expm(W - W.T)
        for i in range(ns):
            cis_new[b, perms[b][i]] = (cis_old[b, i] @ Rm) * float(g.choice([-1.0, 1.0]))
    return {"E0": E0, "E1": E1, "D0": D0, "D1": D1, "u0": u0, "th0": th0, "act": act, "m": m, "v": v,
            "cis_old": cis_old, "cis_new": cis_new, "perms": perms, "hold": hold, "prev": prev,
            "ftab": g.normal(0, 1.0, (B, ns, ms, 3)),
            "nactab": {(i, j): g.normal(0, 10 ** g.uniform(-1, 1), (B, ms, 3)) for i in range(ns) for j in range(i + 1, ns)},
            "etot": g.uniform(-3.0, 3.0, B), "sub": None if case["regime"].startswith("adaptive") else int(g.choice([8, 16])),
            "dt": dt, "decohere": case["decohere"], "rvec": g.uniform(0.0, 1.0, B), "crossing_row": c, "holdoff_rows": holds}


def _one_step(inp, rvec):
    st = _pipe_init(inp)
    co = {"energies": _T(inp["E0"]), "nac_dot": _T(inp["D0"]), "cis_amp": _T(inp["cis_old"])}
    cn = {"energies": _T(inp["E1"]), "nac_dot": _T(inp["D1"]), "cis_amp": _T(inp["cis_new"])}
    return _pipe_step(st, co, cn, None, step=0, rvec=rvec)


def _run_hold1(case):
    """single step: trajectories still in post-hop holdoff (probe group of _detect_crossings when their active state
    overlaps another state strongly) at lower / higher batch index than a trajectory with a genuine pairwise crossing"""
    acc = _Acc()
    inp = _hold1_inputs(case)
    B, ns = inp["E0"].shape
    res = _one_step(inp, inp["rvec"])
    if res["nsub"] is None:
        return acc.result(False, inconclusive="frame local 'nsub' not readable")
    acc.count("propagate_returns_seen")
    acc.count("after_update_calls")
    c, holds = inp["crossing_row"], inp["holdoff_rows"]
    acc.count("hold1_steps")
    for h in holds:
        acc.count("hold1_holdoff_row_%s_crossing_row" % ("below" if h < c else "above"))
    acc.cells.add("hold1/%s/%s/%s" % (case["hold_pos"], "strong-overlap" if case["hold_strong"] else "weak-overlap", case["regime"]))
    _check_g_frames(acc, res)
    before = acc.mon.get("after_trivial_relabels", 0)
    _judge_step(acc, inp, res, case["decohere"], "hold1", case["regime"])
    if acc.mon.get("after_trivial_relabels", 0) > before:
        acc.count("hold1_crossing_applied")
    # control: the crossing of row c removed -> every other row bitwise identical
    ctrl_inp = {k: (v.copy() if isinstance(v, np.ndarray) else v) for k, v in inp.items()}
    ctrl_inp["cis_new"][c] = inp["cis_old"][c]
    ctrl_inp["perms"] = [p if b != c else list(range(ns)) for b, p in enumerate(inp["perms"])]
    ctrl = _one_step(ctrl_inp, inp["rvec"])
    if ctrl["nsub"] == res["nsub"]:
        for b in range(B):
            if b == c:
                continue
            acc.count("after_isolation_rows_compared")
            diffs = [k for k in ("amp", "act", "vel", "etot", "hold", "prev", "force", "acc", "cur")
                     if not _beq(res["fin"][k][b], ctrl["fin"][k][b])]
            if [e for e in res["log"] if e[0] == b] != [e for e in ctrl["log"] if e[0] == b]:
                diffs.append("hop_log")
            if diffs:
                acc.violate("row-isolation-bitwise", None, row=b, differing=diffs, scenario="hold1", crossing_row=c,
                            holdoff_rows=holds, swap_to=None if res["swap"] is None else res["swap"].tolist(),
                            planned=inp["perms"])
    # every trajectory processed alone
    for b in range(B):
        solo = _one_step(_slice_base(inp, b), inp["rvec"][b:b + 1])
        if solo["nsub"] != res["nsub"]:
            acc.count("solo_skipped_nsub_differs")
            continue
        _cmp_solo(acc, res, solo, b, crossing_row=c, holdoff_rows=holds, planned=inp["perms"][b])
    acc.obs.update({"crossing_row": c, "holdoff_rows": holds, "planned": inp["perms"], "log": res["log"][:6],
                    "swap_to": None if res["swap"] is None else res["swap"].tolist(),
                    "holdoff_after": res["fin"]["hold"].tolist()})
    return acc.result(True)


# =======================================================================================================
# (d) sequences: one object, several consecutive steps, crossing events at different steps / rows / pairs
# =======================================================================================================
def _seq_inputs(case):
    from scipy.linalg import expm

    g = np.random.default_rng(case["seed"])
    ns, B, ms, dt, T = case["ns"], case["B"], case["molsize"], case["dt"], case["nsteps"]
    nov = 12
    act = g.integers(0, ns, B)
    m = np.array([[MASSES[int(k)] for k in g.integers(0, len(MASSES), ms)] for _ in range(B)])
    v = g.normal(0.0, 0.01, (B, ms, 3))
    dlim = 0.9 / dt
    E = np.zeros((T + 1, B, ns))
    D = np.zeros((T + 1, B, ns, ns))
    u0 = np.zeros((B, ns), complex)
    th0 = np.zeros((B, ns))
    for b in range(B):
        E[0, b] = _energies(g, ns, float(10 ** g.uniform(-2, 0)))
        sc_b = min(0.2 * dlim, float(10 ** g.uniform(-2, 0.0)))
        D[0, b] = np.clip(_antisym(g, ns, sc_b), -dlim, dlim)
        for t in range(T):
            E[t + 1, b] = E[t, b] + g.normal(0, 0.01, ns)
            D[t + 1, b] = np.clip(D[t, b] + _antisym(g, ns, 0.2 * sc_b), -dlim, dlim)
        u0[b], th0[b] = _rand_amp(g, ns)
    # events: distinct steps; a different row (mostly) or the same row with a different pair the next time
    steps = sorted(int(x) for x in g.choice(T, case["nevents"], replace=False))
    events, used = [], []
    for j, t in enumerate(steps):
        if j == 0 or (g.random() < 0.75 and B > 1):
            cand = [r for r in range(B) if r not in [e["row"] for e in events]] or list(range(B))
            row = int(cand[int(g.integers(0, len(cand)))])
        else:
            row = events[-1]["row"]
        kinds = ["swap", "swap", "swap2"] + (["double-swap"] if ns >= 4 else []) + (["cycle3"] if g.random() < 0.3 else [])
        for _ in range(20):
            sc = kinds[int(g.integers(0, len(kinds)))]
            p = _plan_perm(g, ns, sc, int(act[row]))
            if p not in used:
                break
        used.append(p)
        events.append({"step": t, "row": row, "scenario": sc, "perm": p})
    pattern = case.get("pattern", "plain")
    if pattern.startswith("holdoff") and B >= 2:
        # step 0: row h's ACTIVE state takes part in a pairwise crossing (relabelled -> holdoff 2, prev_state set);
        # step 1: h, now in holdoff, overlaps another state strongly again (probe group) while row c, at a higher /
        # lower batch index, has a genuine pairwise crossing in the SAME step; later events as drawn above
        if pattern == "holdoff-below":
            h = int(g.integers(0, B - 1))
            c = int(g.integers(h + 1, B))
        else:
            c = int(g.integers(0, B - 1))
            h = int(g.integers(c + 1, B))
        a = int(act[h])
        p0 = _plan_perm(g, ns, "swap-active", a)
        a2 = p0[a]
        partners = [j for j in (a2 - 2, a2 - 1, a2 + 1, a2 + 2) if 0 <= j < ns]
        for _ in range(30):
            j = int(g.choice(partners))
            p1 = list(range(ns))
            p1[a2], p1[j] = j, a2
            pc = _plan_perm(g, ns, str(g.choice(["swap", "swap2"])), int(act[c]))
            if {i for i in range(ns) if p1[i] != i} != {i for i in range(ns) if pc[i] != i}:
                break
        events = [{"step": 0, "row": h, "scenario": "swap-active", "perm": p0},
                  {"step": 1, "row": h, "scenario": "probe-swap-in-holdoff", "perm": p1},
                  {"step": 1, "row": c, "scenario": "swap", "perm": pc}] + \
                 [e for e in events if e["step"] >= 3][:1]
    Q0 = np.stack([np.linalg.qr(g.normal(size=(nov, nov)))[0][:ns] for _ in range(B)])
    rot = np.zeros((T, B, nov, nov))
    sgn = g.choice([-1.0, 1.0], (T, B, ns))
    for t in range(T):
        for b in range(B):
            W = g.normal(size=(nov, nov)) * 0.02
            rot[t, b] = expm(W - W.T)
    base = {"E0": E[0], "dt": dt, "sub": None if case["regime"].startswith("adaptive") else int(g.choice([8, 16])),
            "decohere": case["decohere"], "u0": u0, "th0": th0, "act": act, "m": m, "v": v,
            "ftab": g.normal(0, 1.0, (B, ns, ms, 3)),
            "nactab": {(i, j): g.normal(0, 10 ** g.uniform(-1, 1), (B, ms, 3)) for i in range(ns) for j in range(i + 1, ns)},
            "etot": g.uniform(-3.0, 3.0, B)}
    return {"base": base, "E": E, "D": D, "events": events, "Q0": Q0, "rot": rot, "sgn": sgn, "T": T, "B": B, "ns": ns,
            "rvec": g.uniform(0.0, 1.0, (T, B))}


def _seq_run(si, events, row=None):
    """run the whole sequence on one object with the given events (uniform draws supplied per step and row);
    row = b: the trajectory b processed alone (batch of one).  -> (list of per-step results, per-step perms)"""
    T, B, ns = si["T"], si["B"], si["ns"]
    rows = list(range(B)) if row is None else [row]
    base = si["base"] if row is None else _slice_base(si["base"], row)
    st = _pipe_init(base)
    cis = si["Q0"][rows].copy()
    co = {"energies": _T(si["E"][0][rows]), "nac_dot": _T(si["D"][0][rows]), "cis_amp": _T(cis)}
    out, plans = [], []
    for t in range(T):
        perms = [list(range(ns)) for _ in rows]
        for e in events:
            if e["step"] == t and e["row"] in rows:
                perms[rows.index(e["row"])] = e["perm"]
        new = np.zeros_like(cis)
        for k, b in enumerate(rows):
            for i in range(ns):
                new[k, perms[k][i]] = (cis[k, i] @ si["rot"][t, b]) * si["sgn"][t, b, i]
        cn = {"energies": _T(si["E"][t + 1][rows]), "nac_dot": _T(si["D"][t + 1][rows]), "cis_amp": _T(new)}
        res = _pipe_step(st, co, cn, None, step=t, rvec=si["rvec"][t][rows])
        out.append(res)
        plans.append(perms)
        # shift the caches as _do_integrator_step does (nac_dot as left by _detect_crossings)
        co = {"energies": cn["energies"].clone(), "nac_dot": cn["nac_dot"].clone(), "cis_amp": cn["cis_amp"].clone()}
        cis = new
    return out, plans


def _run_afterseq(case):
    acc = _Acc()
    si = _seq_inputs(case)
    T, B, ns = si["T"], si["B"], si["ns"]
    full, plans = _seq_run(si, si["events"])
    if any(r["nsub"] is None for r in full):
        return acc.result(False, inconclusive="frame local 'nsub' not readable")
    acc.count("propagate_returns_seen", T)
    acc.count("after_update_calls", T)
    acc.count("afterseq_steps", T)
    acc.cells.add("afterseq/%s/%s/steps%d/events%d/decohere-%s" % (case.get("pattern", "plain"), case["regime"], T, len(si["events"]),
                                                                   "on" if case["decohere"] else "off"))
    applied_steps = set()
    for t, res in enumerate(full):
        before = acc.mon.get("after_trivial_relabels", 0)
        _check_g_frames(acc, res)
        _judge_step(acc, {"perms": plans[t], "E1": si["E"][t + 1], "nactab": si["base"]["nactab"], "m": si["base"]["m"]},
                    res, case["decohere"], "seq-step%d" % t, case["regime"])
        if acc.mon.get("after_trivial_relabels", 0) > before:
            applied_steps.add(t)
    # was a row in holdoff (with prev_state set) at detection time while ANOTHER row's relabelling was applied?
    for t in range(1, T):
        hold_det = np.maximum(full[t - 1]["fin"]["hold"] - 1, 0)
        moved_rows = [b for b in range(B) if not _beq(full[t]["mid"]["amp"][b], full[t]["fin"]["amp"][b]) and
                      any(e["step"] == t and e["row"] == b for e in si["events"])]
        for b in moved_rows:
            for h in range(B):
                if h != b and hold_det[h] > 0 and full[t - 1]["fin"]["prev"][h] >= 0:
                    acc.count("afterseq_holdoff_row_%s_relabelled_row" % ("below" if h < b else "above"))
    # every trajectory processed alone through the whole sequence
    for b in range(B):
        solo, _ = _seq_run(si, si["events"], row=b)
        for t in range(T):
            if solo[t]["nsub"] != full[t]["nsub"]:
                acc.count("solo_skipped_nsub_differs")
                break
            if not _cmp_solo(acc, full[t], solo[t], b, step=t,
                             events=[{k: x[k] for k in ("step", "row", "scenario", "perm")} for x in si["events"]]):
                break
    ev_steps = sorted(e["step"] for e in si["events"])
    if len(applied_steps) >= 2:
        acc.count("afterseq_sequences_with_two_applied_events")
        rows = {e["row"] for e in si["events"] if e["step"] in applied_steps}
        acc.cells.add("afterseq/applied-events-on-%s" % ("different-rows" if len(rows) > 1 else "same-row"))
        if any(b - a > 1 for a, b in zip(ev_steps, ev_steps[1:])):
            acc.cells.add("afterseq/quiet-step-between-events")
    # ---- isolation: remove ONE event; every other row must stay bitwise identical through the whole sequence ----
    for e in si["events"]:
        ctrl, _ = _seq_run(si, [x for x in si["events"] if x is not e])
        for t in range(T):
            if ctrl[t]["nsub"] != full[t]["nsub"]:
                acc.count("afterseq_isolation_skipped_nsub_differs")
                break
            for b in range(B):
                if b == e["row"]:
                    continue
                acc.count("afterseq_isolation_rows_compared")
                diffs = [k for k in ("amp", "act", "vel", "etot", "hold", "prev", "force", "acc", "cur")
                         if not _beq(full[t]["fin"][k][b], ctrl[t]["fin"][k][b])]
                if [x for x in full[t]["log"] if x[0] == b] != [x for x in ctrl[t]["log"] if x[0] == b]:
                    diffs.append("hop_log")
                if not _beq(full[t]["mid"]["amp"][b], ctrl[t]["mid"]["amp"][b]):
                    diffs.append("amp_after_propagate")
                if diffs:
                    acc.violate("row-isolation-bitwise-in-sequence", None, row=b, step=t, differing=diffs,
                                removed_event={k: e[k] for k in ("step", "row", "scenario", "perm")},
                                events=[{k: x[k] for k in ("step", "row", "scenario", "perm")} for x in si["events"]],
                                swap_to_full=None if full[t]["swap"] is None else full[t]["swap"].tolist(),
                                swap_to_control=None if ctrl[t]["swap"] is None else ctrl[t]["swap"].tolist())
                    break
            else:
                continue
            break
    acc.obs.update({"events": [{k: x[k] for k in ("step", "row", "scenario", "perm")} for x in si["events"]],
                    "applied_at_steps": sorted(applied_steps), "nsub": [int(r["nsub"]) for r in full],
                    "logs": [r["log"] for r in full][:6]})
    return acc.result(True)


def _has_long_cycle(p):
    for i in range(len(p)):
        if p[i] != i and p[p[i]] != i:
            return True
    return False


# =======================================================================================================
# initial amplitudes through the regular path
# =======================================================================================================
def _judge_initial(acc, dyn, init_act, where):
    """step 0: every row has |c_k|^2 = 1 on ITS OWN initial state and 0 elsewhere, the active index is that state"""
    amp = dyn._amp_phase.detach().numpy()
    act = dyn._active_states.numpy()
    B, ns = amp.shape[:2]
    want = np.zeros_like(amp)
    want[np.arange(B), np.asarray(init_act), 0] = 1.0
    acc.count("init_rows_checked", B)
    acc.count("init_rows_with_state_differing_from_row0", int((np.asarray(init_act) != init_act[0]).sum()))
    if not np.array_equal(act, np.asarray(init_act)):
        acc.violate("initial-active-state-is-the-requested-one", None, where=where, requested=np.asarray(init_act).tolist(),
                    active=act.tolist())
    if not (np.isfinite(amp).all() and np.array_equal(amp, want)):
        pop = amp[..., 0] ** 2 + amp[..., 1] ** 2
        acc.violate("initial-population-one-on-own-state-zero-elsewhere", None, where=where,
                    requested=np.asarray(init_act).tolist(), populations=pop.tolist(), total=pop.sum(axis=1).tolist())


def _init_instance(B, ns, dt, sub, initial_state):
    import torch
    from types import SimpleNamespace

    dyn = _mk(B, ns, dt, sub)
    dyn._amp_phase = None
    dyn._active_states = None
    dyn.initial_state = initial_state
    mol = SimpleNamespace(species=torch.ones((B, 1), dtype=torch.int64), coordinates=torch.zeros((B, 1, 3)))
    dyn._init_coeffs(mol)  # real: _ensure_active_states -> _normalize_initial_state, then the amplitude seeding
    return dyn


def _run_init(case):
    import torch
    from vlib.ref import tdse

    hbar, K, _ = _consts()
    acc = _Acc()
    g = np.random.default_rng(case["seed"])
    ns, B, dt, sub = case["ns"], case["B"], case["dt"], case["sub"]
    form = case["form"]
    if form == "int":
        init_act = np.full(B, int(g.integers(0, ns)))
        spec = int(init_act[0]) + 1
    elif form == "tensor-equal":
        init_act = np.full(B, int(g.integers(0, ns)))
        spec = torch.tensor(init_act + 1, dtype=torch.long)
    else:
        init_act = g.integers(0, ns, B)
        if len(set(init_act.tolist())) == 1:
            init_act[-1] = (init_act[0] + 1) % ns
        spec = torch.tensor(init_act + 1, dtype=torch.long)
    acc.cells.add("init/%s/ns%d" % (form, ns))
    dyn = _init_instance(B, ns, dt, sub, spec)
    _judge_initial(acc, dyn, init_act, "lightweight")
    # one real propagation step from that start: norm, R3, and every row against the same trajectory initialised alone
    E0 = np.stack([_energies(g, ns, float(10 ** g.uniform(-2, 0))) for _ in range(B)])
    E1 = E0 + g.normal(0, 0.02, (B, ns))
    sc = min(0.9 / dt, float(10 ** g.uniform(-2, 0.3)))
    D0 = np.stack([np.clip(_antisym(g, ns, sc), -0.9 / dt, 0.9 / dt) for _ in range(B)])
    D1 = np.clip(D0 + np.stack([_antisym(g, ns, 0.2 * sc) for _ in range(B)]), -0.9 / dt, 0.9 / dt)

    def step(d, rows):
        co = {"energies": _T(E0[rows]), "nac_dot": _T(D0[rows])}
        cn = {"energies": _T(E1[rows]), "nac_dot": _T(D1[rows])}
        _MON["nsub"].clear()
        d._propagate_electronic(co, cn, substeps=sub)
        return _MON["nsub"][-1] if _MON["nsub"] else None

    nsub = step(dyn, list(range(B)))
    if nsub is None:
        return acc.result(False, inconclusive="frame local 'nsub' not readable")
    acc.count("propagate_returns_seen")
    u = dyn._coeffs_complex().numpy()
    pop = dyn.populations.numpy()
    _check_g(acc, dyn, ncalls=1, label="init")
    for b in range(B):
        ph = _phis(E0[b], E1[b], D0[b], D1[b], dt, int(nsub), hbar)
        u0 = np.zeros(ns, complex)
        u0[init_act[b]] = 1.0
        ref = tdse.propagate(u0, E0[b], E1[b], D0[b], D1[b], dt, 64 * int(nsub), hbar=hbar)
        acc.count("r3_comparisons")
        if _phase(ph) <= PHI_MAX_ABS:
            bd = _amp_bound(int(nsub), ph)
            if acc.margin("amp_vs_R3", float(np.linalg.norm(u[b] - ref)), bd + FLOOR_A):
                acc.violate("amplitude-vs-R3", None, row=b, where="after regular initialisation", requested=init_act.tolist(),
                            err=float(np.linalg.norm(u[b] - ref)))
            if acc.margin("norm_rk4_bound", abs(float(pop[b].sum()) - 1.0), 2.2 * bd + FLOOR_N):
                acc.violate("norm-rk4-bound", None, row=b, where="after regular initialisation", requested=init_act.tolist(),
                            total_population=float(pop[b].sum()))
        one = _init_instance(1, ns, dt, sub, torch.tensor([int(init_act[b]) + 1], dtype=torch.long) if form != "int" else int(init_act[b]) + 1)
        n1 = step(one, [b])
        acc.count("solo_rows_compared")
        if n1 == nsub:
            d = float(np.abs(one._amp_phase.numpy()[0] - dyn._amp_phase.numpy()[b]).max())
            if acc.margin("solo_vs_batch_float_state", d, 1e-12):
                acc.violate("trajectory-in-batch-equals-trajectory-alone", None, row=b, where="after regular initialisation",
                            requested=init_act.tolist(), max_diff=d,
                            population_in_batch=pop[b].tolist(), population_alone=one.populations.numpy()[0].tolist())
    acc.obs.update({"requested": init_act.tolist(), "form": form, "nsub": int(nsub), "total_population": pop.sum(axis=1).tolist()})
    return acc.result(True)


# =======================================================================================================
# (e) Tully models, live batched FSSH
# =======================================================================================================
def _run_tully(case):
    import contextlib
    import io

    import torch

    try:
        from scripts.tully_surface_hopping.TullyModels import TullyFSSH, TullyModel, TullyMolecule
    except Exception as exc:  # noqa: BLE001
        return {"inconclusive": "cannot import scripts.tully_surface_hopping.TullyModels: %r" % (exc,)}
    hbar, K, ACC = _consts()
    acc = _Acc()
    g = np.random.default_rng(case["seed"])
    model = getattr(TullyModel, case["model"])()
    B, dt, mass = case["B"], case["dt"], case["mass"]
    x0 = np.full(B, -2.0) - g.uniform(0, 0.5, B)
    v0 = g.uniform(0.06, case["vmax"], B)
    steps = int(min(1600, (4.5 / float(v0.mean())) / dt))
    torch.manual_seed(case["seed"] % (2 ** 31))
    dyn = TullyFSSH(model, timestep=dt)
    mol = TullyMolecule(x0=x0, v0=v0, mass=mass)
    init_act = np.zeros(B, dtype=np.int64)
    if case.get("mixed_init"):
        # per-trajectory initial states (1-indexed tensor), not all equal
        init_act = g.integers(0, 2, B)
        init_act[0], init_act[-1] = 0, 1
        dyn.initial_state = torch.tensor(init_act + 1, dtype=torch.long)
        acc.cells.add("tully/mixed-initial-states")
    dyn._setup_states(mol)
    dyn._init_coeffs(mol)
    _judge_initial(acc, dyn, init_act, "tully")
    hfd = 1e-4

    def surfaces(x):
        """independent use of the model: its own energies, analytic gradient, FD gradient and FD curvature"""
        xt = torch.as_tensor(x, dtype=torch.float64)
        E, dEa, _ = model.pot(xt)
        Ep, _, _ = model.pot(xt + hfd)
        Em, _, _ = model.pot(xt - hfd)
        Ep2, _, _ = model.pot(xt + 2 * hfd)
        Em2, _, _ = model.pot(xt - 2 * hfd)
        d1 = (8 * (Ep - Em) - (Ep2 - Em2)) / (12 * hfd)
        d2 = (Ep - 2 * E + Em) / hfd ** 2
        return E.numpy(), dEa.numpy(), d1.numpy(), d2.numpy()

    def kin(molecule):
        return 0.5 * K * (molecule.mass[:, 0, 0] * (molecule.velocities ** 2).sum(dim=(1, 2))).numpy()

    rec = {"tot": [], "delta": [], "norm": [], "act": []}
    force_mech = [set() for _ in range(B)]
    hop_jump = []
    orig_after = dyn._after_electronic_update
    orig_step = dyn._do_integrator_step
    rows = np.arange(B)

    def after(molecule, excitation_energies, step=None):
        x = molecule.coordinates[:, 0, 0].detach().numpy().copy()
        E = surfaces(x)[0]
        a0 = dyn._active_states.numpy().copy()
        t0 = kin(molecule) + E[rows, a0]
        r = orig_after(molecule, excitation_energies, step=step)
        a1 = dyn._active_states.numpy().copy()
        t1 = kin(molecule) + E[rows, a1]
        acc.count("tully_after_update_calls")
        for b in range(B):
            sc = max(abs(t0[b]), abs(E[b]).max(), kin(molecule)[b])
            if acc.margin("tully_hop_exact_conservation", abs(t1[b] - t0[b]), REL_E * sc + 64 * EPS * sc):
                hop_jump.append({"row": b, "step": step, "from": int(a0[b]), "to": int(a1[b]), "jump": float(t1[b] - t0[b])})
        return r

    def step_fn(i, molecule, lp, **kw):
        r = orig_step(i, molecule, lp, **kw)
        acc.count("tully_steps")
        x = molecule.coordinates[:, 0, 0].detach().numpy().copy()
        E, dEa, dfd, d2 = surfaces(x)
        a = dyn._active_states.numpy().copy()
        m = molecule.mass[:, 0, 0].numpy()
        v = molecule.velocities[:, 0, 0].detach().numpy()
        ke = kin(molecule)
        F_app = molecule.acc[:, 0, 0].detach().numpy() * m / ACC
        F_fd = -dfd[rows, a]
        for b in range(B):
            if abs(x[b]) < 4 * hfd:  # the models have |x| kinks at 0: no finite difference across it
                acc.count("tully_force_checks_skipped_at_kink")
                continue
            acc.count("tully_force_checks")
            tolF = 1e-6 * max(1.0, abs(F_fd[b]))
            acc.margin("tully_force_is_active_gradient", abs(F_app[b] - F_fd[b]), tolF)
            if not (abs(F_app[b] - F_fd[b]) <= tolF):  # (NaN-safe)
                if abs(F_app[b] + dEa[b, a[b]]) <= tolF:
                    force_mech[b].add(MECH_TULLY_GRAD)
                elif a[b] != a[0] and (abs(F_app[b] + dEa[b, a[0]]) <= tolF or abs(F_app[b] + dfd[b, a[0]]) <= tolF):
                    force_mech[b].add(MECH_TULLY_ROW0)
                else:
                    force_mech[b].add("unclassified")
                if len(rec.setdefault("force_wit", [])) < 3:
                    rec["force_wit"].append({"row": b, "step": i, "x": float(x[b]), "active": int(a[b]), "active_row0": int(a[0]),
                                             "applied": float(F_app[b]), "minus_dE_fd": float(F_fd[b]),
                                             "minus_dE_model_analytic": float(-dEa[b, a[b]])})
        rec["tot"].append(ke + E[rows, a])
        # |h^2 term of the modified Hamiltonian| of either Verlet variant: (1/12, 1/24) or (1/24, 1/12) weights
        rec["delta"].append(dt * dt * (np.abs(v * v * d2[rows, a]) / 12.0 + F_fd ** 2 / (12.0 * m * K)))
        rec["norm"].append(np.abs(dyn.populations.sum(dim=1).numpy() - 1.0))
        rec["act"].append(a)
        return r

    dyn._after_electronic_update = after
    dyn._do_integrator_step = step_fn
    E_init = surfaces(x0)[0][rows, init_act] + 0.5 * K * mass * v0 ** 2
    _MON["g"].clear()
    with contextlib.redirect_stdout(io.StringIO()):
        dyn.run(mol, steps=steps, reuse_P=True, remove_com=None)
    gframes = list(_MON["g"])
    _MON["g"].clear()
    for gr, tg, ok in gframes:
        if gr is None:
            continue
        gnp = gr.numpy()
        acc.count("g_frames_read")
        if not np.isfinite(gnp).all() or gnp.min() < 0 or gnp.max() > 1 + 1e-12 or gnp.sum(axis=1).max() > 1 + 1e-12:
            acc.violate("g-range-in-tully", None, gmin=float(gnp.min()), gmax=float(gnp.max()),
                        finite=bool(np.isfinite(gnp).all()))
    tot = np.array(rec["tot"])
    delta = np.array(rec["delta"])
    nrm = np.array(rec["norm"])
    acts = np.array(rec["act"])
    nacc = np.zeros(B, int)
    for e in dyn.hop_log:
        if e.accepted:
            nacc[int(e.mol_index)] += 1
            acc.count("tully_hops_accepted")
        else:
            acc.count("tully_hops_frustrated")
    acc.cells.add("tully/%s/dt%g" % (case["model"], dt))
    if np.any(acts != acts[:, :1]):
        acc.cells.add("tully/mixed-active-states-in-batch")
        acc.count("tully_steps_with_mixed_active_states", int(np.any(acts != acts[:, :1], axis=1).sum()))
    for j in hop_jump[:3]:
        acc.violate("tully-hop-conserves-energy-exactly", None, model=case["model"], **j)
    for b in range(B):
        mechs = force_mech[b]
        if mechs:
            mech = MECH_TULLY_ROW0 if MECH_TULLY_ROW0 in mechs else (MECH_TULLY_GRAD if MECH_TULLY_GRAD in mechs else None)
            if mechs == {MECH_TULLY_GRAD} or mechs == {MECH_TULLY_ROW0} or mechs == {MECH_TULLY_GRAD, MECH_TULLY_ROW0}:
                pass
            else:
                mech = None
            acc.violate("tully-applied-force-is-gradient-of-active-surface", mech, model=case["model"], row=b,
                        mechanisms=sorted(mechs), witnesses=[w for w in rec.get("force_wit", []) if w["row"] == b][:2])
        drift = float(np.abs(tot[:, b] - E_init[b]).max())
        bound = 10.0 * (1 + nacc[b]) * float(delta[:, b].max()) + 1e-9
        if acc.margin("tully_energy_drift", drift, bound):
            if mechs and "unclassified" not in mechs:
                mech = MECH_TULLY_ROW0 if MECH_TULLY_ROW0 in mechs else MECH_TULLY_GRAD
            else:
                mech = None
            acc.violate("tully-total-energy-constant", mech, model=case["model"], row=b, drift=drift, bound=bound,
                        accepted_hops=int(nacc[b]), dt=dt, x0=float(x0[b]), v0=float(v0[b]), mass=mass)
        nb = 1e-12 * steps + 1e-10
        if acc.margin("tully_norm", float(nrm[:, b].max()), nb):
            acc.violate("tully-norm", None, row=b, err=float(nrm[:, b].max()), bound=nb)
    acc.obs.update({"steps": steps, "hops": [(int(e.step), int(e.mol_index), int(e.from_state), int(e.to_state), bool(e.accepted))
                                             for e in dyn.hop_log][:8],
                    "max_drift": float(np.abs(tot - E_init[None, :]).max()), "max_norm_err": float(nrm.max())})
    return acc.result(True)


# =======================================================================================================
def _run_selftest(case):
    from vlib.ref import tdse

    out = tdse.selftest()  # raises on failure -> harness error, never a verdict
    hbar, K, ACC = _consts()
    return {"nontrivial": False, "monitors": {"r3_selftest_passed": 1},
            "obs": {"r3": {k: (float(v) if np.isscalar(v) else [float(x) for x in v]) for k, v in out.items()},
                    "hbar_repo_vs_codata": hbar / tdse.HBAR_EV_FS - 1.0, "K_repo_vs_codata": K / tdse.AMU_A2_FS2_IN_EV - 1.0}}


def run_case(case):
    _install_monitors()
    if _MON["error"]:
        return {"inconclusive": _MON["error"]}
    kind = case["kind"]
    if kind == "prop":
        return _run_prop(case)
    if kind == "hopfreq":
        return _run_hopfreq(case)
    if kind == "rescale":
        return _run_rescale(case)
    if kind == "after":
        return _run_after(case)
    if kind == "afterseq":
        return _run_afterseq(case)
    if kind == "hold1":
        return _run_hold1(case)
    if kind == "init":
        return _run_init(case)
    if kind == "tully":
        return _run_tully(case)
    if kind == "selftest":
        return _run_selftest(case)
    return {"harness_error": "unknown case kind %r" % kind}


def summarize(cases, results, report):
    kinds = {}
    for c, r in zip(cases, results):
        if r and not r.get("skipped") and not r.get("harness_error") and not r.get("inconclusive"):
            kinds[c.get("kind", "?")] = kinds.get(c.get("kind", "?"), 0) + 1
    return {"cases_by_kind": kinds}
