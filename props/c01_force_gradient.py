"""C01 — the returned force is minus the gradient of the RETURNED total energy; the three force
evaluators agree; padding atoms get exactly zero force.

Oracle: finite-difference derivative of the reported quantity.  For every case the real
`Electronic_Structure.forward` is run once per force evaluator on a (possibly batched / zero-padded)
input, and the returned `force` of a checked row is compared, direction by direction, with a two-level
Richardson central difference of the returned `Etot` (steps 4e-3, 2e-3, 1e-3 A; the disagreement of the
two first-level extrapolants is the difference quotient's own error estimate and is used as an
eligibility guard against non-smooth energy).  Evaluators are compared pairwise on the same SCF point,
and rows of `force` that belong to padding atoms must compare equal to 0.0."""
import contextlib
import math
import os

import numpy as np

from vlib import gen

PROPERTY = "C01"
RULE = ("case = (library molecule or element-pair diatomic, distortion/distance, generic or axis-aligned orientation, "
        "method, SCF converger, SP2, spin/charge, active state, batch layout, list of force evaluators); non-trivial when "
        "at least one converged row had >= 1 direction whose Richardson difference quotient of the returned Etot passed "
        "its own smoothness/convergence guards and was compared with the returned force; distinct by SHA-1 of the case")
ASSUMPTIONS = [
    "float64 CPU, one torch thread",
    "scf_eps 1e-11 (excited: CIS/RPA tolerance 1e-9) so that the noise of the difference quotient (<= 1e-10 eV / 1e-3 A) "
    "is far below the 5e-6 eV/A bound",
    "difference-quotient energies are the Etot values returned by Electronic_Structure.forward(molecule, do_force=False) "
    "(public energy-only path) for a homogeneous batch of displaced copies of the checked molecule under the same "
    "settings (ground state: the reverse-mode settings, the energy does not depend on the evaluator; excited states: the "
    "settings of the evaluator under test, because the excitation energy is assembled differently); the centre point "
    "of that batch must reproduce the "
    "Etot of the call under test to 1e-8 eV, otherwise the row is inconclusive (layout dependence of the energy is C05's "
    "subject, evaluator dependence of the energy is checked here as a guard)",
    "SP2 cells: force from the SP2 run, difference quotient from the diagonalisation path, bound widened by 1e3 * the "
    "SP2 tolerance as clamped by the code to [1e-7, 1e-3]",
    "a direction is compared only when all six displaced runs converged and the two first-level Richardson extrapolants "
    "agree to 5e-7 + 1e-7|D| eV/A and the second differences through the centre energy agree between the widest and the "
    "narrowest step to 1 eV/A^2 + 2% (a jump or kink of the returned energy inside the stencil - e.g. the 1e-6 eV jump "
    "where the overlap routine switches branch at |x|=0.5, another UHF solution on some displaced point, the energy error "
    "inside the x-pole cone - makes -dE/dx undefined there; such directions are counted as fd_dirs_not_smooth, never as "
    "support or violation; an undetected jump can contribute at most ~2x the admitted estimate, i.e. 0.2 of the bound)",
    "excited-state cells are compared only when the active root is >= 0.2 eV from its neighbours at x and keeps its "
    "identity (|dE_k| <= 0.05 eV, neighbours >= 0.1 eV away) at every displaced point",
    "bounds: |F.d + dE/ds| <= 5e-6 + 1e-6|F.d| for reverse-mode differentiation; the analytical and semi-numerical "
    "evaluators differentiate the overlaps (semi-numerical: all integrals) by an inner central difference of "
    "anal_grad.delta = 1e-5 A, which amplifies the overlap routine's round-off noise (<= 8e-12, measured over the whole "
    "pair matrix just above its |x|=0.5 branch switch) by 1/delta: they get the extra allowance "
    "4 * 8e-12 * max(|beta_A|+|beta_B|) / delta (3e-5 .. 4e-4 eV/A depending on the elements)",
    "mechanism classifier `analytical-missing-hpp-floor` re-runs the analytical evaluator with hpp clamped at 0.1 eV inside "
    "anal_grad.w_der (monkey-patch in the worker, nothing on disk) and requires that this removes the discrepancy "
    "(the defect itself was repaired in /repo commit 3571779; the classifier stays so that a regression is named)",
    "mechanism classifier `pair-on-x-pole` is geometric: some pair vector involving a non-hydrogen atom of the checked row "
    "within 4.6e-4 rad of +x or -x at the geometry the force was evaluated at",
]
REQUIRED_MONITORS = ["fd_dirs_compared", "evaluator_pairs_compared", "padding_rows_checked", "excited_dirs_compared",
                     "axis_aligned_dirs_compared", "sp2_dirs_compared", "dispersion_dirs_compared", "exact_x_axis_dirs_compared",
                     "finite_checks", "cg_batches_with_uneven_iterations", "batch_vs_alone_rows_compared",
                     "reeval_calls_compared", "allforces_slots_compared", "excited_analytical_rows_in_padded_homog_batch"]
CASE_TIMEOUT = 600.0
BUDGET_S = {"quick": float(os.environ.get("VERIF_BUDGET_QUICK", 200)), "thorough": float(os.environ.get("VERIF_BUDGET_THOROUGH", 1700))}

HS = (4e-3, 2e-3, 1e-3)
TOL_ABS = 5e-6
TOL_REL = 1e-6
TOL_EVAL = 5e-6
# Evaluators with an inner difference step ("analytical": overlap and PM6_SP core-core derivatives; "numerical": all
# integral derivatives) differentiate the beta-weighted overlap by a central difference of step anal_grad.delta
# (1e-5 A).  The overlap routine's auxiliary B-integral recursion carries round-off noise of up to ETA_S just above
# its |x| = 0.5 branch switch (measured over the whole element-pair matrix of all four tables: worst 7.4e-12, third-row
# pairs), which the inner step amplifies by 1/delta.  Allowance: INNER_K * ETA_S * max_pairs(|beta|_A + |beta|_B) / delta.
ETA_S = 8e-12
INNER_K = 4.0
EST_ABS = 5e-7
EST_REL = 1e-7
CURV_ABS = 1.0      # eV/A^2
CURV_REL = 0.02
E0_GUARD = 1e-8
SCF_EPS = 1e-11
CIS_TOL = 1e-9
SP2_MIN, SP2_MAX = 1e-7, 1e-3

RC = {1: 0.31, 3: 1.28, 4: 0.96, 5: 0.84, 6: 0.76, 7: 0.71, 8: 0.66, 9: 0.57, 11: 1.66, 12: 1.41,
      13: 1.21, 14: 1.11, 15: 1.07, 16: 1.05, 17: 1.02}
EXCITED_POOL = ["CH2O", "C2H4", "H2O", "NH3", "HCN", "CH3OH", "HCOOH", "CO", "N2", "HNO", "CH3F", "H2S", "CO2",
                "C2H2", "HF", "CH4"]
METHODS = ["MNDO", "AM1", "PM3", "PM6_SP"]
ALL_MODES = ["autodiff", "analytical", "numerical"]
CONVERGERS = [[2], [1], [0, 0.3], [0, 0.1], [0, 0.5]]


# ---------------------------------------------------------------------------------------
# workload
# ---------------------------------------------------------------------------------------
def _pairs(method):
    el = gen.ELEMENTS[method]
    return [(a, b) for i, a in enumerate(el) for b in el[: i + 1]]


def _pair_case(g, method, a, b, scale, orient, modes=None, conv=None, uhf=None):
    nel = gen.VALENCE[a] + gen.VALENCE[b]
    if uhf is None:
        uhf = False
    if nel % 2 == 1:
        charge, mult = (0, 2) if uhf else (1, 1)
    else:
        norb = sum(4 if z > 1 else 1 for z in (a, b))
        trip = uhf and nel >= 4 and (nel + 2) // 2 < norb and int(g.integers(0, 3)) == 0   # needs an alpha virtual
        charge, mult = (0, 3) if trip else (0, 1)
    if nel - charge < 2:           # H2+ like: keep two electrons
        charge, mult, uhf = 0, 1, False
    d = max(0.65, scale * (RC[a] + RC[b]))
    if conv is None:
        conv = [1] if uhf else CONVERGERS[int(g.integers(0, 3))]
    if uhf and conv[0] == 2:
        conv = [1]
    return {"kind": "pair", "pair": [max(a, b), min(a, b)], "dist": round(float(d), 6), "charge": charge, "mult": mult,
            "uhf": bool(uhf), "method": method, "conv": conv, "sp2": None, "modes": modes or list(ALL_MODES),
            "orient": orient, "layout": "single", "seed": int(g.integers(0, 2**31))}


def _orient_generic():
    return {"kind": "generic"}


CONES_QUICK = (0.0, 0.0, 1e-6, 1e-4, 1e-3, 1e-2)
CONES_THOROUGH = (0.0, 1e-10, 1e-8, 1e-6, 1e-4, 6e-4, 1e-3, 1e-2)   # 4.47e-4 rad is the edge of the frozen-frame cone


def _orient_axis(g, axis=None, cone=None, cones=CONES_QUICK):
    axes = list(gen.AXES)
    return {"kind": "align", "axis": axis or axes[int(g.integers(0, 6))],
            "cone": float(cones[int(g.integers(0, len(cones)))] if cone is None else cone),
            "seed": int(g.integers(0, 2**31))}


def _lib_case(g, tier, method=None, name=None, orient=None, layout=None, sp2=None, modes=None, conv=None, sigma=None):
    method = method or METHODS[int(g.integers(0, 4))]
    pool = gen.names_for(method)
    big = ("C6H6", "C2H6", "CH3NH2", "CH3SH", "PCl3", "AlCl3", "SiH3Cl")
    if tier == "quick":
        pool = [n for n in pool if n not in big]
    name = name or pool[int(g.integers(0, len(pool)))]
    Z, X, q, m = gen.molecule(name)
    uhf = m != 1
    if not uhf and q == 0 and int(g.integers(0, 12)) == 0:
        uhf = True                      # UHF on a closed-shell singlet
    if conv is None:
        conv = CONVERGERS[int(g.integers(0, len(CONVERGERS)))]
    if uhf and conv[0] == 2:
        conv = [1] if int(g.integers(0, 2)) else [0, 0.3]
    if layout is None:
        layout = ["single", "single", "single", "homog", "padded"][int(g.integers(0, 5))]
    if sp2 is None and not uhf and int(g.integers(0, 7)) == 0:
        sp2 = [1e-5, 1e-7, 1e-9][int(g.integers(0, 3))]
    if uhf:
        sp2 = None
    if orient is None:
        orient = _orient_generic() if int(g.integers(0, 4)) else \
            _orient_axis(g, cones=CONES_QUICK if tier == "quick" else CONES_THOROUGH)
    case = {"kind": "lib", "mol": name, "method": method, "conv": conv, "sp2": sp2 or None, "uhf": bool(uhf),
            "modes": modes or list(ALL_MODES), "orient": orient, "layout": layout,
            "sigma": float(sigma if sigma is not None else [0.03, 0.08, 0.15][int(g.integers(0, 3))]),
            "seed": int(g.integers(0, 2**31))}
    if layout == "homog":
        case["nrows"] = int(g.integers(2, 5))
    if layout == "padded":
        mates_pool = [n for n in gen.names_for(method, gen.CLOSED_NEUTRAL + gen.IONS) if n not in big and n != name]
        if uhf:
            mates_pool += [n for n in gen.names_for(method, gen.RADICALS) if n != name]
        if sp2:
            # SP2 + zero-padded batch + anion is the non-terminating call of DESIGN 7 row 4 (C03's subject): not generated
            mates_pool = [n for n in mates_pool if gen.molecule(n)[2] >= 0]
            if q < 0:
                case["sp2"] = None
        k = int(g.integers(1, 4))
        case["mates"] = [mates_pool[int(i)] for i in g.permutation(len(mates_pool))[:k]]
        case["extra_pad"] = int(g.integers(0, 3))
        case["pad_value"] = [0.0, 0.0, "random", 1e3][int(g.integers(0, 4))]
        case["target_pos"] = int(g.integers(0, k + 1))
    return case


def _excited_case(g, tier, method=None, name=None, xmethod=None, layout=None):
    method = method or ["AM1", "PM3", "MNDO", "PM6_SP"][int(g.integers(0, 4))]
    pool = [n for n in EXCITED_POOL if gen.available(n, method)]
    name = name or pool[int(g.integers(0, len(pool)))]
    xm = xmethod or ["cis", "rpa"][int(g.integers(0, 2))]
    Z = gen.molecule(name)[0]
    norb = sum(4 if z > 1 else 1 for z in Z)
    nocc = sum(gen.VALENCE[z] for z in Z) // 2
    nov = nocc * (norb - nocc)
    active = int(g.integers(1, max(2, min(4, nov - 1))))
    layout = layout or ["single", "single", "homog"][int(g.integers(0, 3))]
    case = {"kind": "lib", "mol": name, "method": method, "conv": [[2], [1], [0, 0.3]][int(g.integers(0, 3))], "sp2": None,
            "uhf": False, "modes": ["analytical", "autodiff-scfb1"], "orient": _orient_generic(), "layout": layout,
            "sigma": 0.05, "seed": int(g.integers(0, 2**31)),
            "excited": {"method": xm, "n_states": min(active + 2, nov), "active": active}}
    if layout == "homog":
        case["nrows"] = 2
    return case


def gen_cases(tier, seed):
    g = gen.rng("C01", tier)
    cases = []
    quick = tier == "quick"
    # ---- lattice samples over the library (expensive ones first) -------------------------
    n_lib = 60 if quick else 2500
    n_exc = 12 if quick else 220
    lib = []
    for _ in range(n_exc):
        lib.append(_excited_case(g, tier))
    for _ in range(n_lib):
        lib.append(_lib_case(g, tier))
    # named hostile cells that must be present in every run (axis-aligned heavy-atom bonds; hpp-floor elements)
    for name, method in (("SO2", "AM1"), ("CH3OH", "AM1"), ("HNO", "PM3"), ("CH3Cl", "PM3"), ("CH3F", "PM6_SP"),
                         ("NaCl", "MNDO"), ("CH2O", "MNDO")):
        for axis in ("+x", "-x", "+z"):
            lib.append(_lib_case(g, tier, method=method, name=name, orient=_orient_axis(g, axis=axis, cone=0.0),
                                 layout="single", conv=[2], sigma=0.05))
        lib.append(_lib_case(g, tier, method=method, name=name, orient=_orient_generic(), layout="single", conv=[2],
                             sigma=0.05))
    # molecules whose library geometry lies EXACTLY on the x axis, undistorted, in both senses (for i < j in the
    # species-sorted order R_j - R_i is exactly along -x for some pairs and +x for others; the flip exchanges them),
    # plus distorted molecules with one chosen pair exactly on -x / +x in both atom orders
    for k, (name, method) in enumerate((("CO2", "AM1"), ("N2", "PM3"), ("HCN", "MNDO"), ("C2H2", "PM6_SP"), ("CO", "AM1"),
                                        ("BeH2", "PM3"), ("N2O", "MNDO"), ("HF", "PM3"))):
        if quick and k >= 5:
            break
        for flip in (False, True):
            c = _lib_case(g, tier, method=method, name=name, orient={"kind": "asis", "flip": flip}, layout="single",
                          conv=[2], sigma=0.0, sp2=False)
            c["sp2"] = None
            lib.append(c)
    for name, method, pr in (("CO2", "PM3", [0, 1]), ("CO2", "PM3", [1, 0]), ("CH2O", "AM1", [0, 1]), ("CH2O", "AM1", [1, 0]),
                             ("HCN", "AM1", [0, 2]), ("HCN", "AM1", [2, 0])):
        for axis in ("-x", "+x"):
            if quick and axis == "+x" and name != "CO2":
                continue
            c = _lib_case(g, tier, method=method, name=name, layout="single", conv=[2], sigma=0.05, sp2=False,
                          orient={"kind": "align", "axis": axis, "cone": 0.0, "seed": int(g.integers(0, 2**31)), "pair": pr})
            c["sp2"] = None
            lib.append(c)
    for name in ("NH4+", "OH-", "CH3.", "O2t", "H2O+.", "CN-"):
        for method in ("AM1", "PM3"):
            lib.append(_lib_case(g, tier, method=method, name=name, orient=_orient_generic(), layout="single"))
    lib.append(_lib_case(g, tier, method="AM1", name="H2O", layout="padded", orient=_orient_generic()))
    lib.append(_lib_case(g, tier, method="PM3", name="NH4+", layout="padded", orient=_orient_generic()))
    lib.append(_lib_case(g, tier, method="MNDO", name="CH3.", layout="padded", orient=_orient_generic()))
    lib.append(_lib_case(g, tier, method="AM1", name="CH2O", layout="homog", sp2=1e-7, orient=_orient_generic(), conv=[2]))
    # AM1 with the empirical dispersion term switched on (AM1-FS1): the pair term only acts beyond ~2.2-3.2 A, so it needs
    # dimers / larger molecules; all three evaluators
    disp = [[("C6H6", None, None)], [("CH4", "CH4", 3.8)], [("H2O", "H2O", 3.2)], [("CH4", "H2O", 4.5), ("C6H6", None, None)]]
    if not quick:
        disp += [[("CH4", "CH4", 3.2)], [("CH4", "CH4", 5.0)], [("H2O", "H2O", 4.0)], [("C2H4", "C2H4", 3.8)],
                 [("NH3", "H2O", 3.5)], [("C2H6", None, None)], [("CH3OH", "CH4", 4.0), ("H2O", "H2O", 3.0)],
                 [("C6H6", "CH4", 4.5)]]
    # distance scan of dimers THROUGH the damping switch S_R (R0_i + R0_j) of one pinned pair (the switch is 0.003 A
    # wide; the difference quotient is not smooth there and is skipped by its own guards, the pairwise comparison of the
    # evaluators is the deciding clause inside the window, the quotient in its tails)
    sw = {"CC": ("CH4", "CH4", 1.1058892 * 2.904, 0, 0), "CH": ("CH4", "H2", 1.1058892 * 2.453, 0, 0),
          "HH": ("H2", "H2", 1.1058892 * 2.002, 0, 0)}
    offs = (-0.012, 0.003, 0.02) if quick else tuple(np.round(np.arange(-0.06, 0.0601, 0.01), 3)) + (-0.005, -0.002, 0.002, 0.005)
    for key, (a, b, r0, ia, ib) in sw.items():
        for off in offs:
            lib.insert(0, {"kind": "dimer", "dimers": [(a, b, round(float(r0 + off), 5), ia, ib)], "method": "AM1", "conv": [2],
                           "sp2": None, "uhf": False, "modes": list(ALL_MODES), "orient": _orient_generic(), "dispersion": True,
                           "layout": "single", "seed": int(g.integers(0, 2**31)), "switch": key, "offset": float(off)})
    # homogeneous excited-state batches with deliberately UNEVEN distortion (z-vector CG iteration counts differ)
    cgb = [("CH2O", "AM1", "cis", 1), ("C2H4", "PM3", "rpa", 1), ("H2O", "MNDO", "cis", 2)]
    if not quick:
        cgb += [("CH2O", "PM3", "rpa", 2), ("NH3", "AM1", "cis", 1), ("HCN", "AM1", "cis", 1), ("CH3OH", "AM1", "cis", 1),
                ("C2H4", "MNDO", "cis", 2), ("HNO", "PM3", "rpa", 1), ("CH2O", "PM6_SP", "cis", 1), ("H2S", "PM3", "cis", 1)]
    for name, method, xm, act in cgb:
        lib.insert(0, {"kind": "cgbatch", "mol": name, "method": method, "conv": [2], "sp2": None, "uhf": False,
                       "modes": ["analytical"], "orient": _orient_generic(), "layout": "homog",
                       "sigmas": [0.0, 0.03, 0.1, 0.15] if not quick or name == "CH2O" else [0.0, 0.1, 0.15],
                       "excited": {"method": xm, "n_states": act + 2, "active": act}, "seed": int(g.integers(0, 2**31))})
    # excited-state analytical gradient in a HOMOGENEOUS batch whose species rows carry trailing zero-padding columns
    for name, method, xm, act, mode, nr, xp in ((("CH2O", "AM1", "cis", 1, "analytical", 2, 1), ("H2O", "PM3", "rpa", 1, "analytical", 3, 2),
                                                 ("CH2O", "MNDO", "cis", 2, "autodiff", 2, 1)) if quick else
                                                (("CH2O", "AM1", "cis", 1, "analytical", 2, 1), ("H2O", "PM3", "rpa", 1, "analytical", 3, 2),
                                                 ("CH2O", "MNDO", "cis", 2, "autodiff", 2, 1), ("C2H4", "PM3", "cis", 1, "analytical", 3, 1),
                                                 ("HCN", "AM1", "rpa", 2, "analytical", 2, 3), ("NH3", "PM6_SP", "cis", 1, "autodiff", 3, 2))):
        lib.insert(0, {"kind": "lib", "mol": name, "method": method, "conv": [2], "sp2": None, "uhf": False,
                       "modes": [mode], "orient": _orient_generic(), "layout": "homog", "nrows": nr, "extra_pad": xp,
                       "pad_value": 0.0, "sigma": 0.08, "alone": True, "seed": int(g.integers(0, 2**31)),
                       "excited": {"method": xm, "n_states": act + 2, "active": act}})
    # repeated evaluations of ONE Molecule object (what MD / optimisers do) with excited-state reverse-mode forces
    rev = [(["CH2O"], "AM1", "cis", 1, 1), (["CH2O"], "PM3", "rpa", 1, 1), (["CH2O", "H2O"], "AM1", "cis", 1, 1),
           (["C2H4", "C2H4"], "MNDO", "cis", 1, 2)]
    if not quick:
        rev += [(["HNO"], "PM3", "cis", 2, 1), (["CH3OH"], "AM1", "rpa", 1, 1), (["HCN", "CH2O", "NH3"], "PM3", "cis", 1, 1),
                (["HCOOH"], "AM1", "cis", 1, 2), (["CH2O", "CH2O", "CH2O"], "PM6_SP", "rpa", 2, 1), (["H2S"], "PM3", "cis", 1, 1)]
    for names, method, xm, act, scfb in rev:
        lib.insert(0, {"kind": "reeval", "mols": names, "method": method, "conv": [2] if scfb == 1 else [1], "sp2": None,
                       "uhf": False, "modes": ["autodiff-scfb%d" % scfb], "orient": _orient_generic(),
                       "layout": "single" if len(names) == 1 else ("homog" if len(set(names)) == 1 else "padded"),
                       "excited": {"method": xm, "n_states": act + 2, "active": act}, "ncalls": 3, "kick": 0.02,
                       "seed": int(g.integers(0, 2**31))})
    # do_all_forces: slot i of molecule.all_forces vs a separate run with active_state = i (and its difference quotient)
    for name, method, xm, act0 in ((("CH2O", "AM1", "cis", 0), ("CH2O", "AM1", "cis", 2), ("C2H4", "PM3", "rpa", 1)) if quick else
                                   (("CH2O", "AM1", "cis", 0), ("CH2O", "AM1", "cis", 2), ("C2H4", "PM3", "rpa", 1),
                                    ("H2O", "MNDO", "cis", 0), ("HCN", "AM1", "cis", 3), ("NH3", "PM6_SP", "cis", 1))):
        lib.insert(0, {"kind": "allforces", "mol": name, "method": method, "conv": [2], "sp2": None, "uhf": False,
                       "modes": ["analytical"], "orient": _orient_generic(), "layout": "homog", "nrows": 2,
                       "excited": {"method": xm, "n_states": 3, "active": act0}, "seed": int(g.integers(0, 2**31))})
    for dm in disp:
        for conv in ([[2]] if quick else [[2], [1]]):
            lib.insert(0, {"kind": "dimer", "dimers": dm, "method": "AM1", "conv": conv, "sp2": None, "uhf": False,
                           "modes": list(ALL_MODES), "orient": _orient_generic(), "dispersion": True,
                           "layout": "single" if len(dm) == 1 else "padded", "seed": int(g.integers(0, 2**31))})
    # ---- element-pair matrix ---------------------------------------------------------------
    pairs = []
    scales = (0.85, 1.0, 1.35)
    for method in METHODS:
        for k, (a, b) in enumerate(_pairs(method)):
            odd = (gen.VALENCE[a] + gen.VALENCE[b]) % 2 == 1
            if quick:
                sc = scales[int(g.integers(0, 3))]
                uhf = (k % 6 == 0)
                pairs.append(_pair_case(g, method, a, b, sc, _orient_generic(), uhf=uhf,
                                        conv=([[1], [0, 0.3]][int(g.integers(0, 2))] if uhf else None),
                                        modes=(None if k % 2 == 0 else ["autodiff", "analytical"])))
                if k % 16 == int(g.integers(0, 16)):
                    pairs.append(_pair_case(g, method, a, b, scales[int(g.integers(0, 3))], _orient_axis(g), uhf=False))
            else:
                for si, sc in enumerate(scales):
                    pairs.append(_pair_case(g, method, a, b, sc, _orient_generic(), uhf=(odd and si == 1) or (k + si) % 5 == 0))
                    pairs.append(_pair_case(g, method, a, b, sc, _orient_axis(g, cones=CONES_THOROUGH),
                                            uhf=(k + si) % 7 == 0))
    if quick:
        # slow converging open-shell diatomics first, so that they do not form the tail of the run
        pairs.sort(key=lambda c: 0 if c["uhf"] else 1)
    cases = lib + pairs
    if not quick:
        # the excited-state cases (most expensive) stay in front; the rest is interleaved so that a run cut short by the
        # time budget still samples the pair matrix and the lattice evenly
        head, tail = cases[:n_exc], cases[n_exc:]
        cases = head + [tail[int(i)] for i in g.permutation(len(tail))]
    for c in cases:
        c["tier"] = tier
    return cases


# ---------------------------------------------------------------------------------------
# helpers (worker side)
# ---------------------------------------------------------------------------------------
def _sp2_eff(tol):
    return min(SP2_MAX, max(SP2_MIN, float(tol)))


def _settings(case, mode, sp2=True):
    from vlib import run
    exc = case.get("excited")
    excited = None
    active = 0
    if exc:
        excited = {"n_states": int(exc["n_states"]), "tolerance": CIS_TOL, "method": exc["method"]}
        active = int(exc["active"])
    scfb = 0
    grad = mode
    if mode.startswith("autodiff-scfb"):
        scfb = int(mode[-1])
        grad = "autodiff"
    return run.settings(case["method"], eps=SCF_EPS, converger=tuple(case["conv"]),
                        sp2=(case.get("sp2") if sp2 else None), uhf=bool(case.get("uhf")), grad=grad,
                        excited=excited, active_state=active, scf_backward=scfb,
                        extra=({"dispersion": True} if case.get("dispersion") else None))


def _orient(X, orient, g, Z):
    X = np.asarray(X, float)
    if orient["kind"] == "asis":
        return X * np.array([-1.0, -1.0, 1.0]) if orient.get("flip") else X.copy()
    if orient["kind"] == "generic":
        return X @ gen.generic_rotation(X, g).T
    go = np.random.default_rng(orient["seed"])
    bonds = gen.bonded_pairs(Z, X) or [(0, 1)]
    heavy = [b for b in bonds if Z[b[0]] > 1 and Z[b[1]] > 1]
    pick = heavy if (heavy and go.integers(0, 4) > 0) else bonds
    i, j = pick[int(go.integers(0, len(pick)))]
    if go.integers(0, 2):
        i, j = j, i
    if orient.get("pair") is not None:
        i, j = orient["pair"]
    R = gen.align_pair(X, i, j, orient["axis"], cone=orient["cone"], g=go)
    Y = X @ R.T
    if orient["cone"] == 0.0:
        # EXACT alignment: R_j - R_i has its two transverse components equal to 0.0 bitwise (the rotation alone leaves
        # 1e-16), so that the unit pair vector is exactly +-e_axis (1 + v_x == 0.0 on -x); atom j moves by <= 1e-15 A
        a = "xyz".index(orient["axis"][1])
        for c in range(3):
            if c != a:
                Y[j, c] = Y[i, c]
    return Y


def make_dimer(name_a, name_b, dist, g, sigma=0.03, pin=None):
    """two library molecules, each distorted and randomly oriented, centres `dist` A apart (or, with pin=(ia, ib), atom
    ia of the first and atom ib of the second exactly `dist` A apart); atoms sorted by Z."""
    Za, Xa, _, _ = gen.molecule(name_a)
    Zb, Xb, _, _ = gen.molecule(name_b)
    for _ in range(100):
        A = gen.distort(Xa, g, sigma=sigma) @ gen.haar(g).T
        B = gen.distort(Xb, g, sigma=sigma) @ gen.haar(g).T
        u = g.normal(size=3)
        u /= np.linalg.norm(u)
        A = A - A.mean(axis=0)
        B = B - B.mean(axis=0) + dist * u
        if pin is not None:
            B = B - B[pin[1]] + A[pin[0]] + dist * u
        dmin = np.linalg.norm(A[:, None, :] - B[None, :, :], axis=-1).min()
        if dmin >= (1.6 if pin is None else min(1.6, dist - 1e-9)):
            break
    Z = list(Za) + list(Zb)
    X = np.vstack([A, B])
    order = sorted(range(len(Z)), key=lambda i: -Z[i])
    X = X[order]
    X = X @ gen.generic_rotation(X, g).T
    return [Z[i] for i in order], X


def build_rows(case):
    """-> list of rows (Z, X, charge, mult), index list of rows to difference, species/coords of the batch."""
    g = np.random.default_rng(case["seed"])
    rows = []
    if case["kind"] == "dimer":
        for dm in case["dimers"]:
            a, b, d = dm[:3]
            if b is None:
                Z, X0, _, _ = gen.molecule(a)
                X = gen.distort(X0, g, sigma=0.03)
                X = X @ gen.generic_rotation(X, g).T
            else:
                Z, X = make_dimer(a, b, d, g, pin=(dm[3], dm[4]) if len(dm) > 3 else None)
            rows.append((Z, X + g.uniform(-3, 3, 3), 0, 1))
        return rows, list(range(len(rows)))[:2]
    if case["kind"] == "pair":
        a, b = case["pair"]
        Z, X = gen.diatomic(a, b, case["dist"])
        X = X + g.normal(0, 1.0, 3)           # not at the origin
        X = _orient(X, case["orient"], g, Z)
        rows.append((Z, X, case["charge"], case["mult"]))
        return rows, [0]
    Z, X0, q, m = gen.molecule(case["mol"])
    m_eff = m
    layout = case["layout"]
    n = case.get("nrows", 1) if layout == "homog" else 1
    for _ in range(n):
        X = gen.distort(X0, g, sigma=case["sigma"])
        X = _orient(X, case["orient"], g, Z)
        rows.append((Z, X + g.uniform(-3, 3, 3), q, m_eff))
    check = [0] if n == 1 else [0, n - 1]
    if layout == "padded":
        mates = []
        for name in case["mates"]:
            Zm, Xm, qm, mm = gen.molecule(name)
            Xm = gen.distort(Xm, g, sigma=0.05)
            Xm = Xm @ gen.generic_rotation(Xm, g).T
            mates.append((Zm, Xm + g.uniform(-3, 3, 3), qm, mm))
        pos = case.get("target_pos", 0)
        rows = mates[:pos] + rows + mates[pos:]
        check = [pos] + [k for k in range(len(rows)) if k != pos][:1]
    return rows, check


def _batch_arrays(case, rows):
    if len(rows) == 1:
        Z, X, q, m = rows[0]
        return [Z], np.asarray([X]), [q], [m]
    g = np.random.default_rng(case["seed"] + 17)
    S, C = gen.pad_batch([(r[0], r[1]) for r in rows], extra_pad=case.get("extra_pad", 0),
                         pad_value=case.get("pad_value", 0.0), g=g)
    return S, np.asarray(C, float), [r[2] for r in rows], [r[3] for r in rows]


def _directions(case, Z, X, g):
    n = len(Z)
    dirs, labels = [], []
    quick_pair = case["kind"] == "pair" and case.get("tier") == "quick"
    if 3 * n <= 12:
        # quick-tier diatomics: Cartesian components of atom 0 only; atom 1 enters through the bond-stretch and
        # bond-rotate directions below (5 directions instead of 8)
        for a in range(1 if quick_pair else n):
            for c in range(3):
                d = np.zeros((n, 3))
                d[a, c] = 1.0
                dirs.append(d)
                labels.append("cart:%d:%s" % (a, "xyz"[c]))
        nrand, nloc = 0, 0          # the full Cartesian gradient is differenced: random directions add nothing
    else:
        nrand, nloc = 3, 3
    for k in range(nrand):
        d = g.normal(size=(n, 3))
        dirs.append(d / np.linalg.norm(d))
        labels.append("random:%d" % k)
    for k in range(nloc):
        d = np.zeros((n, 3))
        a = int(g.integers(0, n))
        v = g.normal(size=3)
        d[a] = v / np.linalg.norm(v)
        dirs.append(d)
        labels.append("atom:%d" % a)
    if case["kind"] == "pair":
        b = X[1] - X[0]
        b = b / np.linalg.norm(b)
        d = np.zeros((2, 3))
        d[0], d[1] = -b / math.sqrt(2), b / math.sqrt(2)
        dirs.append(d)
        labels.append("bond-stretch")
        p = np.cross(b, np.eye(3)[int(np.argmin(np.abs(b)))])
        p /= np.linalg.norm(p)
        d = np.zeros((2, 3))
        d[0], d[1] = -p / math.sqrt(2), p / math.sqrt(2)
        dirs.append(d)
        labels.append("bond-rotate")
    return dirs, labels


def fd_energy_derivatives(Z, X, q, m, sett, dirs, excited=None):
    """Two-level Richardson central differences of the returned Etot along `dirs`.
    -> dict(E0, D[k], est[k], ok[k] (all six runs converged and state identity kept), evals)"""
    from vlib import run
    geoms = [X]
    for d in dirs:
        for h in HS:
            geoms.append(X + h * d)
            geoms.append(X - h * d)
    # energies only: the public `do_force=False` path of Electronic_Structure.forward (no gradient work at all for
    # the reverse-mode settings); the centre row is compared with the Etot of the call under test by the caller
    with run.quiet():
        mol, es, _ = run.build([Z] * len(geoms), np.stack(geoms), sett, q, m)
        es(mol, do_force=False)
    out = {"Etot": run.npy(mol.Etot), "notconverged": run.npy(getattr(es, "notconverged", None)),
           "cis_energies": run.npy(getattr(mol, "cis_energies", None))}
    del mol, es
    E = out["Etot"]
    nc = out["notconverged"]
    nc = np.zeros(len(geoms), bool) if nc is None else np.asarray(nc, bool).reshape(-1)
    D, est, ok, curv = [], [], [], []
    ce = out.get("cis_energies")
    for k in range(len(dirs)):
        sl = slice(1 + 6 * k, 7 + 6 * k)
        e = E[sl]
        dq = [(e[2 * i] - e[2 * i + 1]) / (2 * HS[i]) for i in range(3)]
        r1 = (4 * dq[1] - dq[0]) / 3
        r2 = (4 * dq[2] - dq[1]) / 3
        D.append((16 * r2 - r1) / 15)
        est.append(abs(r2 - r1))
        # second differences through the CENTRE energy (the one tied to the call under test): on one smooth surface
        # they agree up to h^2 * E4 / 12; displaced points that sit on another SCF solution (offset dE) differ by
        # 2 dE / h^2, i.e. by 1.9e6 * dE between the widest and the narrowest step
        cv = [(e[2 * i] + e[2 * i + 1] - 2.0 * E[0]) / HS[i] ** 2 for i in range(3)]
        curv.append(abs(cv[0] - cv[2]) / (CURV_ABS + CURV_REL * max(abs(c) for c in cv)))
        good = not bool(nc[sl].any()) and bool(np.all(np.isfinite(e)))
        if good and excited and ce is not None:
            a = excited["active"] - 1
            for r in range(sl.start, sl.stop):
                if not (abs(ce[r][a] - ce[0][a]) <= 0.05):
                    good = False
                for nb in (a - 1, a + 1):
                    if 0 <= nb < ce.shape[1] and not (abs(ce[r][nb] - ce[r][a]) >= 0.1):
                        good = False
        ok.append(good)
    return {"E0": float(E[0]), "nc0": bool(nc[0]), "D": D, "est": est, "ok": ok, "curv": curv, "evals": len(geoms),
            "cis0": None if ce is None else ce[0]}


_BETA = {}


def inner_step_allowance(method, Z):
    """force error an inner-difference evaluator may carry from overlap round-off noise (see ETA_S), eV/A."""
    import os
    from vlib import env
    if method not in _BETA:
        fn = os.path.join(env.REPO, "seqm", "params", "parameters_%s_MOPAC.csv" % method)
        b = {}
        with open(fn) as f:
            hdr = f.readline().strip().replace(" ", "").split(",")
            for line in f:
                t = line.strip().replace(" ", "").split(",")
                try:
                    row = dict(zip(hdr, t))
                    b[int(t[0])] = max(abs(float(row["beta_s"])), abs(float(row["beta_p"])))
                except ValueError:
                    continue
        _BETA[method] = b
    try:
        from seqm.seqm_functions import anal_grad
        delta = float(anal_grad.delta)
    except Exception:
        delta = 1e-5
    zs = sorted(set(Z), key=lambda z: -_BETA[method].get(z, 0.0))
    bsum = _BETA[method].get(zs[0], 0.0) + _BETA[method].get(zs[1] if len(zs) > 1 else zs[0], 0.0)
    if len(zs) == 1 or list(Z).count(zs[0]) > 1:
        bsum = max(bsum, 2 * _BETA[method].get(zs[0], 0.0))
    return INNER_K * ETA_S * bsum / delta


def hpp_floor_elements(method):
    """elements (Z <= 18, sp) whose hpp = (g_pp - g_p2)/2 in the shipped table is below MOPAC's 0.1 eV floor."""
    import os
    from vlib import env
    fn = os.path.join(env.REPO, "seqm", "params", "parameters_%s_MOPAC.csv" % method)
    out = set()
    with open(fn) as f:
        hdr = f.readline().strip().replace(" ", "").split(",")
        for line in f:
            t = line.strip().replace(" ", "").split(",")
            try:
                z = int(t[0])
            except ValueError:
                continue
            if z < 3 or z > 18:
                continue
            row = dict(zip(hdr, t))
            if float(row["U_ss"]) != 0 and 0.5 * (float(row["g_pp"]) - float(row["g_p2"])) < 0.1:
                out.add(z)
    return out


def on_x_pole(Z, X, thresh=4.6e-4):
    """some pair vector involving a heavy atom lies within `thresh` rad of +x or -x (rotate_with_quaternion freezes
    the frame when |1 + v_x| < 1e-7, i.e. inside 4.47e-4 rad of the pole; nothing wider is classified)"""
    n = len(Z)
    for i in range(n):
        for j in range(i + 1, n):
            if Z[i] > 1 or Z[j] > 1:
                v = X[j] - X[i]
                v = v / np.linalg.norm(v)
                if math.acos(min(1.0, abs(v[0]))) < thresh:
                    return True
    return False


@contextlib.contextmanager
def hpp_floor_patch():
    """counterfactual: the analytical derivative code with the energy side's `hpp >= 0.1 eV` floor applied"""
    from seqm.seqm_functions import anal_grad
    orig = anal_grad.additive_term_rho2

    class _Floored:
        @staticmethod
        def apply(hpp, qq):
            return orig.apply(hpp.clamp_min(0.1), qq)

    anal_grad.additive_term_rho2 = _Floored
    try:
        yield
    finally:
        anal_grad.additive_term_rho2 = orig


_HPP_CACHE = {}


def classify(case, mode_names, Z, X, counterfactual=None):
    """deterministic mechanism key for a violation witnessed at geometry (Z, X) by evaluator(s) mode_names."""
    method = case["method"]
    if "analytical" in mode_names:
        if method not in _HPP_CACHE:
            try:
                _HPP_CACHE[method] = hpp_floor_elements(method)
            except Exception:
                _HPP_CACHE[method] = set()
        if any(z in _HPP_CACHE[method] for z in Z):
            removed = None
            if counterfactual is not None:
                try:
                    removed = counterfactual()
                except Exception:
                    removed = None
            if removed is None or removed:
                return "analytical-missing-hpp-floor"
    if on_x_pole(Z, X):
        return "pair-on-x-pole"
    return None


# ---------------------------------------------------------------------------------------
class _CGProbe:
    """wrapper around rcis_batch.conjugate_gradient_batch: true residual of the returned solution per molecule and the
    number of iterations each molecule needs when solved on its own (same routine, batch of one)."""

    def __init__(self):
        self.records = []

    def __enter__(self):
        import torch
        from seqm.seqm_functions import rcis_batch
        self.mod = rcis_batch
        self.orig = orig = rcis_batch.conjugate_gradient_batch
        probe = self

        def wrapped(A, b, M_diag=None, max_iter=100, tol=1e-6):
            x = orig(A, b, M_diag, max_iter=max_iter, tol=tol)
            with torch.no_grad():
                dims = tuple(range(1, b.dim()))
                res = torch.linalg.vector_norm(b - A(x), ord=float("inf"), dim=dims)
                iters = []
                if b.shape[0] > 1:
                    for k in range(b.shape[0]):
                        cnt = [0]

                        def Ak(p1, k=k, cnt=cnt):
                            cnt[0] += 1
                            full = torch.zeros_like(b)
                            full[k:k + 1] = p1
                            return A(full)[k:k + 1]

                        try:
                            orig(Ak, b[k:k + 1], None if M_diag is None else M_diag[k:k + 1], max_iter=max_iter, tol=tol)
                        except RuntimeError:
                            cnt[0] = -1
                        iters.append(cnt[0])
            probe.records.append({"batch": int(b.shape[0]), "tol": float(tol), "residual": [float(v) for v in res],
                                  "solo_iterations": iters})
            return x

        rcis_batch.conjugate_gradient_batch = wrapped
        return self

    def __exit__(self, *a):
        self.mod.conjugate_gradient_batch = self.orig


TOL_BATCH_ALONE_F = 1e-7      # eV/A; clean tree: 7e-11 (z-vector tolerance 1e-9-ish, same SCF point)


def run_cgbatch(case):
    from vlib import run
    g = np.random.default_rng(case["seed"])
    Z, X0, q, m = gen.molecule(case["mol"])
    rows = []
    for sg in case["sigmas"]:
        X = gen.distort(X0, g, sigma=sg) if sg > 0 else np.asarray(X0, float).copy()
        rows.append((Z, X @ gen.generic_rotation(X, g).T + g.uniform(-3, 3, 3), q, m))
    exc = case["excited"]
    a = exc["active"] - 1
    sett = _settings(case, "analytical")
    mon = {"force_calls": 0, "cg_calls": 0, "cg_batches_with_uneven_iterations": 0, "cg_molecules_checked": 0,
           "batch_vs_alone_rows_compared": 0, "fd_dirs_compared": 0, "excited_dirs_compared": 0, "fd_energy_evals": 0,
           "fd_dirs_not_smooth": 0, "fd_dirs_unconverged": 0, "finite_checks": 0}
    margins, viol, obs = {}, [], {}

    def upd(name, val, tol):
        r = float(val) / tol
        if not (r <= margins.get(name, -1.0)):
            margins[name] = r
        return not (r <= 1.0)

    try:
        with _CGProbe() as probe:
            ob = run.single_point([Z] * len(rows), np.stack([r[1] for r in rows]), sett, charges=q, mult=m)
            nb = len(probe.records)
            alone = [run.single_point(Z, r[1], sett, charges=q, mult=m) for r in rows]
    except Exception as e:
        if any(k in str(e) for k in ("Maximum number of roots", "A-B matrix has negative eigenvalues")):
            return {"ineligible": "excited-state request rejected by the package", "monitors": mon}
        raise
    mon["force_calls"] += 1 + len(rows)
    for k, rec in enumerate(probe.records):
        mon["cg_calls"] += 1
        for v in rec["residual"]:
            mon["cg_molecules_checked"] += 1
            if upd("zvector_residual", v, 10.0 * rec["tol"]):
                viol.append({"clause": "zvector-residual", "mech": None,
                             "detail": {"cg_call": k, "batch": rec["batch"], "tol": rec["tol"], "residuals": rec["residual"],
                                        "solo_iterations": rec["solo_iterations"], "species": Z,
                                        "coords": [r[1].tolist() for r in rows]}})
                break
        it = [i for i in rec["solo_iterations"] if i >= 0]
        if len(it) > 1 and max(it) != min(it):
            mon["cg_batches_with_uneven_iterations"] += 1
            obs["cg_solo_iterations"] = rec["solo_iterations"]
    ncb = np.asarray(ob["notconverged"], bool).reshape(-1)
    n = len(Z)
    ce = ob["cis_energies"]
    for r, (_, X, _, _) in enumerate(rows):
        o1 = alone[r]
        mon["finite_checks"] += 1
        if not ncb[r] and not (np.all(np.isfinite(ob["force"][r, :n])) and np.isfinite(ob["Etot"][r])):
            viol.append({"clause": "force-not-finite-with-clean-flag/analytical", "mech": None,
                         "detail": {"row": r, "species": Z, "coords": X.tolist()}})
            continue
        if ncb[r] or bool(np.asarray(o1["notconverged"]).any()):
            continue
        sep = min([abs(ce[r][k] - ce[r][a]) for k in (a - 1, a + 1) if 0 <= k < ce.shape[1]] + [9.0])
        if not (sep >= 0.2) or not (abs(float(o1["Etot"][0]) - float(ob["Etot"][r])) <= E0_GUARD):
            obs.setdefault("rows_skipped", []).append(r)
            continue
        d = np.abs(ob["force"][r, :n] - o1["force"][0, :n]).max()
        mon["batch_vs_alone_rows_compared"] += 1
        if upd("batch_vs_alone_force", d, TOL_BATCH_ALONE_F):
            viol.append({"clause": "excited-batch-vs-alone-force/analytical", "mech": None,
                         "detail": {"row": r, "max_abs_diff": float(d), "tol": TOL_BATCH_ALONE_F, "sigma": case["sigmas"][r],
                                    "species": Z, "coords": X.tolist(), "sigmas_of_batch": case["sigmas"]}})
    # difference quotient of the returned Etot for the most distorted eligible row
    r = len(rows) - 1
    X = rows[r][1]
    sep = min([abs(ce[r][k] - ce[r][a]) for k in (a - 1, a + 1) if 0 <= k < ce.shape[1]] + [9.0])
    nontrivial = mon["batch_vs_alone_rows_compared"] > 0
    if not ncb[r] and sep >= 0.2:
        gd = np.random.default_rng(case["seed"] + 1000 + r)
        dirs, labels = _directions(case, Z, X, gd)
        if len(dirs) > 8:
            dirs, labels = dirs[:8], labels[:8]
        fd = fd_energy_derivatives(Z, X, q, m, _settings(case, "analytical", sp2=False), dirs, excited=exc)
        mon["fd_energy_evals"] += fd["evals"]
        if not fd["nc0"] and abs(float(ob["Etot"][r]) - fd["E0"]) <= E0_GUARD:
            F = ob["force"][r, :n]
            allow = inner_step_allowance(case["method"], Z)
            for k, dvec in enumerate(dirs):
                if not fd["ok"][k]:
                    mon["fd_dirs_unconverged"] += 1
                    continue
                if not (fd["est"][k] <= EST_ABS + EST_REL * abs(fd["D"][k])) or not (fd["curv"][k] <= 1.0):
                    mon["fd_dirs_not_smooth"] += 1
                    continue
                fdotd = float((F * dvec).sum())
                tol = TOL_ABS + TOL_REL * abs(fdotd) + allow
                mon["fd_dirs_compared"] += 1
                mon["excited_dirs_compared"] += 1
                if upd("fd_excited_batch/analytical", abs(fdotd + fd["D"][k]), tol):
                    viol.append({"clause": "force-vs-fd/analytical", "mech": None,
                                 "detail": {"direction": labels[k], "F_dot_d": fdotd, "minus_dE_ds": -float(fd["D"][k]),
                                            "abs_err": abs(fdotd + fd["D"][k]), "tol": tol, "row": r, "species": Z,
                                            "coords": X.tolist(), "layout": "uneven homogeneous excited batch"}})
                    break
    obs.update({"Etot": [float(x) for x in ob["Etot"]], "cis": [float(x) for x in ce[:, a]], "worst": margins})
    res = {"nontrivial": nontrivial, "violations": viol, "margins": margins, "monitors": mon, "obs": obs,
           "cells": ["cgbatch/%s/%s-S%d/%s/sig%s" % (case["method"], exc["method"], exc["active"], case["mol"],
                                                     ",".join("%g" % x for x in case["sigmas"]))]}
    if not nontrivial and not viol:
        res["ineligible"] = "no row of the uneven batch was eligible (state separation / convergence)"
    return res


TOL_REEVAL_FRESH = 1e-6     # eV/A: same geometry, same settings, only the SCF / Davidson start differs (clean: 5e-10)


def _is_solver_nonconvergence(e):
    return "did not converge" in str(e) or "Maximum number of roots" in str(e) or "A-B matrix has negative" in str(e)


def _fd_check(case, mode, Z, X, q, m, F, Ecall, exc, mon, upd, viol, name, clause, extra_detail, seed, maxdirs=12):
    """difference quotient of the returned Etot (fresh molecules) against the force F of one row; -> n compared"""
    gd = np.random.default_rng(seed)
    dirs, labels = _directions(case, Z, X, gd)
    dirs, labels = dirs[:maxdirs], labels[:maxdirs]
    fd = fd_energy_derivatives(Z, X, q, m, _settings(case, mode, sp2=False), dirs, excited=exc)
    mon["fd_energy_evals"] = mon.get("fd_energy_evals", 0) + fd["evals"]
    if fd["nc0"] or not (abs(Ecall - fd["E0"]) <= E0_GUARD):
        mon["energy_guard_failed"] = mon.get("energy_guard_failed", 0) + 1
        return 0
    allow = inner_step_allowance(case["method"], Z) if mode in ("analytical", "numerical") else 0.0
    ncmp = 0
    for k, dvec in enumerate(dirs):
        if not fd["ok"][k]:
            mon["fd_dirs_unconverged"] = mon.get("fd_dirs_unconverged", 0) + 1
            continue
        if not (fd["est"][k] <= EST_ABS + EST_REL * abs(fd["D"][k])) or not (fd["curv"][k] <= 1.0):
            mon["fd_dirs_not_smooth"] = mon.get("fd_dirs_not_smooth", 0) + 1
            continue
        fdotd = float((F * dvec).sum())
        tol = TOL_ABS + TOL_REL * abs(fdotd) + allow
        ncmp += 1
        mon["fd_dirs_compared"] = mon.get("fd_dirs_compared", 0) + 1
        mon["excited_dirs_compared"] = mon.get("excited_dirs_compared", 0) + 1
        if upd(name, abs(fdotd + fd["D"][k]), tol):
            viol.append({"clause": clause, "mech": None,
                         "detail": dict(extra_detail, direction=labels[k], F_dot_d=fdotd, minus_dE_ds=-float(fd["D"][k]),
                                        abs_err=abs(fdotd + fd["D"][k]), tol=tol, species=Z, coords=X.tolist())})
            break
    return ncmp


def run_reeval(case):
    """call 1 on a fresh Molecule; then move the atoms in place and call again (2: P0 = previous density, 3: no P0).
    For calls >= 2: force vs the same geometry on a FRESH Molecule and vs the difference quotient of the returned Etot."""
    import torch
    from vlib import run
    g = np.random.default_rng(case["seed"])
    rows = []
    for name in case["mols"]:
        Z, X0, q, m = gen.molecule(name)
        X = gen.distort(X0, g, sigma=0.05)
        rows.append((Z, X @ gen.generic_rotation(X, g).T + g.uniform(-3, 3, 3), q, m))
    S, C = gen.pad_batch([(r[0], r[1]) for r in rows])
    C = np.asarray(C, float)
    Q = np.asarray([r[2] for r in rows], float)
    mode = case["modes"][0]
    exc = case["excited"]
    a = exc["active"] - 1
    sett = _settings(case, mode)
    mon = {"force_calls": 0, "reeval_calls_compared": 0, "reeval_rows_compared_with_fresh": 0, "fd_dirs_compared": 0,
           "excited_dirs_compared": 0, "finite_checks": 0}
    margins, viol, obs = {}, [], {}

    def upd(name, val, tol):
        r = float(val) / tol
        if not (r <= margins.get(name, -1.0)):
            margins[name] = r
        return not (r <= 1.0)

    try:
        with run.quiet():
            mol, es, _ = run.build(S, C, sett, Q, 1)
            es(mol)
    except Exception as e:
        if _is_solver_nonconvergence(e):
            return {"ineligible": "first evaluation rejected: %s" % str(e)[:60], "monitors": mon}
        raise
    mon["force_calls"] += 1
    mask = torch.as_tensor(np.asarray(S) > 0).unsqueeze(-1)
    for call in range(2, case["ncalls"] + 1):
        with torch.no_grad():
            mol.coordinates.add_(torch.as_tensor(g.normal(0, case["kick"], C.shape)) * mask)
        Xc = mol.coordinates.detach().cpu().numpy().copy()
        fresh, err_re, err_fr = None, None, None
        try:
            fresh = run.single_point(S, Xc, sett, charges=Q, mult=1)
        except Exception as e:
            err_fr = e
        try:
            with run.quiet():
                es(mol, P0=mol.dm) if call == 2 else es(mol)
        except Exception as e:
            err_re = e
        mon["force_calls"] += 2
        if err_re is not None or err_fr is not None:
            bad = [e for e in (err_re, err_fr) if e is not None]
            if all(_is_solver_nonconvergence(e) for e in bad):
                obs.setdefault("solver_nonconvergence", []).append(call)     # same standing as a non-convergence flag
                continue
            if (err_re is None) != (err_fr is None):
                viol.append({"clause": "reevaluation-raised-where-fresh-molecule-did-not" if err_re is not None else
                             "fresh-molecule-raised-where-reevaluation-did-not", "mech": None,
                             "detail": {"call": call, "error": repr(bad[0])[:300], "species": S, "coords": Xc.tolist()}})
                continue
            raise bad[0]
        F = run.npy(mol.force)
        E = run.npy(mol.Etot).reshape(-1)
        ce = run.npy(mol.cis_energies)
        ncr = np.asarray(run.npy(es.notconverged), bool).reshape(-1)
        ncf = np.asarray(fresh["notconverged"], bool).reshape(-1)
        compared = False
        for r, (Z, _, q, m) in enumerate(rows):
            n = len(Z)
            mon["finite_checks"] += 1
            if not ncr[r] and not (np.all(np.isfinite(F[r, :n])) and np.isfinite(E[r])):
                viol.append({"clause": "force-not-finite-with-clean-flag/" + mode, "mech": None,
                             "detail": {"row": r, "call": call, "species": Z, "coords": Xc[r, :n].tolist()}})
                continue
            if ncr[r] or ncf[r]:
                continue
            sep = min([abs(ce[r][k] - ce[r][a]) for k in (a - 1, a + 1) if 0 <= k < ce.shape[1]] + [9.0])
            same = abs(E[r] - fresh["Etot"][r]) <= E0_GUARD and abs(ce[r][a] - fresh["cis_energies"][r][a]) <= 1e-7
            if not (sep >= 0.2) or not same:
                obs.setdefault("rows_skipped", []).append([call, r])
                continue
            d = np.abs(F[r, :n] - fresh["force"][r, :n]).max()
            mon["reeval_rows_compared_with_fresh"] += 1
            compared = True
            wit = {"call": call, "row": r, "species": Z, "coords": Xc[r, :n].tolist(), "P0_reused": call == 2,
                   "batch": case["mols"]}
            if upd("reeval_vs_fresh/" + mode, d, TOL_REEVAL_FRESH):
                viol.append({"clause": "reevaluated-force-vs-fresh-molecule/" + mode, "mech": None,
                             "detail": dict(wit, max_abs_diff=float(d), tol=TOL_REEVAL_FRESH)})
            if r == 0 and len(rows) == 1 or (r == 0 and call == 2):
                _fd_check(case, mode, Z, Xc[r, :n], q, m, F[r, :n], float(E[r]), exc, mon, upd, viol,
                          "fd_reeval/" + mode, "force-vs-fd/%s/call%d-on-same-molecule" % (mode, call), wit,
                          case["seed"] + 100 * call + r, maxdirs=8)
        if compared:
            mon["reeval_calls_compared"] += 1
    nontrivial = mon["reeval_calls_compared"] > 0
    res = {"nontrivial": nontrivial, "violations": viol, "margins": margins, "monitors": mon,
           "obs": dict(obs, worst=margins),
           "cells": ["reeval/%s/%s-S%d/%s/%s" % (case["method"], exc["method"], exc["active"], mode, "+".join(case["mols"]))]}
    if not nontrivial and not viol:
        res["ineligible"] = "no re-evaluation was eligible (convergence / state identity)"
    return res


def run_allforces(case):
    """analytical excited-state run with do_all_forces=True: slot i of all_forces vs a separate run with active_state=i"""
    from vlib import run
    g = np.random.default_rng(case["seed"])
    Z, X0, q, m = gen.molecule(case["mol"])
    rows = []
    for _ in range(case["nrows"]):
        X = gen.distort(X0, g, sigma=0.05)
        rows.append(X @ gen.generic_rotation(X, g).T + g.uniform(-3, 3, 3))
    Xs = np.stack(rows)
    exc = case["excited"]
    act0 = exc["active"]
    n = len(Z)
    mon = {"force_calls": 0, "allforces_slots_compared": 0, "fd_dirs_compared": 0, "excited_dirs_compared": 0,
           "finite_checks": 0}
    margins, viol, obs = {}, [], {}

    def upd(name, val, tol):
        r = float(val) / tol
        if not (r <= margins.get(name, -1.0)):
            margins[name] = r
        return not (r <= 1.0)

    def sett_for(active, allf):
        c2 = dict(case, excited=dict(exc, active=active))
        s = _settings(c2, "analytical")
        if allf:
            s["do_all_forces"] = True
        return s

    try:
        with run.quiet():
            mol, es, _ = run.build([Z] * len(rows), Xs, sett_for(act0, True), q, m)
            es(mol)
    except Exception as e:
        if _is_solver_nonconvergence(e):
            return {"ineligible": "rejected: %s" % str(e)[:60], "monitors": mon}
        raise
    mon["force_calls"] += 1
    AF = run.npy(getattr(mol, "all_forces", None))
    nst = exc["n_states"]
    if AF is None or AF.shape != (len(rows), nst + 1, n, 3):
        return {"violations": [{"clause": "all-forces-shape", "mech": None,
                                "detail": {"shape": None if AF is None else list(AF.shape), "expected": [len(rows), nst + 1, n, 3]}}],
                "monitors": mon}
    act_after = np.asarray(run.npy(mol.active_state) if hasattr(mol.active_state, "shape") else mol.active_state).reshape(-1)
    if not np.all(act_after == act0):
        viol.append({"clause": "active-state-not-restored-after-do-all-forces", "mech": None,
                     "detail": {"before": act0, "after": act_after.tolist()}})
    F_active = run.npy(mol.force)
    ce = run.npy(mol.cis_energies)
    for i in range(nst + 1):
        try:
            o = run.single_point([Z] * len(rows), Xs, sett_for(i, False), charges=q, mult=m)
        except Exception as e:
            if _is_solver_nonconvergence(e):
                continue
            raise
        mon["force_calls"] += 1
        for r in range(len(rows)):
            mon["finite_checks"] += 1
            if bool(np.asarray(o["notconverged"]).reshape(-1)[r]):
                continue
            if not np.all(np.isfinite(AF[r, i])):
                viol.append({"clause": "force-not-finite-with-clean-flag/all_forces", "mech": None,
                             "detail": {"row": r, "state": i, "species": Z, "coords": Xs[r].tolist()}})
                continue
            if i > 0:
                sep = min([abs(ce[r][k] - ce[r][i - 1]) for k in (i - 2, i) if 0 <= k < ce.shape[1]] + [9.0])
                if not (sep >= 0.05):
                    continue
            d = np.abs(AF[r, i] - o["force"][r]).max()
            mon["allforces_slots_compared"] += 1
            if upd("all_forces_vs_separate_run", d, TOL_REEVAL_FRESH):
                mech = None
                if i == 0 and act0 > 0 and np.abs(AF[r, 0] - AF[r, act0]).max() <= 1e-9 and np.all(np.isfinite(AF[r])):
                    mech = "all-forces-slot0-holds-active-state"
                viol.append({"clause": "all-forces-slot-vs-separate-run/state%d" % i, "mech": mech,
                             "detail": {"row": r, "state": i, "initial_active_state": act0, "max_abs_diff": float(d),
                                        "tol": TOL_REEVAL_FRESH, "slot0_equals_active_state_slot":
                                        bool(np.abs(AF[r, 0] - AF[r, act0]).max() <= 1e-9), "species": Z, "coords": Xs[r].tolist()}})
            if r == 0 and i == (act0 % nst) + 1:
                # one non-active excited slot against the difference quotient of the separate run's Etot
                c2 = dict(case, excited=dict(exc, active=i), kind="lib")
                _fd_check(c2, "analytical", Z, Xs[r], q, m, AF[r, i], float(o["Etot"][r]), c2["excited"], mon, upd, viol,
                          "fd_all_forces", "force-vs-fd/all_forces/state%d" % i, {"row": r, "state": i}, case["seed"] + i, maxdirs=6)
    d = np.abs(F_active - AF[:, act0]).max()
    if upd("all_forces_active_slot_vs_returned_force", d, 1e-12 if act0 > 0 else 1e-12):
        viol.append({"clause": "all-forces-active-slot-vs-returned-force", "mech": None, "detail": {"max_abs_diff": float(d)}})
    nontrivial = mon["allforces_slots_compared"] > 0
    res = {"nontrivial": nontrivial, "violations": viol, "margins": margins, "monitors": mon, "obs": {"worst": margins},
           "cells": ["allforces/%s/%s/active%d/%s" % (case["method"], exc["method"], act0, case["mol"])]}
    if not nontrivial and not viol:
        res["ineligible"] = "no slot eligible"
    return res


def run_case(case):
    from vlib import run
    if case["kind"] == "cgbatch":
        return run_cgbatch(case)
    if case["kind"] == "reeval":
        return run_reeval(case)
    if case["kind"] == "allforces":
        return run_allforces(case)
    rows, check = build_rows(case)
    S, C, Q, M = _batch_arrays(case, rows)
    modes = list(case["modes"])
    exc = case.get("excited")
    mon = {"force_calls": 0, "fd_energy_evals": 0, "fd_dirs_compared": 0, "fd_dirs_not_smooth": 0,
           "fd_dirs_unconverged": 0, "evaluator_pairs_compared": 0, "padding_rows_checked": 0, "rows_not_converged": 0,
           "rows_checked": 0, "excited_dirs_compared": 0, "sp2_dirs_compared": 0, "axis_aligned_dirs_compared": 0,
           "energy_guard_failed": 0, "c14_bundle_calls": 0, "c14_bundle_anomalies": 0}
    margins, viol, cells, obs = {}, [], [], {}

    def upd(name, val, tol):
        r = float(val) / tol
        if not (r <= margins.get(name, -1.0)):
            margins[name] = r
        return not (r <= 1.0)

    qarg = Q[0] if len(rows) == 1 else np.asarray(Q, float)
    marg = M[0] if len(rows) == 1 else np.asarray(M, float)
    outs = {}
    for mode in modes:
        sett = _settings(case, mode)
        keep = mode == modes[0]
        try:
            o = run.single_point(S if len(rows) > 1 else S[0], C if len(rows) > 1 else C[0], sett, charges=qarg,
                                 mult=marg, keep=keep)
        except Exception as e:
            if exc and any(k in str(e) for k in ("Maximum number of roots", "A-B matrix has negative eigenvalues")):
                # the package rejects the request loudly (more roots than n_occ*n_virt): outside C01's domain
                return {"ineligible": "excited-state request rejected by the package: %s" % str(e)[:80],
                        "monitors": mon}
            raise
        mon["force_calls"] += 1
        if keep:
            nc0 = o["notconverged"]
            if nc0 is not None and bool(np.asarray(nc0).reshape(-1)[check].all()):
                # nothing can be judged on rows the package itself flags as not converged; skip the remaining
                # evaluators and the difference quotients (they would only burn MAX_ITER iterations each)
                mon["rows_not_converged"] += len(check)
                return {"ineligible": "SCF flagged not converged at x for every checked row", "monitors": mon,
                        "cells": ["notconverged/%s/%s" % (case["method"], case.get("mol") or ("%d-%d" % tuple(case["pair"]) if "pair" in case else case["kind"]))]}
        if keep:
            try:
                from vlib import obs14
                bv = obs14.bundle(o["_mol"], o["_es"], o["_sett"], [r[2] for r in rows], [r[3] for r in rows],
                                  sp2_tol=case.get("sp2"))
                mon["c14_bundle_calls"] += 1
                mon["c14_bundle_anomalies"] += len(bv["violations"])
                if bv["violations"]:
                    obs["c14_observe_only"] = [v["clause"] for v in bv["violations"]][:6]
            except Exception as e:  # observe-only attachment must never disturb C01
                obs["c14_attach_error"] = repr(e)[:200]
            for k in ("_mol", "_es", "_sett"):
                o.pop(k, None)
        outs[mode] = o
    nat_max = C.shape[1]
    spin = "uhf-m%d" % rows[check[0]][3] if case.get("uhf") else ("rhf-ion" if rows[check[0]][2] != 0 else "rhf")
    state = "S0" if not exc else "%s-S%d" % (exc["method"], exc["active"])
    conv_l = "conv" + "-".join(str(c) for c in case["conv"])
    orient_l = case["orient"]["kind"] + ("-flip" if case["orient"].get("flip") else "") \
        if case["orient"]["kind"] in ("generic", "asis") else \
        "align%s/cone%g%s" % (case["orient"]["axis"], case["orient"]["cone"],
                              "/pair%d-%d" % tuple(case["orient"]["pair"]) if case["orient"].get("pair") else "")
    sp2_l = "sp2-%g" % case["sp2"] if case.get("sp2") else "diag"

    # ---- padding rows: exactly zero in every mode -----------------------------------------
    Sarr = np.asarray(S)
    pad_mask = Sarr == 0
    for mode in modes:
        F = outs[mode]["force"]
        if F is None or F.shape[:2] != Sarr.shape:
            viol.append({"clause": "force-shape/" + mode, "mech": None, "detail": {"shape": None if F is None else list(F.shape)}})
            continue
        if pad_mask.any():
            mon["padding_rows_checked"] += int(pad_mask.sum())
            bad = F[pad_mask]
            if not np.all(bad == 0.0):
                viol.append({"clause": "padding-force-nonzero/" + mode, "mech": None,
                             "detail": {"max_abs": float(np.nanmax(np.abs(bad))), "species": Sarr.tolist(),
                                        "coords": C.tolist()}})
            cells.append("padding/%s/%s" % (case["method"], mode))
        else:
            # every row real: the monitor is still "reached" only through padded layouts
            pass

    nontrivial = False
    padded_homog_exc = bool(exc) and case["layout"] == "homog" and case.get("extra_pad", 0) > 0 and len(rows) > 1
    if padded_homog_exc:
        check = list(range(len(rows)))
    for r in check:
        Z, X, q, m = rows[r]
        n = len(Z)
        mon["rows_checked"] += 1
        if padded_homog_exc:
            mon["excited_analytical_rows_in_padded_homog_batch"] = mon.get("excited_analytical_rows_in_padded_homog_batch", 0) + 1
            # the same row alone (no padding): energies guard the state identity, forces must agree
            for mo in modes:
                try:
                    o1 = run.single_point(Z, X, _settings(case, mo), charges=q, mult=m)
                except Exception as e:
                    if _is_solver_nonconvergence(e):
                        continue
                    viol.append({"clause": "alone-run-raised-where-batch-did-not/" + mo, "mech": None,
                                 "detail": {"row": r, "error": repr(e)[:300], "species": Z, "coords": X.tolist()}})
                    continue
                ncb_ = outs[mo]["notconverged"]
                if (ncb_ is not None and bool(np.asarray(ncb_).reshape(-1)[r])) or bool(np.asarray(o1["notconverged"]).any()):
                    continue
                if not (abs(float(o1["Etot"][0]) - float(outs[mo]["Etot"][r])) <= E0_GUARD):
                    continue
                dF = np.abs(outs[mo]["force"][r, :n] - o1["force"][0, :n]).max()
                mon["padded_homog_rows_compared_with_alone"] = mon.get("padded_homog_rows_compared_with_alone", 0) + 1
                if upd("padded_homog_excited_vs_alone/" + mo, dF, TOL_REEVAL_FRESH):
                    viol.append({"clause": "excited-padded-batch-row-vs-alone-force/" + mo, "mech": None,
                                 "detail": {"row": r, "max_abs_diff": float(dF), "tol": TOL_REEVAL_FRESH, "species": Z,
                                            "coords": X.tolist(), "species_rows": np.asarray(S).tolist()}})
        ncflags = {}
        for mode in modes:
            nc = outs[mode]["notconverged"]
            ncflags[mode] = bool(np.asarray(nc).reshape(-1)[r]) if nc is not None else False
        for mo in modes:
            # a non-finite force or energy on a row the package itself flags as converged is a violation of its own
            # (never the frame-rotation finding: that one returns finite, wrong numbers) -> mech None
            Fr = outs[mo]["force"][r, :n] if np.ndim(outs[mo]["force"]) == 3 else np.full((n, 3), np.nan)
            Er = np.asarray(outs[mo]["Etot"]).reshape(-1)[r]
            mon["finite_checks"] = mon.get("finite_checks", 0) + 1
            if not ncflags[mo] and not (np.all(np.isfinite(Fr)) and np.isfinite(Er)):
                viol.append({"clause": "force-not-finite-with-clean-flag/" + mo, "mech": None,
                             "detail": {"row": r, "species": Z, "coords": X.tolist(), "charge": q, "mult": m,
                                        "n_nonfinite_force_components": int((~np.isfinite(Fr)).sum()),
                                        "Etot": float(Er), "notconverged_flag": False}})
        live = [mo for mo in modes if not ncflags[mo] and np.all(np.isfinite(outs[mo]["force"][r, :n]))]
        if len(live) < len(modes):
            mon["rows_not_converged"] += 1
        if not live:
            continue
        # ---- evaluators pairwise ---------------------------------------------------------
        for i in range(len(live)):
            for j in range(i + 1, len(live)):
                a, b = live[i], live[j]
                dF = np.abs(outs[a]["force"][r, :n] - outs[b]["force"][r, :n])
                inner = any(x in ("analytical", "numerical") for x in (a, b))
                tol = TOL_EVAL + (inner_step_allowance(case["method"], Z) if inner else 0.0)
                mon["evaluator_pairs_compared"] += 1
                if upd("evaluators/%s-vs-%s" % (a, b), dF.max(), tol):
                    at = int(np.unravel_index(np.argmax(dF), dF.shape)[0])
                    viol.append({"clause": "evaluators-disagree/%s-vs-%s" % (a, b), "_modes": [a, b], "_row": r,
                                 "detail": {"max_abs_diff": float(dF.max()), "tol": tol, "atom": at,
                                            "F_" + a: outs[a]["force"][r, at].tolist(),
                                            "F_" + b: outs[b]["force"][r, at].tolist(), "row": r,
                                            "species": Z, "coords": X.tolist(), "charge": q, "mult": m}})
        # ---- excited-state eligibility at x ----------------------------------------------
        if exc:
            ce = outs[live[0]].get("cis_energies")
            a = exc["active"] - 1
            sep = min([abs(ce[r][k] - ce[r][a]) for k in (a - 1, a + 1) if 0 <= k < ce.shape[1]] + [9.0])
            if not (sep >= 0.2):
                obs["excited_ineligible"] = "active root %.3f eV from a neighbour" % sep
                continue
        # ---- difference quotients of the returned energy -----------------------------------
        gdir = np.random.default_rng(case["seed"] + 1000 + r)
        dirs, labels = _directions(case, Z, X, gdir)
        groups = {}
        if exc:
            for mo in live:      # the excitation energy is assembled differently per evaluator: own quotient each
                groups[mo] = [mo]
        else:
            groups[("analytical" if "analytical" in live else live[0])] = list(live)
        for fd_mode, members in groups.items():
            fd = fd_energy_derivatives(Z, X, q, m, _settings(case, fd_mode, sp2=False), dirs, excited=exc)
            mon["fd_energy_evals"] += fd["evals"]
            sp2_allow = 1e3 * _sp2_eff(case["sp2"]) if case.get("sp2") else 0.0
            for mo in members:
                Ecall = float(outs[mo]["Etot"][r])
                guard = abs(Ecall - fd["E0"])
                gtol = E0_GUARD + (10 * _sp2_eff(case["sp2"]) if case.get("sp2") else 0.0)
                if fd["nc0"] or not (guard <= gtol):
                    # the difference-quotient batch does not reproduce the energy of the call under test at x:
                    # the quotient would differentiate a different number -> row inconclusive for this evaluator
                    mon["energy_guard_failed"] += 1
                    obs.setdefault("energy_guard_failed", []).append({"mode": mo, "row": r, "dE": guard})
                    continue
                upd("guard_energy_centre_not_a_verdict_bound", guard, gtol)
                F = outs[mo]["force"][r, :n]
                worst = None
                for k, d in enumerate(dirs):
                    if not fd["ok"][k]:
                        mon["fd_dirs_unconverged"] += 1
                        continue
                    if not (fd["est"][k] <= EST_ABS + EST_REL * abs(fd["D"][k])) or not (fd["curv"][k] <= 1.0):
                        mon["fd_dirs_not_smooth"] += 1
                        continue
                    obs["max_curvature_guard_ratio"] = max(obs.get("max_curvature_guard_ratio", 0.0), float(fd["curv"][k]))
                    fdotd = float((F * d).sum())
                    err = abs(fdotd + fd["D"][k])
                    tol = TOL_ABS + TOL_REL * abs(fdotd) + sp2_allow + \
                        (inner_step_allowance(case["method"], Z) if mo in ("analytical", "numerical") else 0.0)
                    mon["fd_dirs_compared"] += 1
                    nontrivial = True
                    if exc:
                        mon["excited_dirs_compared"] += 1
                    if case.get("sp2"):
                        mon["sp2_dirs_compared"] += 1
                    if case["orient"]["kind"] in ("align", "asis"):
                        mon["axis_aligned_dirs_compared"] += 1
                    if case["orient"]["kind"] == "asis" or (case["orient"]["kind"] == "align" and case["orient"]["cone"] == 0.0
                                                           and case["orient"]["axis"] in ("+x", "-x")):
                        mon["exact_x_axis_dirs_compared"] = mon.get("exact_x_axis_dirs_compared", 0) + 1
                    if case.get("dispersion"):
                        mon["dispersion_dirs_compared"] = mon.get("dispersion_dirs_compared", 0) + 1
                    name = ("fd_sp2/" if case.get("sp2") else ("fd_excited/" if exc else "fd/")) + mo
                    over = upd(name, err, tol)
                    obs["max_fd_error_estimate"] = max(obs.get("max_fd_error_estimate", 0.0), float(fd["est"][k]))
                    if over and (worst is None or err / tol > worst[0]):
                        worst = (err / tol, k, fdotd, fd["D"][k], fd["est"][k], tol)
                if worst is not None:
                    _, k, fdotd, Dk, ek, tol = worst
                    viol.append({"clause": "force-vs-fd/" + mo, "_modes": [mo], "_row": r,
                                 "detail": {"direction": labels[k], "F_dot_d": fdotd, "minus_dE_ds": -float(Dk),
                                            "abs_err": abs(fdotd + Dk), "tol": tol, "fd_error_estimate": float(ek),
                                            "row": r, "species": Z, "coords": X.tolist(), "charge": q, "mult": m,
                                            "dir": dirs[k].tolist()}})
        cells.append("/".join([case["method"], state, spin, conv_l, sp2_l, case["layout"]]))
        if case.get("dispersion"):
            cells.append("dispersion/%s/%s" % (case["method"], "+".join("%s-%s@%s" % tuple(d[:3]) if d[1] else d[0] for d in case["dimers"])))
        for mo in live:
            cells.append("mode/%s/%s/%s/%s" % (case["method"], mo, state if exc else spin, orient_l))
        if case["kind"] == "pair":
            cells.append("pair/%s/%d-%d" % (case["method"], Z[0], Z[1]))

    # ---- mechanism classification (after the fact, deterministic in the witness) --------------
    for v in viol:
        if "mech" in v:
            continue
        r = v.pop("_row")
        mnames = v.pop("_modes")
        Z, X, q, m = rows[r]

        def counterfactual(r=r, Z=Z, X=X, q=q, m=m, v=v):
            with hpp_floor_patch():
                o = run.single_point(S if len(rows) > 1 else S[0], C if len(rows) > 1 else C[0],
                                     _settings(case, "analytical"), charges=qarg, mult=marg)
            Fa = o["force"][r, :len(Z)]
            if v["clause"].startswith("force-vs-fd"):
                d = np.asarray(v["detail"]["dir"])
                return abs(float((Fa * d).sum()) - v["detail"]["minus_dE_ds"]) <= v["detail"]["tol"]
            other = [x for x in mnames if x != "analytical"][0]
            return float(np.abs(Fa - outs[other]["force"][r, :len(Z)]).max()) <= v["detail"]["tol"]

        v["mech"] = classify(case, mnames, Z, X, counterfactual)
        v["detail"].pop("dir", None) if len(Z) > 8 else None
    obs.update({"Etot": [float(x) for x in np.asarray(outs[modes[0]]["Etot"]).reshape(-1)[:4]],
                "rows": len(rows), "atoms_max": int(nat_max), "checked_rows": check,
                "dirs_compared": mon["fd_dirs_compared"], "worst": margins})
    res = {"nontrivial": nontrivial, "violations": viol, "margins": margins, "monitors": mon, "cells": cells, "obs": obs}
    if not nontrivial and not viol:
        res["ineligible"] = "no direction passed the convergence / smoothness / state-identity guards"
    return res


def summarize(cases, results, report):
    """element-pair matrix coverage per method: pairs whose diatomic had >= 1 compared direction."""
    tot = {m: len(_pairs(m)) for m in METHODS}
    seen = {m: set() for m in METHODS}
    for c, r in zip(cases, results):
        if not r or c.get("kind") != "pair":
            continue
        if (r.get("monitors") or {}).get("fd_dirs_compared", 0) > 0:
            seen[c["method"]].add(tuple(c["pair"]))
    # worst margins over cases without a violation, split by whether the case sits inside the cone of the known
    # frame-rotation singularity (axis-aligned on +-x with cone < 4.6e-4 rad: sub-threshold footprints of that defect
    # live there) or not
    clean, clean_cone = {}, {}
    from vlib import verdict
    for c, r in zip(cases, results):
        if not r or r.get("violations"):
            continue
        o = c.get("orient", {})
        incone = o.get("kind") == "asis" or \
            (o.get("kind") == "align" and o.get("axis") in ("+x", "-x") and o.get("cone", 1.0) < 4.6e-4)
        tgt = clean_cone if incone else clean
        for k, v in (r.get("margins") or {}).items():
            if v is not None and not (v <= tgt.get(k, {"worst": -1.0})["worst"]):
                tgt[k] = {"worst": v, "case": verdict.case_id(c)}
    return {"worst_margin_over_cases_without_violation": clean,
            "worst_margin_over_nonviolating_cases_inside_x_pole_cone": clean_cone, "pair_matrix": {m: {"pairs_compared": len(seen[m]), "pairs_total": tot[m],
                                "not_compared": sorted("%d-%d" % p for p in
                                                       (set((max(a, b), min(a, b)) for a, b in _pairs(m)) - seen[m]))[:60]}
                            for m in METHODS}}
