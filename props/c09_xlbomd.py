"""C09 — XL-BOMD: consistent with SCF, fixed-point preserving, the published recurrence, stable.

Runtime monitoring, five clauses (DESIGN §6 "C09", reference model R2 = vlib/ref/xlverlet.py):

(a) consistency   Electronic_Structure.forward(dm_prop="XL-BOMD", P0 = converged D) against the SCF call on
                  the same geometry: energies, forces, D(P)=P; plain and Krylov (rank 1-4, T_el 300/1500 K);
                  at T_el where the occupations are fractional: force = -d(Etot + E_entropy)/dx by Richardson
                  central differences at the self-consistent finite-T density; away from the fixed point
                  (P0 = D* + delta) the rank-m Krylov update dP2dt2_m, m = 1..4, against an independent numpy
                  evaluation of the published rank-m kernel update built from finite-difference responses of the
                  real D[P] map, at T_el = 300 K and on a ladder 5-20 kK that reaches fractional occupations;
                  every row of zero-padded mixed-size batches (incl. padded anions, T_el up to 8-12 kK) against the
                  same molecule alone on the same call path (energies, entropy, force, D, dP2dt2, electron count).
(b) fixed point   the REAL XL_BOMD/KSA_XL_BOMD one_step/_propagate_P/circular buffer, driven with the
                  electronic-structure call replaced by a stub that returns D* = P(0) and zero force:
                  every k in 3..9 x every start step i0 in 0..k x a context rebuilt at every step_done;
                  the same through the real md.run -> save_checkpoint -> run_from_checkpoint path; plus one
                  real (unstubbed) run per k from a relaxed geometry at rest.
(c) recurrence    same drivers with random symmetric D(n): the executed P(n) equals R2 (published table,
                  typed independently) for the measured kappa_eff in (0, kappa_table]; impulse responses at
                  every buffer phase are deconvolved into the effective coefficients and compared one by one.
(d) stability     characteristic roots from the LIVE md.coeff / md.coeff_D and from the measured coefficients
                  for gamma in (0,1] on a 200-point grid; 3000 closed-loop steps of the real recurrence on a
                  synthetic element-wise linear response (every grid gamma at once) against R2 and a bound.
(e) dynamics      real runs at dt, dt/2, dt/4 written to HDF5: shadow-energy fluctuation ratio, no
                  dt-independent energy residual, distance to a tight-SCF BOMD trajectory (dt/8) shrinking.

(b)-(d) enumerate their finite space completely; summarize() reports that as "exhaustive_sublattice"."""
import math

import numpy as np

from vlib import gen

PROPERTY = "C09"
RULE = ("cases: 'recur' = (variant in {XL_BOMD, KSA_XL_BOMD, XL_BOMD+Langevin}, k in 3..9): stub-driven real "
        "propagation code, enumerated completely over start step i0 in 0..k, restart point (every step_done) and "
        "impulse phase; 'consist' = (molecule or padded batch, method, distortion seed) x {plain, Krylov rank 1-4 x "
        "T_el}; 'stationary' = (engine, k) real run from a relaxed geometry at rest; 'dyn' = (engine, k, molecule, dt) "
        "real runs at dt, dt/2, dt/4 + BOMD reference at dt/8.  A case is non-trivial when its deciding monitor "
        "compared at least one executed step/call (recur: >= 4 buffer wraps driven; consist: SCF reference converged; "
        "stationary: |F| < 1e-6 reached; dyn: all four trajectories completed; freeenergy = (molecule, T_el, rank): "
        "finite-T self-consistency reached and occupations fractional by >= 1e-4; krylov = (molecule, method, "
        "perturbation seed): residual D[P0]-P0 non-zero and all four ranks compared; batchrow = (zero-padded mixed-size "
        "batch incl. ions, method, T_el, plain / Krylov rank): every row compared with the same molecule alone on the "
        "XL-BOMD call path); distinct by SHA-1 of the case")
ASSUMPTIONS = [
    "float64 CPU, one thread",
    "coefficient table of Niklasson et al. JCP 130, 214109 (2009) typed from recollection in vlib/ref/xlverlet.py and "
    "re-derived there from its defining properties (sum c_j = 0, vanishing odd moments up to 2K-5, c_K = (-1)^K, "
    "c_0 = -superballot(K-2)); kappa/alpha validated by monotonicity and by root-locus stability on (0, kappa_K]",
    "the stub-driven harness propagates a zero-padded batch of two different molecules (row-wise independent D(n)); "
    "the stub replaces only Electronic_Structure.forward; one_step, _propagate_P, _do_integrator_step, initialize, run, "
    "save_checkpoint and run_from_checkpoint are the repository's code",
    "'forever' is restated as >= 4 wraps of the history buffer (b, c) and 300 wraps in closed loop (d)",
    "KSA variant: initialize() sets dP2dt2 = 0 for the first step; the reference uses the same W(0) = 0",
    "clause (a) at T_el <= 1500 K is judged against the zero-temperature SCF only when the Fermi occupations are "
    "integral to 1e-12 (electronic entropy term exactly zero); otherwise the call is counted ineligible",
    "Krylov kernel convention: the package feeds Canon_DM_PRT's response of the single-spin density (trace N_occ) into "
    "a kernel for the spin-summed density (trace 2 N_occ), i.e. it uses HALF of dD/dP; the independent evaluation "
    "uses the same factor 1/2 (stated, measured: agreement 5e-11) and reports what the factor 1 would give as an "
    "observation only",
    "excited-state (CIS) surfaces are not driven by this check",
]
REQUIRED_MONITORS = ["consistency_calls_compared", "fixedpoint_steps_checked", "fixedpoint_restarts_checked",
                     "recurrence_steps_compared", "recurrence_restarts_checked", "real_checkpoint_resumes",
                     "impulse_coefficients_compared", "stability_polynomials_checked", "closed_loop_steps_driven",
                     "stationary_real_steps", "dyn_families_judged", "free_energy_directions_checked",
                     "krylov_updates_compared", "krylov_fractional_cases_compared",
                     "batch_padded_rows_compared", "batch_padded_fractional_or_ion_rows"]
CASE_TIMEOUT = 900.0
ORDERS = (3, 4, 5, 6, 7, 8, 9)
VARIANTS = ("xl", "ksa", "xl_damp")

# ------------------------------------------------------------------ tolerances
TOL_E = 1e-8          # eV   (a) energies: SCF run at eps 1e-11, E is second order in the SCF residual (measured 0)
TOL_F = 1e-6          # eV/A (a) forces: first order in the SCF residual (measured 2e-9)
TOL_DP = 1e-7         #      (a) |D(P) - P| at P = converged D  (15*eps/(1-alpha) algebra of C03, measured 1e-10)
TOL_FIX = 1e-12       #      (b) |P - D*| relative to max(1,|D*|)  (prototype: 4e-15)
TOL_REC = 1e-12       #      (c) |P_real - P_R2| relative to max(1, max|P|) (measured 5e-15)
TOL_COEF = 1e-12      #      (c) effective coefficient vs published
TOL_ROOT = 1e-9       #      (d) |lambda| <= 1 + TOL_ROOT
TOL_LOOP = 1e-9       #      (d) closed loop real vs R2, relative to |x0|
LOOP_BOUND = 10.0     #      (d) closed-loop amplitude / initial amplitude (published recurrence itself peaks at 1.24)
TOL_STAT = 1e-7       #      (b) real stationary run |P - D|
RATIO_LO, RATIO_HI = 2.5, 6.0   # (e) per halving of dt (second order = 4)
# (a) finite-T free-energy force.  Fermi_Q stops its chemical-potential Newton iteration at an electron-count error
# <= 1e-9, so the returned Etot + E_entropy carries a stopping-rule error <= |eps_frontier| * 1e-9 <= 1.5e-8 eV
# (observed: FD error growing like 1/h, a = 1.4e-8 eV, on a strongly distorted HCN).  With steps h, h/2 the Richardson
# difference amplifies that to (4/(h/2) + 1/h) * 1.5e-8 / 3 = 1.1e-5 eV/A for h = 4e-3 A; truncation O(h^4) measured
# <= 2e-6 at this h (2.3e-5 at h = 8e-3 on quasi-linear HCN, which is why h is not larger).  Bound = 3x the sum.
# The entropy contribution this clause is there to see is 0.1-0.5 eV/A.
FE_H = 4e-3
TOL_FE = 4e-5
# (a) Krylov update away from the fixed point.  Independent evaluation = Arnoldi + least squares in numpy on central
# finite differences (h = 1e-4, unit-norm directions) of the real map P -> D[P]: truncation h^2/6 |D(3)| ~ 1e-8, eigh
# noise 1e-15/h = 1e-11; measured agreement with the package 2e-12 .. 5e-11 of |f|, f = D[P0]-P0.  The smallest effect
# looked for (one Krylov direction missing at rank 4) is 7e-4 .. 1e-3 of |f|.
# (a) batch row vs the same molecule alone on the XL-BOMD call path.  Fermi_Q stops its chemical-potential Newton
# iteration when EVERY row of the batch is within 1e-9 electrons, so a row alone may stop one iteration earlier than in
# the batch: |delta N| <= 1e-9 per spin => trace differs by <= 4e-9, energies by <= |eps_F| * 4e-9 ~ 4e-8 eV.  Bounds
# are 5x that; LAPACK on differently padded matrices contributes 1e-12 .. 1e-9 (C05's measurement).
TOL_BR_E = 2e-7       # eV     Etot, Eelec, Electronic_entropy
TOL_BR_F = 2e-6       # eV/A
TOL_BR_D = 1e-7       #        density and dP2dt2 blocks
TOL_BR_N = 2e-8       #        electron count (trace) and Fermi occupations
KQ_H = 1e-4
TOL_KQ = 1e-6         # |dP2dt2_m - reference_m| / |f|   and   |Krylov_Error_m - reference residual_m|
# with fractional occupations Canon_DM_PRT is a 2^10-th order recursive expansion of the Fermi response, not the exact
# derivative: measured 4e-8 .. 1.1e-7 of |f| at 10-20 kK (independent of the FD step, so it is the expansion, not the
# difference quotient); a response evaluated at another temperature than the density is off by O(1)
TOL_KQ_FRACTIONAL = 1e-5
KQ_FRACTIONAL = 1e-3  # a case counts as "fractional" when some occupation is > 1e-3 away from 0/1
KQ_C1 = (0.2, 5.0)    # rank 1: dP2dt2_1 = c1 * f exactly (update along the residual); c1 = 1/(1 - r/2), |r| < 1


def gen_cases(tier, seed):
    g = gen.rng("C09", tier)
    cases = []
    # ---- (e) dynamics: the expensive ones first
    if tier == "quick":
        dyn = [("xl", 3, "H2O", 0.4, 4.0, None), ("xl", 6, "H2O", 0.4, 4.0, None), ("xl", 9, "H2O", 0.4, 4.0, None),
               ("ksa", 6, "H2O", 0.4, 4.0, 3)]
    else:
        dyn = []
        for k in ORDERS:
            dyn.append(("xl", k, "H2O", 0.4, 12.0, None))
        for k in (4, 5, 7, 8):
            dyn.append(("xl", k, "CH2O", 0.4, 8.0, None))
        for rank in (1, 2, 3, 4):
            dyn.append(("ksa", 6, "H2O", 0.4, 12.0, rank))
        for k in (3, 4, 5, 7, 8, 9):
            dyn.append(("ksa", k, "H2O", 0.4, 8.0, 3))
        dyn += [("xl", 6, "NH3", 0.4, 8.0, None), ("xl", 5, "HCN", 0.3, 6.0, None), ("ksa", 6, "CH2O", 0.4, 8.0, 2),
                ("xl", 9, "CH4", 0.4, 8.0, None), ("xl", 3, "CH3OH", 0.4, 6.0, None)]
    for eng, k, mol, dt, T, rank in dyn:
        c = {"kind": "dyn", "engine": eng, "k": k, "mol": mol, "dt": dt, "t_end": T, "method": "AM1",
             "vel_seed": int(g.integers(0, 2**31))}
        if rank:
            c["rank"] = rank
            c["T_el"] = 1500.0
        cases.append(c)
    # ---- (b) real stationary runs
    for k in ORDERS:
        engines = ["xl"] if (tier == "quick" and k not in (4, 8)) else ["xl", "ksa"]
        if tier == "quick" and k in (4, 8):
            engines = ["ksa"]
        if k == 6 or tier == "thorough":
            engines = engines + ["xl_damp"]
        for eng in engines:
            cases.append({"kind": "stationary", "engine": eng, "k": k, "mol": "H2O" if tier == "quick" else
                          ["H2O", "NH3", "CH2O"][k % 3], "method": "AM1"})
    # ---- (a) consistency
    if tier == "quick":
        plan = [("AM1", 4), ("PM3", 3), ("MNDO", 2), ("PM6_SP", 2)]
        nb = 2
    else:
        plan = [("AM1", 40), ("PM3", 30), ("MNDO", 25), ("PM6_SP", 25)]
        nb = 20
    pool_all = [n for n in gen.CLOSED_NEUTRAL + gen.IONS if n != "C6H6"]
    for method, n in plan:
        names = gen.names_for(method, pool_all)
        idx = g.permutation(len(names))
        for i in range(n):
            name = names[int(idx[i % len(names)])]
            cases.append({"kind": "consist", "mols": [name], "method": method, "geom_seed": int(g.integers(0, 2**31)),
                          "sigma": 0.06})
    # H2 in a minimal basis: the density is fixed by symmetry, so D[P] - P is exactly 0.0 at P = converged D
    cases.append({"kind": "consist", "mols": ["H2"], "method": "AM1", "geom_seed": 20260926, "sigma": 0.03})
    cases.append({"kind": "stationary", "engine": "ksa", "k": 6, "mol": "H2", "method": "AM1"})
    cases.append({"kind": "stationary", "engine": "xl", "k": 6, "mol": "H2", "method": "AM1"})
    for i in range(nb):
        method = ["AM1", "PM3", "MNDO", "PM6_SP"][i % 4]
        names = [n for n in gen.names_for(method, gen.CLOSED_NEUTRAL) if len(gen.molecule(n)[0]) <= 6]
        pick = [names[int(j)] for j in g.permutation(len(names))[:3]]
        cases.append({"kind": "consist", "mols": pick, "method": method, "geom_seed": int(g.integers(0, 2**31)),
                      "sigma": 0.05})
    # ---- (a) at an electronic temperature where the entropy term matters: force = -d(Etot + E_entropy)/dx
    if tier == "quick":
        fe = [("H2O", 20000.0, 4), ("HCN", 15000.0, 2)]
    else:
        fe = [("H2O", 20000.0, 4), ("H2O", 12000.0, 1), ("HCN", 15000.0, 2), ("CH2O", 12000.0, 3), ("NH3", 20000.0, 4),
              ("CO", 15000.0, 2), ("C2H4", 10000.0, 3), ("HF", 25000.0, 1), ("N2", 15000.0, 4), ("CH4", 25000.0, 2)]
    for name, T_el, rank in fe:
        cases.append({"kind": "freeenergy", "mol": name, "method": "AM1", "T_el": T_el, "rank": rank,
                      "geom_seed": int(g.integers(0, 2**31)), "ndir": 1 if tier == "quick" else 2})
    # ---- (a) quality of the rank-m Krylov update away from the fixed point
    if tier == "quick":
        kq = [("H2O", "AM1"), ("CH2O", "PM3"), ("NH3", "MNDO")]
    else:
        kq = [("H2O", "AM1"), ("CH2O", "PM3"), ("NH3", "MNDO"), ("HCN", "AM1"), ("CH4", "PM3"), ("CH3OH", "AM1"),
              ("C2H4", "MNDO"), ("HF", "PM6_SP"), ("CO2", "AM1"), ("H2S", "PM3"), ("CH3F", "PM6_SP"), ("N2", "MNDO")]
    for name, method in kq:
        cases.append({"kind": "krylov", "mol": name, "method": method, "T_el": 300.0,
                      "geom_seed": int(g.integers(0, 2**31)), "delta": 1e-3})
    # electronic-temperature ladder up to clearly fractional occupations: the response that builds the kernel
    # (Canon_DM_PRT) and the density itself (Fermi_Q) must belong to the SAME temperature
    if tier == "quick":
        lad = [("C2H4", "AM1", T) for T in (5000.0, 10000.0, 15000.0, 20000.0)] + \
              [("H2O", "AM1", 20000.0), ("CH2O", "PM3", 15000.0)]
    else:
        lad = [(n, me, T) for n, me in (("C2H4", "AM1"), ("H2O", "AM1"), ("CH2O", "PM3"), ("NH3", "MNDO"),
                                        ("HCN", "AM1"), ("CH3OH", "PM3"), ("HF", "PM6_SP"))
               for T in (5000.0, 10000.0, 15000.0, 20000.0)]
    for name, method, T in lad:
        cases.append({"kind": "krylov", "mol": name, "method": method, "T_el": T,
                      "geom_seed": int(g.integers(0, 2**31)), "delta": 1e-3, "full_obs": False})
    # ---- (a) rows of zero-padded mixed-size batches against the same molecule alone, on the XL-BOMD call path
    if tier == "quick":
        br = [(["H2O", "CH2O"], "AM1", 5000.0, 2), (["H2O", "CH2O"], "AM1", 8000.0, 3), (["CH2O", "H2O"], "PM3", 8000.0, 1),
              (["OH-", "CH4"], "AM1", 1500.0, 2), (["H2O", "OH-", "CH3OH"], "PM3", 1500.0, 3),
              (["H2O", "CH2O"], "AM1", 300.0, None), (["OH-", "H2O"], "MNDO", 300.0, None)]
    else:
        br = []
        for i, (names, method) in enumerate(((["H2O", "CH2O"], "AM1"), (["CH2O", "H2O"], "PM3"), (["HF", "NH3", "CH3OH"], "AM1"),
                                             (["NH3", "C2H4"], "MNDO"), (["H2", "H2O", "HCN"], "PM3"),
                                             (["HF", "CH3F"], "PM6_SP"))):
            for T in (5000.0, 8000.0, 12000.0):
                br.append((names, method, T, 1 + (i + int(T / 1000)) % 4))
            br.append((names, method, 300.0, None))
        for names, method in ((["OH-", "CH4"], "AM1"), (["H2O", "OH-", "CH3OH"], "PM3"), (["OH-", "H2O"], "MNDO"),
                              (["CN-", "HCOO-", "CH3NH2"], "AM1"), (["NH4+", "CH3OH"], "PM3"), (["H3O+", "OH-", "C2H6"], "AM1")):
            for T, rank in ((1500.0, 2), (5000.0, 3), (300.0, None)):
                br.append((names, method, T, rank))
    for names, method, T, rank in br:
        cases.append({"kind": "batchrow", "mols": names, "method": method, "T_el": T, "rank": rank,
                      "geom_seed": int(g.integers(0, 2**31))})
    # ---- (b)(c)(d) stub-driven, exhaustive: identical in both tiers (the space is finite and is covered)
    for variant in VARIANTS:
        for k in ORDERS:
            cases.append({"kind": "recur", "variant": variant, "k": k, "seq_seed": int(g.integers(0, 2**31))})
    if tier == "thorough":  # second, redundant pass: other matrix sizes and sequences
        for variant in VARIANTS:
            for k in ORDERS:
                cases.append({"kind": "recur", "variant": variant, "k": k, "seq_seed": int(g.integers(0, 2**31)),
                              "mol": ["NH3", "CH3OH", "H2O"][(k + len(variant)) % 3]})
    # expensive first: dyn, free energy, recur by decreasing k, then the rest
    cost = {"dyn": 0, "freeenergy": 1, "recur": 2, "stationary": 3, "krylov": 4, "consist": 5, "batchrow": 6}
    order = sorted(range(len(cases)), key=lambda i: (cost[cases[i]["kind"]], -cases[i].get("k", 0), i))
    return [cases[i] for i in order]


# =====================================================================================================
# helpers running in the worker
# =====================================================================================================
class _Margins:
    def __init__(self):
        self.m = {}

    def upd(self, name, val, tol):
        r = float(val) / float(tol)
        if not math.isfinite(r):
            r = 1e300
        if name not in self.m or r > self.m[name]:
            self.m[name] = r
        return r > 1.0


NROWS = 2   # the stub-driven harness works on a zero-padded batch of two different molecules


def _nmax(*vals):
    """max that PROPAGATES non-finite values (python's max / `x > y` silently drop NaN): returns NaN as soon as any
    argument (scalars or iterables of scalars) is NaN or infinite, so that the clause judged on it is violated."""
    flat = []
    for v in vals:
        if isinstance(v, (int, float, np.floating, np.integer)):
            flat.append(float(v))
        else:
            flat.extend(float(x) for x in v)
    if not flat:
        return 0.0
    a = np.asarray(flat, float)
    return float("nan") if not np.all(np.isfinite(a)) else float(a.max())


def _excess(x, ref=1.0):
    """max(0, x - ref), NaN-propagating"""
    x = float(x)
    return float("nan") if not math.isfinite(x) else max(0.0, x - ref)


def _sym(g, n, scale=1.0):
    """batch of NROWS random symmetric n x n matrices, shape (NROWS, n, n)"""
    A = g.normal(size=(NROWS, n, n)) * scale
    return 0.5 * (A + A.transpose(0, 2, 1))


def _need(obj, names):
    miss = [n for n in names if not hasattr(obj, n)]
    return miss


class _Stub:
    """Stand-in for Electronic_Structure.forward.  Call number n receives the propagated auxiliary
    density P(n) as `P0` (n = 0: the initial call from initialize(), P0 = None) and supplies
    D(n) [and W(n) for the Krylov variant] from `supply(n, P_n) -> (D, W)`; force is zero."""

    def __init__(self, supply):
        self.supply = supply
        self.n = 0
        self.P = {}       # n -> P(n) as received (numpy, whole batch)
        self.props = []
        self._dressed = None   # id of the Molecule whose scalar result attributes were already set

    def __call__(self, molecule, learned_parameters=None, xl_bomd_params=None, P0=None, dm_prop="SCF", **kw):
        import torch
        n = self.n
        Pn = None if P0 is None else P0.detach().cpu().numpy().copy()
        if Pn is not None:
            self.P[n] = Pn
        self.props.append(dm_prop)
        D, W = self.supply(n, Pn)
        molecule.dm = torch.as_tensor(np.asarray(D, float)).clone()
        if W is not None:
            molecule.dP2dt2 = torch.as_tensor(np.asarray(W, float)).clone()
        if self._dressed != id(molecule):
            nm = molecule.coordinates.shape[0]
            molecule.force = torch.zeros_like(molecule.coordinates.detach())
            molecule.Etot = torch.zeros(nm)
            molecule.Hf = torch.zeros(nm)
            molecule.Eelec = torch.zeros(nm)
            molecule.Enuc = torch.zeros(nm)
            molecule.e_gap = torch.zeros(nm)
            molecule.Electronic_entropy = torch.zeros(nm)
            self._dressed = id(molecule)
        self.n = n + 1


class _Harness:
    """Builds real Molecule + real XL_BOMD / KSA_XL_BOMD objects for one (variant, k)."""

    def __init__(self, variant, k, molname="CH2O", prefix="/tmp/c09-none/x"):
        self.variant, self.k, self.m = variant, k, k + 1
        Z1, X1, _, _ = gen.molecule(molname)
        Z2, X2, _, _ = gen.molecule("H2O" if molname != "H2O" else "HF")
        self.S, self.C = gen.pad_batch([(Z1, X1), (Z2, np.asarray(X2) + 0.1)])
        self.nb = 4 * len(self.S[0])
        self.prefix = prefix
        self.form = "krylov" if variant == "ksa" else "plain"

    def build(self, step_offset=0, checkpoint_every=0):
        import torch
        from seqm.MolecularDynamics import KSA_XL_BOMD, XL_BOMD
        from seqm.Molecule import Molecule
        from seqm.seqm_functions.constants import Constants
        sett = {"method": "AM1", "scf_eps": 1e-8, "scf_converger": [1], "sp2": [False]}
        sp = torch.as_tensor(np.asarray(self.S), dtype=torch.int64)
        xyz = torch.as_tensor(np.asarray(self.C, float), dtype=torch.float64).clone()
        mol = Molecule(Constants(), sett, xyz, sp)
        xl = {"k": self.k}
        cls = XL_BOMD
        if self.variant == "ksa":
            xl.update({"max_rank": 2, "err_threshold": 0.0, "T_el": 1500.0})
            cls = KSA_XL_BOMD
        damp = 20.0 if self.variant == "xl_damp" else None
        md = cls(xl_bomd_params=xl, damp=damp, seqm_parameters=sett, timestep=0.4,
                 Temp=300.0 if damp else 0.0, step_offset=step_offset,
                 output={"molid": [0], "prefix": self.prefix, "print every": 0, "checkpoint every": checkpoint_every,
                         "xyz": 0, "h5": {}})
        return mol, md

    # ---- level 1: drive _do_integrator_step directly -------------------------------------------------
    def drive(self, supply, i0, nsteps, snapshots=False):
        """fresh object, start at absolute step i0, `nsteps` steps.  -> (stub, snaps) where
        snaps[t] = state after t steps (what a checkpoint written there would hold)."""
        from vlib import run
        mol, md = self.build(step_offset=0)
        stub = _Stub(supply)
        md.esdriver.forward = stub
        with run.quiet():
            md.initialize(mol)
        snaps = {}
        for j in range(nsteps):
            md._do_integrator_step(i0 + j, mol, {})
            if snapshots:
                snaps[j + 1] = self._snapshot(mol, md, stub)
        return stub, snaps, md

    @staticmethod
    def _snapshot(mol, md, stub):
        return {"Pt": md._xl_ctx["Pt"].detach().clone(), "P_last": stub.P[stub.n - 1].copy(),
                "dm": mol.dm.detach().clone(), "W": None if mol.dP2dt2 is None else mol.dP2dt2.detach().clone(),
                "vel": mol.velocities.detach().clone(), "xyz": mol.coordinates.detach().clone(), "n": stub.n}

    def resume(self, supply, snap, abs_step, nsteps):
        """new Molecule + new MD object with step_offset = abs_step, context rebuilt from the snapshot the way
        run_from_checkpoint + run + initialize do it; P is the auxiliary density last observed at the stub
        (oracle-side knowledge, no slot arithmetic copied from the code).  -> stub of the continuation"""
        import torch
        from vlib import run
        mol, md = self.build(step_offset=abs_step)
        with torch.no_grad():
            mol.coordinates.copy_(snap["xyz"])
        mol.velocities = snap["vel"].clone()
        mol.force = torch.zeros_like(snap["xyz"])
        mol.dm = snap["dm"].clone()
        if snap["W"] is not None:
            mol.dP2dt2 = snap["W"].clone()
        stub = _Stub(supply)
        stub.n = snap["n"]
        md.esdriver.forward = stub
        with run.quiet():
            md.initialize(mol)
        if stub.n != snap["n"]:
            raise RuntimeError("initialize() of a resumed object called the electronic structure driver")
        md._xl_ctx = {"P": torch.as_tensor(snap["P_last"]).clone(), "Pt": snap["Pt"].clone(),
                      "es_amp": None, "es_amp_t": None}
        for j in range(nsteps):
            md._do_integrator_step(abs_step + j, mol, {})
        return stub

    # ---- level 2: the real md.run -> save_checkpoint -> run_from_checkpoint path ---------------------
    def real_run_with_resumes(self, supply, nsteps, scratch):
        """-> (P of the uninterrupted run {n: P(n)}, {step_done: {n: P(n)} of the resumed run})"""
        import os
        import shutil

        import seqm.ElectronicStructure as ESmod
        from seqm.MolecularDynamics import Molecular_Dynamics_Basic
        from vlib import run
        self.prefix = os.path.join(scratch, "l2_%s_%d" % (self.variant, self.k))
        cur = {"stub": None}
        orig_forward = ESmod.Electronic_Structure.forward
        orig_atomic = Molecular_Dynamics_Basic.__dict__["_atomic_save_checkpoint"]

        def class_forward(es_self, molecule, *a, **kw):
            return cur["stub"](molecule, *a, **kw)

        ESmod.Electronic_Structure.forward = class_forward
        try:
            mol, md = self.build(step_offset=0, checkpoint_every=1)
            stub = _Stub(supply)
            cur["stub"] = stub
            orig_save = md.save_checkpoint
            saved = {}

            def save_and_keep(*a, **kw):
                r = orig_save(*a, **kw)
                dst = "%s.ckpt%d.pt" % (self.prefix, kw["step_done"])
                shutil.copyfile(kw["path"], dst)
                saved[kw["step_done"]] = dst
                return r

            md.save_checkpoint = save_and_keep
            with run.quiet():
                md.run(mol, nsteps, reuse_P=True, remove_com=None, seed=7)
            base = dict(stub.P)
            resumed = {}
            # the checkpoint each resume READS is the genuine file written above; the checkpoints a resumed run would
            # WRITE in turn are never read by anybody, so their serialisation (7 ms each, 2000 of them) is skipped
            Molecular_Dynamics_Basic._atomic_save_checkpoint = staticmethod(lambda ckpt, path: None)
            for s in sorted(saved):
                if s >= nsteps:
                    continue
                st = _Stub(supply)
                st.n = s + 1
                cur["stub"] = st
                with run.quiet():
                    Molecular_Dynamics_Basic.run_from_checkpoint(saved[s])
                resumed[s] = dict(st.P)
        finally:
            ESmod.Electronic_Structure.forward = orig_forward
            Molecular_Dynamics_Basic._atomic_save_checkpoint = orig_atomic
        return base, resumed


def _supply_const(Dstar, ksa):
    Z = np.zeros_like(Dstar)
    return lambda n, P: (Dstar, Z if ksa else None)


def _supply_seq(Ds, Ws, ksa, bump=None):
    """D(n) = Ds[n] (+ bump at one n); Krylov variant: W(n) = Ws[n] (+ bump), W(0) irrelevant (reset by initialize)."""
    def f(n, P):
        D = Ds[n]
        W = Ws[n] if ksa else None
        if bump is not None and bump[0] == n:
            if ksa:
                W = W + bump[1]
            else:
                D = D + bump[1]
        return D, W
    return f


def _r2_sequence(R2, K, form, kappa_eff, Ds, Ws, nsteps):
    """P(1..nsteps) of the published recurrence for inputs D(n)/W(n); P(0) = D(0); Krylov: W(0) = 0."""
    v = R2.Verlet(K, Ds[0], kappa_eff)
    out = {}
    for j in range(nsteps):
        if form == "plain":
            out[j + 1] = v.step(D=Ds[j])
        else:
            out[j + 1] = v.step(W=(np.zeros_like(Ds[0]) if j == 0 else Ws[j]))
    return out


def _published_hist(R2, K, form, kappa_eff):
    """coefficients of P(n), ..., P(n-K) in the published recurrence written as a_D*u(n) + sum a_j P(n-j);
    plain: u = D, the -kappa P(n) part of kappa (D - P) is folded into a_0; Krylov: u = W."""
    a = R2.history_coefficients(K, kappa_eff if form == "plain" else 0.0)
    return a


# =====================================================================================================
# kind = recur : clauses (b) (c) (d), exhaustive
# =====================================================================================================
def _run_recur(case):
    from vlib import env
    from vlib.ref import xlverlet as R2
    variant, k = case["variant"], case["k"]
    m = k + 1
    ksa = variant == "ksa"
    form = "krylov" if ksa else "plain"
    viol, mg, cells = [], _Margins(), []
    mon = {n: 0 for n in ("fixedpoint_steps_checked", "fixedpoint_restarts_checked", "recurrence_steps_compared",
                          "recurrence_restarts_checked", "real_checkpoint_resumes", "real_checkpoint_steps_compared",
                          "impulse_coefficients_compared", "impulse_phases", "stability_polynomials_checked",
                          "closed_loop_steps_driven", "stub_calls")}
    R2.validate_table()
    kappa_tab, alpha_tab, c_tab = R2.TABLE[k]
    H = _Harness(variant, k, molname=case.get("mol", "CH2O"))
    # symbols this clause family depends on (refactor => inconclusive, not a guess)
    mol0, md0 = H.build()
    miss = _need(md0, ["one_step", "_propagate_P", "_do_integrator_step", "coeff", "coeff_D", "m", "esdriver",
                       "save_checkpoint", "run_from_checkpoint", "initialize"])
    if miss:
        return {"inconclusive": "symbols missing on the MD object: %s" % miss}
    if int(md0.m) != m:
        viol.append({"clause": "buffer-length", "mech": "history-length-not-k-plus-1",
                     "detail": {"k": k, "m": int(md0.m)}})
    g = np.random.default_rng(case["seq_seed"])
    nb = H.nb
    lattice = {"b_L1": [], "c_L1": [], "impulse_phases": [], "b_L2_resumes": [], "c_L2_resumes": []}

    def bad(clause, mech, **detail):
        detail.update({"variant": variant, "k": k})
        if len([v for v in viol if v["clause"] == clause]) < 4:
            viol.append({"clause": clause, "mech": mech, "detail": detail})

    # ------------------------------------------------------------------ (b) fixed point, level 1
    Dstar = _sym(g, nb) + np.eye(nb)[None]
    scale_b = max(1.0, float(np.abs(Dstar).max()))
    Nb = 4 * m
    for i0 in range(m):
        stub, snaps, _ = H.drive(_supply_const(Dstar, ksa), i0, Nb, snapshots=True)
        mon["stub_calls"] += stub.n
        worst, at = 0.0, None
        for n in range(1, Nb + 1):
            d = float(np.abs(stub.P[n] - Dstar).max())
            mon["fixedpoint_steps_checked"] += 1
            if d > worst or d != d:       # NaN is taken and then sticks (nothing compares greater than NaN)
                worst, at = d, n
        if mg.upd("b_fixed_point", worst / scale_b, TOL_FIX):
            bad("fixed-point", "xl-fixed-point-drift", i0=i0, step=at, deviation=worst)
        for t in range(1, Nb):
            cont = min(Nb - t, m + 2)     # one full wrap after the restart: every slot is read and rewritten
            st2 = H.resume(_supply_const(Dstar, ksa), snaps[t], i0 + t, cont)
            mon["stub_calls"] += cont
            w2 = _nmax(float(np.abs(st2.P[n] - Dstar).max()) for n in range(t + 1, t + cont + 1))
            mon["fixedpoint_restarts_checked"] += 1
            if mg.upd("b_fixed_point_after_restart", w2 / scale_b, TOL_FIX):
                bad("fixed-point-restart", "xl-fixed-point-drift-after-restart", i0=i0, step_done=i0 + t, deviation=w2)
        lattice["b_L1"].append(i0)
        cells.append("b/L1/%s/k%d/i0=%d" % (variant, k, i0))

    # ------------------------------------------------------------------ (c) recurrence, level 1
    Nc = 4 * m + 2                        # >= 4 wraps of the buffer
    Ds = [_sym(g, nb) for _ in range(Nc + 3 * m + 8)]
    Ws = [_sym(g, nb, 0.3) for _ in range(Nc + 3 * m + 8)]
    # kappa_eff measured as linear response of P(n0+1) to D(n0) [W(n0)]
    E = _sym(g, nb)
    EE = float((E * E).sum())
    n0 = m + 2
    base, _, _ = H.drive(_supply_seq(Ds, Ws, ksa), 0, n0 + 2)
    pert, _, _ = H.drive(_supply_seq(Ds, Ws, ksa, bump=(n0, E)), 0, n0 + 2)
    dP = pert.P[n0 + 1] - base.P[n0 + 1]
    kappa_eff = float((dP * E).sum() / EE)
    prop_res = float(np.abs(dP - kappa_eff * E).max())
    if mg.upd("c_kappa_response_proportional", prop_res, 1e-12 * max(1.0, float(np.abs(base.P[n0 + 1]).max()))):
        bad("kappa-response", "xl-response-not-proportional", residual=prop_res)
    if not (kappa_eff > 1e-3):
        bad("kappa-range", "xl-kappa-not-positive", kappa_eff=kappa_eff, kappa_table=kappa_tab)
    mg.upd("c_kappa_eff_over_table_" + form, kappa_eff, kappa_tab * (1 + 1e-12))
    if not kappa_eff <= kappa_tab * (1 + 1e-12):
        bad("kappa-range", "xl-kappa-above-published", kappa_eff=kappa_eff, kappa_table=kappa_tab)
    for i0 in range(m):
        stub, snaps, _ = H.drive(_supply_seq(Ds, Ws, ksa), i0, Nc, snapshots=True)
        mon["stub_calls"] += stub.n
        ref = _r2_sequence(R2, k, form, kappa_eff, Ds, Ws, Nc)
        pmax = max(1.0, max(float(np.abs(ref[n]).max()) for n in ref))
        worst, at = 0.0, None
        for n in range(1, Nc + 1):
            d = float(np.abs(stub.P[n] - ref[n]).max())
            mon["recurrence_steps_compared"] += 1
            if d > worst or d != d:
                worst, at = d, n
        if mg.upd("c_sequence_vs_published", worst / pmax, TOL_REC):
            bad("recurrence", "xl-recurrence-differs-from-published", i0=i0, first_bad_step=next(
                (n for n in range(1, Nc + 1) if not np.abs(stub.P[n] - ref[n]).max() / pmax <= TOL_REC), None),
                worst_step=at, deviation=worst, wraps_at_worst=at // m, kappa_eff=kappa_eff)
        for t in range(1, Nc):
            cont = min(Nc - t, m + 2)
            st2 = H.resume(_supply_seq(Ds, Ws, ksa), snaps[t], i0 + t, cont)
            mon["stub_calls"] += cont
            w2 = _nmax(float(np.abs(st2.P[n] - stub.P[n]).max()) for n in range(t + 1, t + cont + 1))
            w3 = _nmax(float(np.abs(st2.P[n] - ref[n]).max()) for n in range(t + 1, t + cont + 1))
            mon["recurrence_restarts_checked"] += 1
            if mg.upd("c_restart_vs_uninterrupted", w2 / pmax, TOL_REC) or \
                    mg.upd("c_restart_vs_published", w3 / pmax, TOL_REC):
                bad("recurrence-restart", "xl-restart-changes-recurrence", i0=i0, step_done=i0 + t,
                    phase=(i0 + t) % m, deviation_vs_uninterrupted=w2, deviation_vs_published=w3)
        lattice["c_L1"].append(i0)
        cells.append("c/L1/%s/k%d/i0=%d" % (variant, k, i0))

    # ------------------------------------------------------------------ (c) impulse responses, every phase twice
    pub = _published_hist(R2, k, form, kappa_eff)
    eff_by_phase = {}
    for n0 in range(1, 2 * m + 1):
        L = 2 * m + 2
        base, _, _ = H.drive(_supply_seq(Ds, Ws, ksa), 0, n0 + L)
        pert, _, _ = H.drive(_supply_seq(Ds, Ws, ksa, bump=(n0, E)), 0, n0 + L)
        mon["stub_calls"] += base.n + pert.n
        h, res = [], 0.0
        for t in range(L):
            d = pert.P[n0 + 1 + t] - base.P[n0 + 1 + t]
            ht = float((d * E).sum() / EE)
            res = _nmax(res, float(np.abs(d - ht * E).max()))
            h.append(ht)
        pm = max(1.0, max(float(np.abs(base.P[n]).max()) for n in base.P))
        if mg.upd("c_impulse_proportional", res / pm, 1e-12):
            bad("impulse-linearity", "xl-response-not-proportional", impulse_at=n0, residual=res)
        if not abs(h[0]) > 1e-12:       # no response at all (or NaN): a verdict, not a ZeroDivisionError
            bad("kappa-range", "xl-kappa-not-positive", kappa_eff=h[0], kappa_table=kappa_tab, impulse_at=n0)
            continue
        aD, a = R2.impulse_to_coefficients(h)
        eff_by_phase[n0] = (aD, a)
        mg.upd("c_kappa_eff_over_table_" + form, aD, kappa_tab * (1 + 1e-12))
        if not aD <= kappa_tab * (1 + 1e-12) or not aD > 1e-3:
            bad("kappa-range", "xl-kappa-above-published" if aD > kappa_tab else "xl-kappa-not-positive",
                kappa_eff=aD, kappa_table=kappa_tab, impulse_at=n0)
        if mg.upd("c_kappa_eff_phase_spread", abs(aD - kappa_eff), TOL_COEF * 10):
            bad("kappa-phase", "xl-coefficient-depends-on-phase", impulse_at=n0, kappa_here=aD, kappa_ref=kappa_eff)
        pub_here = _published_hist(R2, k, form, aD)
        for j in range(len(a)):
            want = pub_here[j] if j <= k else 0.0
            mon["impulse_coefficients_compared"] += 1
            if mg.upd("c_history_coefficient", abs(a[j] - want), TOL_COEF * (1 + 3 * j)):
                bad("history-coefficient", "xl-history-coefficient-differs", impulse_at=n0, phase=n0 % m, j=j,
                    measured=a[j], published=want)
        mon["impulse_phases"] += 1
        lattice["impulse_phases"].append(n0)
        cells.append("c/impulse/%s/k%d/phase%d/%s" % (variant, k, n0 % m, "first-pass" if n0 <= m else "after-wrap"))

    # ------------------------------------------------------------------ (b)+(c) level 2: real run + real checkpoints
    with env.Scratch("c09") as scratch:
        for tag, supply, N in (("b", _supply_const(Dstar, ksa), 4 * m), ("c", _supply_seq(Ds, Ws, ksa), Nc)):
            basep, resumed = H.real_run_with_resumes(supply, N, scratch)
            if tag == "b":
                ref = {n: Dstar for n in range(1, N + 1)}
                pmax = scale_b
            else:
                ref = _r2_sequence(R2, k, form, kappa_eff, Ds, Ws, N)
                pmax = max(1.0, max(float(np.abs(ref[n]).max()) for n in ref))
            if sorted(basep) != list(range(1, N + 1)):
                return {"inconclusive": "real run recorded steps %s, expected 1..%d" % (sorted(basep)[:3], N)}
            w = _nmax(float(np.abs(basep[n] - ref[n]).max()) for n in range(1, N + 1))
            mon["real_checkpoint_steps_compared"] += N
            if mg.upd("%s_real_run_vs_reference" % tag, w / pmax, TOL_FIX if tag == "b" else TOL_REC):
                bad("real-run-%s" % ("fixed-point" if tag == "b" else "recurrence"),
                    "xl-fixed-point-drift" if tag == "b" else "xl-recurrence-differs-from-published", deviation=w,
                    path="md.run")
            if sorted(resumed) != list(range(1, N)):
                bad("checkpoint-coverage", "xl-checkpoint-missing", have=sorted(resumed)[:5], want="1..%d" % (N - 1))
            nbit = 0
            for s, rp in resumed.items():
                if sorted(rp) != list(range(s + 1, N + 1)):
                    bad("resume-steps", "xl-resume-wrong-step-range", step_done=s, got=[min(rp or [0]), max(rp or [0])])
                    continue
                w2 = _nmax(float(np.abs(rp[n] - basep[n]).max()) for n in rp)
                nbit += int(all(np.array_equal(rp[n], basep[n]) for n in rp))
                mon["real_checkpoint_resumes"] += 1
                mon["real_checkpoint_steps_compared"] += len(rp)
                if mg.upd("%s_resumed_vs_uninterrupted" % tag, w2 / pmax, TOL_FIX if tag == "b" else TOL_REC):
                    bad("resume-%s" % ("fixed-point" if tag == "b" else "recurrence"),
                        "xl-fixed-point-drift-after-restart" if tag == "b" else "xl-restart-changes-recurrence",
                        step_done=s, phase=s % m, deviation=w2, path="run_from_checkpoint")
                lattice["%s_L2_resumes" % tag].append(s)
            cells.append("%s/L2/%s/k%d/resumes=%d/bitwise=%d" % (tag, variant, k, len(resumed), nbit))

    # ------------------------------------------------------------------ (d) stability
    import torch
    live = md0.coeff.detach().cpu().numpy().astype(float)
    live_D = float(md0.coeff_D)
    if live.shape[0] < m:
        return {"inconclusive": "md.coeff has %d entries, need >= %d" % (live.shape[0], m)}
    if live.shape[0] >= 2 * m:
        d2 = float(np.abs(live[m:2 * m] - live[:m]).max())
        if mg.upd("d_live_window_periodic", d2, 1e-15):
            bad("live-window", "xl-coefficient-window-not-periodic", deviation=d2)
    grid = R2.gamma_grid(200)
    # live tensor: x(n+1) = [coeff[0] + coeff_D (1-gamma)] x(n) + sum_{j>=1} coeff[j] x(n-j)   (both variants)
    worst, at = R2.max_root_modulus(list(live[:m]), live_D, grid)
    mon["stability_polynomials_checked"] += len(grid)
    if mg.upd("d_live_root_excess", _excess(worst), TOL_ROOT):
        bad("stability-live-roots", "xl-unstable-root", modulus=worst, gamma=at, source="md.coeff/md.coeff_D")
    # fixed-point condition on the live tensor: sum of coefficients = 1 exactly (sum c_j = 0)
    s1 = float(live[:m].sum() + live_D)
    if mg.upd("d_live_sum_rule", abs(s1 - 1.0), 1e-12):
        bad("live-sum-rule", "xl-fixed-point-drift", sum=s1)
    # measured effective coefficients (phase by phase)
    for n0, (aD, a) in eff_by_phase.items():
        ah = list(a[:m])
        if form == "krylov":
            ah[0] -= aD  # so that the generic formula a_0 + a_D (1-gamma) gives a_0 - a_D gamma
        w, at = R2.max_root_modulus(ah, aD, grid)
        mon["stability_polynomials_checked"] += len(grid)
        if mg.upd("d_measured_root_excess", _excess(w), TOL_ROOT):
            bad("stability-measured-roots", "xl-unstable-root", modulus=w, gamma=at, impulse_at=n0)
    # closed loop: 3000 steps, element-wise response factors covering the grid (2 rows x 16x16 -> 272 free elements)
    iu = np.triu_indices(nb)
    nfree = NROWS * len(iu[0])
    gvals = np.array([grid[int(round(i * (len(grid) - 1) / max(1, nfree - 1)))] for i in range(nfree)])
    extra = [1e-3, 1e-4, 1.0, 0.5]
    gvals[:len(extra)] = extra
    gvals = g.permutation(gvals)
    G = np.zeros((NROWS, nb, nb))
    for b in range(NROWS):
        Gb = np.zeros((nb, nb))
        Gb[iu] = gvals[b * len(iu[0]):(b + 1) * len(iu[0])]
        G[b] = Gb + Gb.T - np.diag(np.diag(Gb))
    gammas_driven = len(set(np.round(gvals, 12).tolist()))
    Pstar = _sym(g, nb)
    x0 = _sym(g, nb)
    x0 = np.sign(x0) * (0.5 + np.abs(x0))          # every element has an initial amplitude >= 0.5
    NL = 3000

    def supply_loop(n, P):
        if n == 0:
            return Pstar + x0, (np.zeros_like(x0) if ksa else None)
        x = P - Pstar
        return Pstar + (1.0 - G) * x, ((-G * x) if ksa else None)

    for i0 in (0, m // 2):
        stub, _, _ = H.drive(supply_loop, i0, NL)
        mon["stub_calls"] += stub.n
        v = R2.Verlet(k, Pstar + x0, kappa_eff)
        amp, dev, late, early = np.abs(x0).copy(), 0.0, np.zeros_like(x0), np.abs(x0).copy()
        for j in range(NL):
            Pn = v.P
            if form == "plain":          # D(0) = P(0) (converged start), linear response afterwards
                new = v.step(D=(Pstar + x0) if j == 0 else Pstar + (1.0 - G) * (Pn - Pstar))
            else:
                new = v.step(W=(np.zeros_like(x0) if j == 0 else -G * (Pn - Pstar)))
            xr = stub.P[j + 1] - Pstar
            amp = np.maximum(amp, np.abs(xr))
            if j < 1000:
                early = np.maximum(early, np.abs(xr))
            if j >= 2000:
                late = np.maximum(late, np.abs(xr))
            dev = _nmax(dev, float((np.abs(stub.P[j + 1] - new) / np.abs(x0)).max()))
            mon["closed_loop_steps_driven"] += 1
        ratio = amp / np.abs(x0)
        ij = np.unravel_index(int(np.argmax(ratio)), ratio.shape)
        if mg.upd("d_closed_loop_amplitude", float(ratio.max()), LOOP_BOUND):
            bad("stability-closed-loop", "xl-closed-loop-unbounded", i0=i0, amplitude_ratio=float(ratio.max()),
                gamma=float(G[ij]))
        if mg.upd("d_closed_loop_vs_published", dev, TOL_LOOP):
            bad("closed-loop-recurrence", "xl-recurrence-differs-from-published", i0=i0, deviation=dev, steps=NL)
        cells.append("d/loop/%s/k%d/i0=%d" % (variant, k, i0))
    cells.append("d/roots/%s/k%d" % (variant, k))
    del torch

    obs = {"variant": variant, "k": k, "kappa_table": kappa_tab, "kappa_eff_measured": kappa_eff,
           "kappa_eff_over_table": kappa_eff / kappa_tab, "live_coeff_D": live_D,
           "live_max_root_modulus_minus_1": worst - 1.0,
           "closed_loop_max_amplitude_ratio": float(ratio.max()),
           "closed_loop_late_over_early": float((late / early).max()), "closed_loop_distinct_gammas": gammas_driven,
           "batch_rows": NROWS, "matrix_size": nb,
           "measured_coefficients_phase1": [eff_by_phase[1][0]] + eff_by_phase[1][1][:m],
           "published_coefficients": [kappa_eff] + pub, "worst": dict(mg.m)}
    nontrivial = mon["recurrence_steps_compared"] >= 4 * m and mon["fixedpoint_steps_checked"] >= 4 * m
    return {"nontrivial": bool(nontrivial), "violations": viol, "margins": mg.m, "monitors": mon, "cells": cells,
            "obs": obs, "lattice": lattice}


# =====================================================================================================
# kind = consist : clause (a)
# =====================================================================================================
def _run_consist(case):
    import torch
    from vlib import run
    method = case["method"]
    gg = np.random.default_rng(case["geom_seed"])
    mols, charges = [], []
    for name in case["mols"]:
        Z, X, q, mult = gen.molecule(name)
        Xd = gen.distort(X, gg, sigma=case["sigma"])
        Xd = Xd @ gen.generic_rotation(Xd, gg).T
        mols.append((Z, Xd))
        charges.append(q)
    if len(mols) == 1:
        S, C, Q = mols[0][0], mols[0][1], charges[0]
    else:
        S, C = gen.pad_batch(mols)
        Q = charges
    sett = run.settings(method, eps=1e-11, converger=(2,))
    viol, mg, cells = [], _Margins(), []
    mon = {"consistency_calls_compared": 0, "consistency_calls_ineligible": 0, "consistency_calls_rejected": 0}
    with run.quiet():
        mol, es, _ = run.build(S, C, sett, charges=Q)
        es(mol)
    ref = run.harvest(mol, es)
    if ref["notconverged"] is not None and bool(np.any(ref["notconverged"])):
        return {"ineligible": "reference SCF not converged"}
    D = mol.dm.detach().clone()
    real = (np.asarray(S) > 0)
    if real.ndim == 1:
        real = real[None, :]
    variants = [("plain", {"k": 6})]
    for rank in (1, 2, 3, 4):
        for T_el in (300.0, 1500.0):
            variants.append(("ksa-r%d-T%g" % (rank, T_el),
                             {"k": 6, "max_rank": rank, "err_threshold": 0.0, "T_el": T_el}))
    obs = {"Etot_scf": np.asarray(ref["Etot"]).tolist(), "variants": {}}
    for label, xl in variants:
        try:
            with run.quiet():
                es(mol, P0=D.clone(), dm_prop="XL-BOMD", xl_bomd_params=dict(xl))
        except (NotImplementedError, ValueError) as exc:
            mon["consistency_calls_rejected"] += 1
            obs["variants"][label] = "rejected: %s" % str(exc)[:120]
            continue
        out = run.harvest(mol, es)
        ent = run.npy(mol.Electronic_entropy)
        occ = run.npy(getattr(mol, "Fermi_occ", None))
        if label != "plain" and occ is not None:
            frac = float(np.abs(occ - np.round(occ)).max())
            if not math.isfinite(frac) or not np.all(np.isfinite(ent)):
                viol.append({"clause": "consistency-not-finite", "mech": "xl-call-not-finite",
                             "detail": {"variant": label, "what": "Fermi_occ / Electronic_entropy", "method": method,
                                        "mols": case["mols"]}})
                continue
            if frac > 1e-12 or float(np.abs(ent).max()) > 0.0:
                mon["consistency_calls_ineligible"] += 1
                obs["variants"][label] = "ineligible: fractional occupation %.2e" % frac
                continue
        mon["consistency_calls_compared"] += 1
        cells.append("a/%s/%s/%s" % (method, "batch" if len(mols) > 1 else "single", label))
        fails = []
        for key in ("Etot", "Eelec", "Enuc", "Hf"):
            d = float(np.abs(np.asarray(out[key]) - np.asarray(ref[key])).max())
            if mg.upd("a_d" + key, d, TOL_E):
                fails.append((key, d))
        Fx, Fs = np.asarray(out["force"]), np.asarray(ref["force"])
        d = float(np.abs(Fx - Fs)[real].max())
        if mg.upd("a_dForce", d, TOL_F):
            fails.append(("force", d))
        dpad = float(np.abs(Fx)[~real].max()) if (~real).any() else 0.0
        if dpad != 0.0:
            fails.append(("force-on-padding", dpad))
        d = float(np.abs(np.asarray(out["dm"]) - D.numpy()).max())
        if mg.upd("a_D_of_P_minus_P", d, TOL_DP):
            fails.append(("D(P)-P", d))
        dW = None
        resid_DP = d
        nan_rows_all_zero_residual = None
        if label != "plain":
            Wk = run.npy(mol.dP2dt2)
            if not np.all(np.isfinite(Wk)):
                dW = float("nan")
                # per batch row: is the update non-finite exactly in the rows whose residual D(P) - P is exactly 0.0 ?
                rres = np.abs(np.asarray(out["dm"]) - D.numpy()).reshape(Wk.shape[0], -1).max(axis=1)
                rnan = ~np.isfinite(Wk).reshape(Wk.shape[0], -1).all(axis=1)
                nan_rows_all_zero_residual = bool(np.all(rres[rnan] == 0.0))
                resid_DP = float(rres[rnan].max())
                fails.append(("krylov-update-not-finite", float(rnan.sum())))
            else:
                dW = float(np.abs(Wk).max())
                if mg.upd("a_krylov_update_at_fixed_point", dW, 1e-6):
                    fails.append(("dP2dt2", dW))
        obs["variants"][label] = {"dE": float(np.abs(np.asarray(out["Etot"]) - np.asarray(ref["Etot"])).max()),
                                  "dF": float(np.abs(Fx - Fs)[real].max()), "dP2dt2": dW}
        for what, val in fails:
            if what in ("Etot", "Eelec", "Hf", "Enuc"):
                mech = "xl-energy-differs-from-scf-at-converged-density"
            elif what.startswith("force"):
                mech = "xl-force-differs-from-scf-at-converged-density"
            elif what == "krylov-update-not-finite":
                # deterministic classifier: the residual handed to the Krylov normalisation was exactly zero
                mech = "ksa-zero-residual-nan" if nan_rows_all_zero_residual else "ksa-update-not-finite"
            else:
                mech = "xl-density-not-stationary-at-converged-density"
            prev = [v for v in viol if v["clause"] == "consistency-" + what and v["mech"] == mech]
            if prev:   # one violation per (clause, mechanism) and case; further variants are listed in it
                prev[0]["detail"]["also_in_variants"].append(label)
                continue
            viol.append({"clause": "consistency-" + what, "mech": mech,
                         "detail": {"variant": label, "also_in_variants": [], "value": val,
                                    "max|D(P)-P|_in_offending_rows": resid_DP,
                                    "method": method, "mols": case["mols"],
                                    "species": np.asarray(S).tolist(), "coords": np.asarray(C).tolist()}})
    del torch
    return {"nontrivial": mon["consistency_calls_compared"] > 0, "violations": viol, "margins": mg.m, "monitors": mon,
            "cells": cells, "obs": obs}


def _run_freeenergy(case):
    """clause (a) with the electronic entropy term accounted for: at a self-consistent finite-T_el density
    (P = D(P), reached by iterating the XL-BOMD call with its own Krylov update P <- P + dP2dt2) the returned
    force must be minus the Richardson central difference of the returned Etot + Electronic_entropy."""
    from vlib import run
    Z, X, q, mult = gen.molecule(case["mol"])
    g = np.random.default_rng(case["geom_seed"])
    X = gen.distort(X, g, sigma=0.05)
    X = X @ gen.generic_rotation(X, g).T
    sett = run.settings(case["method"], eps=1e-11, converger=(2,))
    xl = {"k": 6, "max_rank": int(case["rank"]), "err_threshold": 0.0, "T_el": float(case["T_el"])}
    calls = [0]

    def solve(Xc, P=None):
        with run.quiet():
            mol, es, _ = run.build(Z, Xc, sett)
            if P is None:
                es(mol)
                P = mol.dm.detach().clone()
            res = None
            for it in range(150):
                es(mol, P0=P.clone(), dm_prop="XL-BOMD", xl_bomd_params=dict(xl))
                calls[0] += 1
                res = float((mol.dm - P).abs().max())
                if not math.isfinite(res):
                    return None, P, res
                if res < 2e-11:
                    return mol, P, res
                P = P + mol.dP2dt2
        return None, P, res

    mol, P, res = solve(X)
    if mol is None and not math.isfinite(res):
        return {"nontrivial": True, "monitors": {"free_energy_xl_calls": calls[0]},
                "violations": [{"clause": "free-energy-not-finite", "mech": "xl-call-not-finite",
                                "detail": {"mol": case["mol"], "T_el": case["T_el"], "rank": case["rank"],
                                           "what": "D(P) - P during the finite-T self-consistency iteration",
                                           "coords": X.tolist()}}]}
    if mol is None:
        return {"ineligible": "finite-T self-consistency not reached (residual %.1e)" % res}
    occ = run.npy(mol.Fermi_occ)
    frac = float(np.abs(occ - np.round(occ)).max())
    ent = float(run.npy(mol.Electronic_entropy)[0])
    if frac < 1e-4:
        return {"ineligible": "occupations integral at this T_el (entropy term negligible)"}
    F = run.npy(mol.force)[0]
    mg, viol, obs = _Margins(), [], {"T_el": case["T_el"], "rank": case["rank"], "max_fractional_occupation": frac,
                                     "E_entropy": ent, "directions": []}
    ndone = 0
    for _ in range(case["ndir"]):
        d = g.normal(size=X.shape)
        d /= np.linalg.norm(d)
        D, DE, ok = {}, {}, True
        for h in (FE_H, FE_H / 2):
            vals = []
            for sgn in (+1, -1):
                m2, _, r2 = solve(X + sgn * h * d, P)
                if m2 is None:
                    ok = False
                    break
                vals.append((float(run.npy(m2.Etot)[0]) + float(run.npy(m2.Electronic_entropy)[0]),
                             float(run.npy(m2.Etot)[0])))
            if not ok:
                break
            D[h] = (vals[0][0] - vals[1][0]) / (2 * h)
            DE[h] = (vals[0][1] - vals[1][1]) / (2 * h)
        if not ok:
            continue
        dOm = (4 * D[FE_H / 2] - D[FE_H]) / 3.0
        dE = (4 * DE[FE_H / 2] - DE[FE_H]) / 3.0
        Fd = float((F * d).sum())
        ndone += 1
        tol = TOL_FE + 1e-6 * abs(Fd)
        obs["directions"].append({"F.d": Fd, "-dOmega/ds": -dOm, "-dEtot/ds": -dE, "entropy_share": dE - dOm})
        if mg.upd("a_free_energy_force", abs(Fd + dOm), tol):
            viol.append({"clause": "consistency-free-energy-force", "mech": "xl-force-not-gradient-of-free-energy",
                         "detail": {"mol": case["mol"], "T_el": case["T_el"], "rank": case["rank"], "F.d": Fd,
                                    "-dOmega/ds": -dOm, "-dEtot/ds": -dE, "coords": X.tolist(), "direction": d.tolist()}})
    if ndone == 0:
        return {"ineligible": "displaced finite-T solutions did not converge"}
    return {"nontrivial": True, "violations": viol, "margins": mg.m,
            "monitors": {"free_energy_directions_checked": ndone, "free_energy_xl_calls": calls[0]},
            "cells": ["a/free-energy/%s/rank%d" % (case["method"], case["rank"])], "obs": obs}


def _run_batchrow(case):
    """clause (a), batch transparency ON THE XL-BOMD CALL PATH: every row of a zero-padded mixed-size batch against
    the same molecule evaluated ALONE through the same call (same P0 block), at electronic temperatures where the
    occupations of some row become fractional, and with a padded anion; plus the electron count of every row, and the
    SCF comparison for rows whose occupations are integral."""
    import torch
    from vlib import run
    method, T_el, rank = case["method"], float(case["T_el"]), case.get("rank")
    g = np.random.default_rng(case["geom_seed"])
    mols, charges = [], []
    for name in case["mols"]:
        Z, X, q, mult = gen.molecule(name)
        Xd = gen.distort(X, g, sigma=0.04)
        Xd = Xd @ gen.generic_rotation(Xd, g).T
        mols.append((Z, Xd))
        charges.append(q)
    S, C = gen.pad_batch(mols)
    nmax = len(S[0])
    sett = run.settings(method, eps=1e-11, converger=(2,))
    xl = {"k": 6}
    if rank:
        xl.update({"max_rank": int(rank), "err_threshold": 0.0, "T_el": T_el})
    with run.quiet():
        molb, esb, _ = run.build(S, C, sett, charges=charges)
        esb(molb)
    if esb.notconverged is not None and bool(torch.as_tensor(esb.notconverged).any()):
        return {"ineligible": "reference SCF of the batch not converged"}
    Dstar = molb.dm.detach().clone()
    Escf = run.npy(molb.Etot)
    Fscf = run.npy(molb.force)

    def grab(mol):
        o = {"Etot": run.npy(mol.Etot), "Eelec": run.npy(mol.Eelec), "force": run.npy(mol.force), "dm": run.npy(mol.dm),
             "ent": run.npy(mol.Electronic_entropy)}
        o["W"] = run.npy(mol.dP2dt2) if rank else None
        o["occ"] = run.npy(mol.Fermi_occ) if rank else None
        return o

    with run.quiet():
        esb(molb, P0=Dstar.clone(), dm_prop="XL-BOMD", xl_bomd_params=dict(xl))
    B = grab(molb)
    viol, mg, cells = [], _Margins(), []
    mon = {"batch_rows_vs_alone_compared": 0, "batch_padded_rows_compared": 0, "batch_padded_fractional_or_ion_rows": 0,
           "batch_rows_vs_scf_compared": 0}
    obs = {"mols": case["mols"], "method": method, "T_el": T_el, "rank": rank, "rows": {}}
    tore = {1: 1, 3: 1, 4: 2, 5: 3, 6: 4, 7: 5, 8: 6, 9: 7, 11: 1, 12: 2, 13: 3, 14: 4, 15: 5, 16: 6, 17: 7}
    for b, ((Z, Xd), q) in enumerate(zip(mols, charges)):
        n = len(Z)
        nb = 4 * n
        padded = n < nmax
        with run.quiet():
            mola, esa, _ = run.build(Z, Xd, sett, charges=q)
            esa(mola, P0=Dstar[b:b + 1, :nb, :nb].clone(), dm_prop="XL-BOMD", xl_bomd_params=dict(xl))
        A = grab(mola)
        frac = 0.0
        if rank:
            frac = float(np.abs(A["occ"][0] - np.round(A["occ"][0])).max())
        nel = sum(tore[z] for z in Z) - q
        row = {"padded": padded, "charge": q, "max_fractional_occupation_alone": frac}
        tag = "padded-row" if padded else "largest-row"
        mech = "xl-padded-row-differs-from-alone" if padded else "xl-batch-row-differs-from-alone"
        fails = []
        # every comparison goes through _Margins.upd, which treats a non-finite value as a violation
        checks = [("Etot", abs(float(B["Etot"][b]) - float(A["Etot"][0])), TOL_BR_E),
                  ("Eelec", abs(float(B["Eelec"][b]) - float(A["Eelec"][0])), TOL_BR_E),
                  ("Electronic_entropy", abs(float(B["ent"][b]) - float(A["ent"][0])), TOL_BR_E),
                  ("force", float(np.abs(B["force"][b, :n] - A["force"][0]).max()), TOL_BR_F),
                  ("density", float(np.abs(B["dm"][b, :nb, :nb] - A["dm"][0]).max()), TOL_BR_D),
                  ("electron-count", abs(float(np.trace(B["dm"][b])) - nel), TOL_BR_N),
                  ("electron-count-alone", abs(float(np.trace(A["dm"][0])) - nel), TOL_BR_N)]
        if padded:
            out_block = B["dm"][b].copy()
            out_block[:nb, :nb] = 0.0
            checks.append(("density-on-padding-orbitals", float(np.abs(out_block).max()), 1e-12))
            checks.append(("force-on-padding-atoms", float(np.abs(B["force"][b, n:]).max()), 1e-300))
        if rank:
            checks.append(("dP2dt2", float(np.abs(B["W"][b, :nb, :nb] - A["W"][0]).max()), TOL_BR_D))
            no = A["occ"].shape[1]
            checks.append(("Fermi_occ", float(np.abs(B["occ"][b, :no] - A["occ"][0]).max()), TOL_BR_N))
        for what, val, tol in checks:
            row[what] = val
            if mg.upd("a_batch_%s_%s" % (what.replace("-", "_"), "vs_alone" if "count" not in what and "padding" not in what
                                         else "abs"), val, tol):
                fails.append((what, val, tol))
        mon["batch_rows_vs_alone_compared"] += 1
        mon["batch_padded_rows_compared"] += int(padded)
        mon["batch_padded_fractional_or_ion_rows"] += int(padded and (frac > 1e-6 or q != 0))
        # against SCF where the occupations are integral (plain path: always)
        if frac <= 1e-12 and float(abs(A["ent"][0])) == 0.0:
            dE = abs(float(B["Etot"][b]) - float(Escf[b]))
            dF = float(np.abs(B["force"][b, :n] - Fscf[b, :n]).max())
            mon["batch_rows_vs_scf_compared"] += 1
            row["dE_vs_scf"], row["dF_vs_scf"] = dE, dF
            if mg.upd("a_batch_row_dEtot_vs_scf", dE, TOL_E):
                fails.append(("Etot-vs-SCF", dE, TOL_E))
            if mg.upd("a_batch_row_dForce_vs_scf", dF, TOL_F):
                fails.append(("force-vs-SCF", dF, TOL_F))
        cells.append("a/batch-row/%s/%s/T%g/%s/%s%s" % (method, "rank%d" % rank if rank else "plain", T_el, tag,
                                                       "fractional" if frac > 1e-6 else "integer",
                                                       "/ion" if q != 0 else ""))
        obs["rows"]["%d:%s" % (b, case["mols"][b])] = row
        for what, val, tol in fails:
            viol.append({"clause": "batch-row-%s" % what, "mech": mech,
                         "detail": {"row": b, "mol": case["mols"][b], "padded": padded, "charge": q, "value": val,
                                    "bound": tol, "method": method, "T_el": T_el, "rank": rank, "mols": case["mols"],
                                    "max_fractional_occupation_alone": frac,
                                    "species": np.asarray(S).tolist(), "coords": np.asarray(C).tolist()}})
    return {"nontrivial": mon["batch_rows_vs_alone_compared"] > 0, "violations": viol, "margins": mg.m, "monitors": mon,
            "cells": cells, "obs": obs}


def _run_krylov(case):
    """clause (a), quality of the Krylov-subspace update away from the fixed point.

    P0 = D* + delta (delta symmetric, |delta|_F = 1e-3, on valid AO positions), f = D[P0] - P0 from the real call.
    Reference = the published rank-m kernel update (Niklasson, JCTC 16, 3628 (2020), alg. 3) evaluated in numpy:
    v_0 = f/|f|; w_k = R v_k - v_k; v_{k+1} = w_k orthogonalised against v_0..v_k and normalised;
    alpha = argmin |W alpha - f|; update = -V alpha; with R v = (1/2) (D[P0 + h v] - D[P0 - h v]) / (2h) taken from
    the REAL map P -> D[P].  The factor 1/2 is the package's convention (see ASSUMPTIONS), used on purpose."""
    import torch
    from vlib import run
    Z, X, q, mult = gen.molecule(case["mol"])
    g = np.random.default_rng(case["geom_seed"])
    X = gen.distort(X, g, sigma=0.05)
    X = X @ gen.generic_rotation(X, g).T
    sett = run.settings(case["method"], eps=1e-11, converger=(2,))
    with run.quiet():
        mol, es, _ = run.build(Z, X, sett)
        es(mol)
    if es.notconverged is not None and bool(torch.as_tensor(es.notconverged).any()):
        return {"ineligible": "reference SCF not converged"}
    Dstar = mol.dm.detach().numpy()[0].copy()
    nb = Dstar.shape[0]
    valid = np.zeros(nb, bool)
    for a, z in enumerate(Z):
        valid[4 * a:4 * a + (4 if z > 1 else 1)] = True
    A = g.normal(size=(nb, nb))
    A = 0.5 * (A + A.T) * np.outer(valid, valid)
    delta = A / np.linalg.norm(A) * float(case["delta"])
    P0 = Dstar + delta
    ncalls = [0]

    def call(P, rank):
        with run.quiet():
            es(mol, P0=torch.as_tensor(P[None]).clone(), dm_prop="XL-BOMD",
               xl_bomd_params={"k": 6, "max_rank": int(rank), "err_threshold": 0.0, "T_el": float(case["T_el"])})
        ncalls[0] += 1
        return (mol.dm.detach().numpy()[0].copy(), mol.dP2dt2.detach().numpy()[0].copy(),
                float(torch.as_tensor(mol.Krylov_Error).reshape(-1)[0]))

    real = {r: call(P0, r) for r in (1, 2, 3, 4)}
    occ = run.npy(mol.Fermi_occ)
    frac = float(np.abs(occ - np.round(occ)).max())     # largest deviation of an occupation from 0/1 at P0
    fd_h = float(case.get("fd_h", KQ_H))
    D0 = real[1][0]
    f = D0 - P0
    fn = float(np.linalg.norm(f))
    if not math.isfinite(fn) or not math.isfinite(frac):
        return {"nontrivial": True, "monitors": {"krylov_xl_calls": ncalls[0]},
                "violations": [{"clause": "krylov-not-finite", "mech": "xl-call-not-finite",
                                "detail": {"mol": case["mol"], "method": case["method"], "T_el": case["T_el"],
                                           "what": "D[P0] or Fermi_occ", "coords": X.tolist()}}]}
    if not fn > 1e-6:
        return {"ineligible": "residual D[P0]-P0 vanishes (%.1e): nothing to precondition" % fn}

    def resp(v):
        return (call(P0 + fd_h * v, 1)[0] - call(P0 - fd_h * v, 1)[0]) / (2.0 * fd_h)

    def kernel_updates(scale):
        """rank-1..4 updates and residuals of the published algorithm with response = scale * dD/dP"""
        V, Rv, out, dW = [], [], {}, f.copy()
        for k in range(4):
            v = dW.copy()
            for vj in V:
                v = v - float(np.sum(v * vj)) * vj
            v = v / np.linalg.norm(v)
            V.append(v)
            Rv.append(resp(v))
            dW = scale * Rv[-1] - v
            Vm = np.stack([x.ravel() for x in V], 1)
            Wm = np.stack([(scale * r - x).ravel() for r, x in zip(Rv, V)], 1)
            al = np.linalg.lstsq(Wm, f.ravel(), rcond=None)[0]
            out[k + 1] = (-(Vm @ al).reshape(nb, nb), float(np.linalg.norm(Wm @ al - f.ravel()) / fn))
        return out

    ref = kernel_updates(0.5)        # the package's convention: half of the spin-summed response
    # what the full response would deliver: observation only (skipped on the temperature ladder to save calls)
    ref_full = kernel_updates(1.0) if case.get("full_obs", True) else None
    dn = float(np.linalg.norm(delta))
    mg, viol = _Margins(), []
    obs = {"mol": case["mol"], "method": case["method"], "|delta|": dn, "|f|": fn, "ranks": {}}
    witness = {"mol": case["mol"], "method": case["method"], "T_el": case["T_el"], "coords": X.tolist(),
               "delta_seed": case["geom_seed"]}
    ncmp, prev_err = 0, None
    tol_kq = TOL_KQ if frac <= 1e-9 else TOL_KQ_FRACTIONAL
    tag = "fractional" if frac > 1e-9 else "integer"
    obs.update({"T_el": case["T_el"], "max_fractional_occupation": frac, "tolerance": tol_kq})
    for r in (1, 2, 3, 4):
        _, u, kerr = real[r]
        if not np.all(np.isfinite(u)):
            viol.append({"clause": "krylov-update-not-finite", "mech": "ksa-update-not-finite",
                         "detail": dict(witness, rank=r)})
            continue
        du = float(np.linalg.norm(u - ref[r][0]) / fn)
        de = abs(kerr - ref[r][1])
        ncmp += 1
        to_prev = float(np.linalg.norm(u - (ref[r - 1][0] if r > 1 else 0.0)) / fn)
        obs["ranks"][r] = {"|u-ref|/|f|": du, "Krylov_Error": kerr, "ref_residual": ref[r][1],
                           "e_m/|delta|": float(np.linalg.norm(P0 + u - Dstar) / dn),
                           "e_m/|delta|_if_full_response_were_used": None if ref_full is None else float(
                               np.linalg.norm(P0 + ref_full[r][0] - Dstar) / dn),
                           "|u_m-ref_(m-1)|/|f|": to_prev}
        if mg.upd("a_krylov_update_vs_independent_kernel_%s_occ" % tag, du, tol_kq):
            viol.append({"clause": "krylov-update-rank%d" % r, "mech": "ksa-update-differs-from-rank-m-kernel",
                         "detail": dict(witness, rank=r, rel_deviation=du, max_fractional_occupation=frac,
                                        rel_distance_to_rank_m_minus_1_reference=to_prev,
                                        norm_update_over_norm_f=float(np.linalg.norm(u) / fn))})
        if mg.upd("a_krylov_reported_error_vs_independent_%s_occ" % tag, de, tol_kq):
            viol.append({"clause": "krylov-reported-error-rank%d" % r, "mech": "ksa-reported-kernel-error-differs",
                         "detail": dict(witness, rank=r, reported=kerr, independent=ref[r][1])})
        if prev_err is not None:  # least-squares residual over nested subspaces cannot increase
            if mg.upd("a_krylov_error_monotone", _excess(kerr, prev_err), 1e-9):
                viol.append({"clause": "krylov-error-monotone", "mech": "ksa-kernel-residual-not-monotone",
                             "detail": dict(witness, rank=r, error=kerr, previous=prev_err)})
        prev_err = kerr
    # rank 1: the update is along the residual itself, dP2dt2_1 = c1 f, c1 = 1/(1 - r/2) for |r| < 1
    u1 = real[1][1]
    if np.all(np.isfinite(u1)):
        c1 = float(np.sum(u1 * f) / (fn * fn))
        par = float(np.linalg.norm(u1 - c1 * f) / fn)
        obs["rank1_c1"] = c1
        mg.upd("a_krylov_rank1_gain_low", KQ_C1[0], max(c1, 1e-300))
        mg.upd("a_krylov_rank1_gain_high", c1, KQ_C1[1])
        mg.upd("a_krylov_rank1_parallel_to_residual", par, 1e-9)
        if not (KQ_C1[0] <= c1 <= KQ_C1[1]) or not par <= 1e-9:
            viol.append({"clause": "krylov-rank1-gain", "mech": "ksa-rank1-update-degenerate",
                         "detail": dict(witness, c1=c1, non_parallel_part=par,
                                        note="c1 = 0 means the auxiliary density is decoupled from D")})
    obs["xl_calls"] = ncalls[0]
    return {"nontrivial": ncmp > 0, "violations": viol, "margins": mg.m,
            "monitors": {"krylov_updates_compared": ncmp, "krylov_fd_responses": 8 if ref_full is not None else 4,
                         "krylov_xl_calls": ncalls[0],
                         "krylov_fractional_cases_compared": int(ncmp > 0 and frac > KQ_FRACTIONAL)},
            "cells": ["a/krylov-quality/%s/T%g/%s/rank%d" % (case["method"], case["T_el"], tag, r)
                      for r in obs["ranks"]], "obs": obs}


# =====================================================================================================
# real MD helpers (stationary, dyn)
# =====================================================================================================
_MASS = {1: 1.008, 6: 12.011, 7: 14.007, 8: 15.999, 9: 18.998}


def _make_md(engine, k, sett, dt, prefix, rank=None, T_el=1500.0, h5=True, Temp=0.0, damp=None):
    from seqm.MolecularDynamics import KSA_XL_BOMD, XL_BOMD, Molecular_Dynamics_Basic
    out = {"molid": [0], "prefix": prefix, "print every": 0, "checkpoint every": 0, "xyz": 0,
           "h5": {"data": 1, "coordinates": 1} if h5 else {}}
    if engine == "bomd":
        return Molecular_Dynamics_Basic(seqm_parameters=sett, timestep=dt, Temp=Temp, output=out)
    if engine == "ksa":
        xl = {"k": k, "max_rank": int(rank or 3), "err_threshold": 0.0, "T_el": float(T_el)}
        return KSA_XL_BOMD(xl_bomd_params=xl, damp=None, seqm_parameters=sett, timestep=dt, Temp=Temp, output=out)
    return XL_BOMD(xl_bomd_params={"k": k}, damp=damp, seqm_parameters=sett, timestep=dt, Temp=Temp, output=out)


def _molecule(Z, X, sett):
    import torch
    from seqm.Molecule import Molecule
    from seqm.seqm_functions.constants import Constants
    sp = torch.as_tensor(np.asarray([Z]), dtype=torch.int64)
    xyz = torch.as_tensor(np.asarray(X, float)[None], dtype=torch.float64).clone()
    return Molecule(Constants(), sett, xyz, sp)


def _run_stationary(case):
    import scipy.optimize
    import torch
    from vlib import run
    engine, k, method = case["engine"], case["k"], case["method"]
    m = k + 1
    Z, X, q, mult = gen.molecule(case["mol"])
    sett = run.settings(method, eps=1e-11, converger=(2,))
    nat = len(Z)

    def fun(x):
        o = run.single_point(Z, x.reshape(nat, 3), sett)
        return float(o["Etot"][0]), -np.asarray(o["force"][0]).reshape(-1)

    r = scipy.optimize.minimize(fun, np.asarray(X).reshape(-1), jac=True, method="BFGS",
                                options={"gtol": 2e-7, "maxiter": 200})
    Xr = r.x.reshape(nat, 3)
    o = run.single_point(Z, Xr, sett)
    fmax = float(np.abs(o["force"][0]).max())
    if not fmax < 1e-6:
        return {"ineligible": "relaxation stopped at |F|max = %.2e" % fmax}
    sett2 = run.settings(method, eps=1e-11, converger=(2,))
    mol = _molecule(Z, Xr, sett2)
    # "xl_damp": Langevin thermostat code active (two calls per step) at Temp = 0, i.e. friction without noise
    md = _make_md("xl" if engine == "xl_damp" else engine, k, sett2, 0.4, "/tmp/c09-none/s", rank=3, h5=False,
                  damp=20.0 if engine == "xl_damp" else None)
    rec = []
    orig = md.esdriver.forward

    def watch(molecule, *a, **kw):
        P0 = kw.get("P0")
        P0 = None if P0 is None else P0.detach().clone()
        res = orig(molecule, *a, **kw)
        W = getattr(molecule, "dP2dt2", None)
        rec.append((kw.get("dm_prop", "SCF"), P0, molecule.dm.detach().clone(),
                    W.detach().clone() if torch.is_tensor(W) else None))
        return res

    md.esdriver.forward = watch
    nsteps = 3 * m
    raised = None
    try:
        with run.quiet():
            md.run(mol, nsteps, reuse_P=True, remove_com=None, seed=1)
    except Exception as exc:  # an exception in a valid run at rest is itself the observation (judged below)
        raised = "%s: %s" % (type(exc).__name__, str(exc)[:200])
    xl_calls = [t for t in rec if t[0] == "XL-BOMD"]
    mg, viol = _Margins(), []
    # first non-finite quantity returned by the electronic-structure call, and the residual it was computed from
    for idx, (_, P0, Dn, W) in enumerate(xl_calls):
        bad_W = W is not None and not bool(torch.isfinite(W).all())
        bad_D = not bool(torch.isfinite(Dn).all())
        if bad_W or bad_D:
            resid = float((Dn - P0).abs().max()) if not bad_D else float("nan")
            mech = "ksa-zero-residual-nan" if (bad_W and resid == 0.0) else "xl-real-run-not-finite"
            return {"nontrivial": True, "margins": {},
                    "monitors": {"stationary_real_steps": len(xl_calls), "stationary_relax_evals": int(r.nfev)},
                    "cells": ["b/real/%s/k%d" % (engine, k)],
                    "violations": [{"clause": "stationary-real-run-not-finite", "mech": mech,
                                    "detail": {"engine": engine, "k": k, "mol": case["mol"], "first_bad_call": idx + 1,
                                               "max|D(P)-P|_at_that_call": resid, "what": "dP2dt2" if bad_W else "dm",
                                               "run_raised": raised, "coords": Xr.tolist()}}],
                    "obs": {"engine": engine, "k": k, "fmax": fmax, "first_non_finite_call": idx + 1,
                            "residual_there": resid, "run_raised": raised}}
    if raised is not None:
        return {"inconclusive": "stationary run raised without a non-finite value being observed first: " + raised}
    if len(xl_calls) != nsteps:
        return {"inconclusive": "expected %d XL-BOMD calls, watched %d" % (nsteps, len(xl_calls))}
    D0 = rec[0][2]
    w1 = _nmax(float((P - D).abs().max()) for _, P, D, _ in xl_calls)
    w2 = _nmax(float((P - D0).abs().max()) for _, P, D, _ in xl_calls)
    dx = float((mol.coordinates.detach() - torch.as_tensor(Xr)[None]).abs().max())
    if mg.upd("b_real_stationary_P_minus_D", w1, TOL_STAT):
        viol.append({"clause": "stationary-real-run", "mech": "xl-fixed-point-drift",
                     "detail": {"engine": engine, "k": k, "max|P-D|": w1, "steps": nsteps}})
    if mg.upd("b_real_stationary_P_minus_D0", w2, TOL_STAT):
        viol.append({"clause": "stationary-real-run-drift", "mech": "xl-fixed-point-drift",
                     "detail": {"engine": engine, "k": k, "max|P-D(0)|": w2, "steps": nsteps}})
    return {"nontrivial": True, "violations": viol, "margins": mg.m,
            "monitors": {"stationary_real_steps": nsteps, "stationary_relax_evals": int(r.nfev)},
            "cells": ["b/real/%s/k%d" % (engine, k)],
            "obs": {"engine": engine, "k": k, "fmax": fmax, "max|P-D|": w1, "max|P-D0|": w2, "moved": dx}}


def _run_dyn(case):
    import os

    import h5py
    import torch
    from vlib import env, run
    engine, k, method = case["engine"], case["k"], case["method"]
    dt0, T = case["dt"], case["t_end"]
    Z, X, q, mult = gen.molecule(case["mol"])
    g = np.random.default_rng(case["vel_seed"])
    X = gen.distort(X, g, sigma=0.03)
    X = X @ gen.generic_rotation(X, g).T
    M = np.array([_MASS[z] for z in Z])
    X = X - (M[:, None] * X).sum(0) / M.sum()
    # 300 K velocities with zero linear and angular momentum (same field for every member of the family)
    v = g.normal(size=X.shape) * np.sqrt(300.0 / M)[:, None] * 0.9118367323190634e-3
    v -= (M[:, None] * v).sum(0) / M.sum()
    L = (M[:, None] * np.cross(X, v)).sum(0)
    I = np.zeros((3, 3))
    for a in range(len(Z)):
        I += M[a] * ((X[a] @ X[a]) * np.eye(3) - np.outer(X[a], X[a]))
    v -= np.cross(np.linalg.pinv(I) @ L, X)

    def go(eng, dt, nsteps, eps, scratch):
        sett = run.settings(method, eps=eps, converger=(2,))
        mol = _molecule(Z, X, sett)
        mol.velocities = torch.as_tensor(v[None]).clone()
        prefix = os.path.join(scratch, "%s_%g" % (eng, dt))
        md = _make_md(eng, k, sett, dt, prefix, rank=case.get("rank"), T_el=case.get("T_el", 1500.0), Temp=300.0)
        with run.quiet():
            md.run(mol, nsteps, reuse_P=True, remove_com=None, seed=3)
        with h5py.File(prefix + ".0.h5", "r") as h:
            E = h["data/thermo/Ek"][...] + h["data/thermo/Ep"][...]
            steps = h["data/steps"][...]
            xs = h["coordinates/values"][...]
            xsteps = h["coordinates/steps"][...]
        if list(steps) != list(range(nsteps + 1)) or list(xsteps) != list(range(nsteps + 1)):
            raise RuntimeError("unexpected step arrays in HDF5 output")
        return np.asarray(E, float).reshape(nsteps + 1), np.asarray(xs, float).reshape(nsteps + 1, len(Z), 3)

    n0 = int(round(T / dt0))
    fam = {}
    with env.Scratch("c09dyn") as scratch:
        for f in (1, 2, 4):
            E, xs = go(engine, dt0 / f, n0 * f, 1e-10, scratch)
            fam[f] = (E[::f], xs[::f])
        Eb, xb = go("bomd", dt0 / 8, n0 * 8, 1e-11, scratch)
        Eb, xb = Eb[::8], xb[::8]
    mg, viol = _Margins(), []
    std = {f: float(np.std(fam[f][0])) for f in fam}
    rms = {f: float(np.sqrt(np.mean((fam[f][0] - fam[f][0][0]) ** 2))) for f in fam}
    com = lambda x: x - (M[None, :, None] * x).sum(1, keepdims=True) / M.sum()
    # distance to the BOMD trajectory: rms over atoms and over the common time grid (max norm kept as an observation)
    dist = {f: float(np.sqrt(np.mean(np.sum((com(fam[f][1]) - com(xb)) ** 2, axis=-1)))) for f in fam}
    dmax = {f: float(np.abs(com(fam[f][1]) - com(xb)).max()) for f in fam}
    E0 = {f: float(fam[f][0][0]) for f in fam}
    detail = {"engine": engine, "k": k, "mol": case["mol"], "dt": dt0, "std": std, "rms_err": rms, "dist": dist,
              "dist_max": dmax}
    # same initial condition => identical step-0 energy for every dt (it is the SCF energy + Ek)
    if mg.upd("e_step0_energy_equal", _nmax(abs(E0[f] - E0[1]) for f in fam), 1e-8):
        viol.append({"clause": "dyn-initial-energy", "mech": "xl-initial-energy-depends-on-dt", "detail": detail})
    if mg.upd("e_step0_energy_vs_bomd", abs(E0[1] - float(Eb[0])), 1e-7):
        viol.append({"clause": "dyn-initial-energy-vs-bomd", "mech": "xl-energy-differs-from-scf-at-converged-density",
                     "detail": dict(detail, E0_xl=E0[1], E0_bomd=float(Eb[0]))})
    for a, b in ((1, 2), (2, 4)):
        r1 = std[a] / std[b]
        r2 = rms[a] / rms[b]
        r3 = dist[a] / dist[b]
        mg.upd("e_fluct_ratio_low", RATIO_LO, r1)
        mg.upd("e_fluct_ratio_high", r1, RATIO_HI)
        mg.upd("e_energy_error_ratio_low", RATIO_LO, r2)
        mg.upd("e_bomd_distance_ratio_low", RATIO_LO, r3)
        if not (RATIO_LO <= r1 <= RATIO_HI):
            viol.append({"clause": "dyn-fluctuation-ratio", "mech": "xl-shadow-energy-not-second-order",
                         "detail": dict(detail, halving="dt/%d->dt/%d" % (a, b), ratio=r1)})
        if not r2 >= RATIO_LO:
            viol.append({"clause": "dyn-dt-independent-residual", "mech": "xl-dt-independent-energy-residual",
                         "detail": dict(detail, halving="dt/%d->dt/%d" % (a, b), ratio=r2)})
        if not r3 >= RATIO_LO:
            viol.append({"clause": "dyn-bomd-convergence", "mech": "xl-not-converging-to-bomd",
                         "detail": dict(detail, halving="dt/%d->dt/%d" % (a, b), ratio=r3)})
    return {"nontrivial": True, "violations": viol, "margins": mg.m,
            "monitors": {"dyn_families_judged": 1, "dyn_md_steps": n0 * 7 + n0 * 8},
            "cells": ["e/%s/k%d/%s%s" % (engine, k, case["mol"], "/rank%d" % case["rank"] if case.get("rank") else "")],
            "obs": dict(detail, std_ratios=[std[1] / std[2], std[2] / std[4]],
                        rms_ratios=[rms[1] / rms[2], rms[2] / rms[4]],
                        dist_ratios=[dist[1] / dist[2], dist[2] / dist[4]],
                        dist_max_ratios=[dmax[1] / dmax[2], dmax[2] / dmax[4]], bomd_std=float(np.std(Eb)))}


def run_case(case):
    kind = case["kind"]
    if kind == "recur":
        return _run_recur(case)
    if kind == "consist":
        return _run_consist(case)
    if kind == "stationary":
        return _run_stationary(case)
    if kind == "dyn":
        return _run_dyn(case)
    if kind == "freeenergy":
        return _run_freeenergy(case)
    if kind == "krylov":
        return _run_krylov(case)
    if kind == "batchrow":
        return _run_batchrow(case)
    raise ValueError("unknown case kind %r" % kind)


# =====================================================================================================
def summarize(cases, results, report):
    """coverage of the exhaustively enumerated sub-lattice of clauses (b)-(d)."""
    want_pairs = [(v, k) for v in VARIANTS for k in ORDERS]
    seen = {}
    for c, r in zip(cases, results):
        if c.get("kind") != "recur" or not r or not r.get("lattice"):
            continue
        seen[(c["variant"], c["k"])] = r["lattice"]
    missing = []
    tot = {"start_phases_b": 0, "start_phases_c": 0, "impulse_phases": 0, "real_resumes_b": 0, "real_resumes_c": 0}
    for v, k in want_pairs:
        lat = seen.get((v, k))
        m = k + 1
        if lat is None:
            missing.append("%s/k%d: case did not complete" % (v, k))
            continue
        if sorted(lat["b_L1"]) != list(range(m)):
            missing.append("%s/k%d: (b) start steps %s" % (v, k, lat["b_L1"]))
        if sorted(lat["c_L1"]) != list(range(m)):
            missing.append("%s/k%d: (c) start steps %s" % (v, k, lat["c_L1"]))
        if sorted(lat["impulse_phases"]) != list(range(1, 2 * m + 1)):
            missing.append("%s/k%d: impulse phases" % (v, k))
        if sorted(lat["b_L2_resumes"]) != list(range(1, 4 * m)):
            missing.append("%s/k%d: (b) real resumes" % (v, k))
        if sorted(lat["c_L2_resumes"]) != list(range(1, 4 * m + 2)):
            missing.append("%s/k%d: (c) real resumes" % (v, k))
        tot["start_phases_b"] += len(lat["b_L1"])
        tot["start_phases_c"] += len(lat["c_L1"])
        tot["impulse_phases"] += len(lat["impulse_phases"])
        tot["real_resumes_b"] += len(lat["b_L2_resumes"])
        tot["real_resumes_c"] += len(lat["c_L2_resumes"])
    complete = not missing
    if not complete:
        report.notes.append("exhaustive sub-lattice of C09 (b)-(d) incomplete: %s" % "; ".join(missing[:6]))
    return {"exhaustive_sublattice": {
        "clauses": ["(b) fixed point", "(c) executed recurrence = published recurrence", "(d) stability"],
        "exhaustive": bool(complete),
        "space": {"k": list(ORDERS), "variants": list(VARIANTS),
                  "start_step_i0": "every i0 in 0..k", "restart_step_done": "every step_done in 1..N-1 "
                  "(N = 4(k+1) for (b), 4(k+1)+2 for (c)), through a rebuilt context (continued for one full wrap "
                  "+ 2 steps) and through the real save_checkpoint/run_from_checkpoint files (continued to the end)",
                  "impulse_phase": "every n0 in 1..2(k+1) (each buffer phase before and after a wrap)",
                  "gamma_grid": "200 points i/200, i=1..200, plus 1e-3, 1e-4 in the closed loop"},
        "cells_expected": len(want_pairs), "cells_completed": len(seen), "totals": tot,
        "missing": missing[:20]}}
