"""C10 — a run killed at any instant and resumed equals the uninterrupted run.

For each configuration: one uninterrupted reference run, then crash scenarios, each played in child
processes (crash child -> [resume child under another crash]* -> final resume child):

 logical    os._exit(137) immediately before / after the n-th invocation of a wrapped function of the
            step loop, the writers and the checkpoint writer — enumerated completely from the census of
            the reference run's event log (a case handles one residue class of the enumeration);
 exception  the same points, but an exception is raised (the repository's `finally` block runs);
 sequence   up to three crashes, the resumed run is itself run under injection;
 syscall    fresh interpreter under `strace -f -P <file> -e inject=<class>:signal=KILL:when=N` for the
            pwrite64 calls on the HDF5 files, the write calls on the XYZ files, the writev calls of
            torch.save into the temporary checkpoint, and the rename onto the restart file (N from a
            first traced census run);
 sigkill    SIGKILL from the parent at random wall-clock instants.

Oracle after the final resume: see `judge`."""
import os
import re
import shutil

import numpy as np

from vlib import env, gen

PROPERTY = "C10"
LEVEL = "fault_enumeration"
RULE = ("case = (configuration: engine, molecules incl. ions, molecule ids, run length, checkpoint cadence, output "
        "cadences, density reuse) x (one shard of the crash-scenario enumeration: logical crash points = residue class "
        "of the complete list (wrapped function, n-th invocation, before|after) taken from the reference run's census; "
        "exception-style crashes; sequences of 2-3 crashes; strace-injected SIGKILL at the N-th pwrite64/write/writev/"
        "rename touching the run's files; SIGKILL at random instants); a scenario is non-trivial when a crash was "
        "actually delivered before the run finished and the last resume ran to completion and was compared with the "
        "uninterrupted reference; distinct by SHA-1 of the case")
ASSUMPTIONS = [
    "float64 CPU, one thread; resumed and uninterrupted runs execute the same arithmetic on the same machine, so "
    "values are compared to 1e-9 (absolute + relative); bitwise equality is measured and reported, not demanded",
    "resuming = calling the engine class' own run_from_checkpoint on {prefix}.restart.pt, as the manual and the "
    "repository's tests do; when no restart file exists at the crash the user starts the run again from scratch",
    "os._exit(137) in a forked child leaves exactly what SIGKILL leaves (no finally, no atexit, no buffered flush); "
    "strace delivers SIGKILL at syscall entry, i.e. the N-th call itself is not executed",
    "vector cadences inside C10 configurations are multiples of the smallest vector cadence except in the "
    "configuration named coprime-vectors, so that the C11 min-cadence gate defect cannot leak into C10 verdicts",
    "wall-clock never decides: a child exceeding its watchdog makes the scenario inconclusive",
]
REQUIRED_MONITORS = ["crashes_delivered", "resumes_completed", "h5_files_compared", "xyz_files_compared",
                     "checkpoints_loaded_after_crash", "logical_crash_points", "exception_crashes",
                     "sequence_scenarios", "syscall_kills", "random_sigkills", "publication_window_points",
                     "thermostatted_fssh_resumes_compared"]
CASE_TIMEOUT = 1500.0
# budgets are sized for 16 workers; with fewer workers (VERIF_NCPU) the same work needs proportionally longer
_SCALE = max(1.0, 16.0 / max(1, env.NCPU)) * float(os.environ.get("VERIF_BUDGET_SCALE", "1"))   # >1 on a loaded machine
BUDGET_S = {"quick": 900 * _SCALE, "thorough": 1800 * _SCALE}
MIN_NONTRIVIAL = 5
TOL = 1e-9

MIXED = {"data": 2, "coordinates": 1, "velocities": 2, "forces": 3, "xyz": 2, "nonadiabatic": 0, "print": 0}
ALL1 = {"data": 1, "coordinates": 1, "velocities": 1, "forces": 1, "xyz": 1, "nonadiabatic": 0, "print": 0}
COPRIME = {"data": 3, "coordinates": 2, "velocities": 3, "forces": 5, "xyz": 2, "nonadiabatic": 0, "print": 0}


def _c(engine, mols, N, ckpt, cad=None, **kw):
    cad = dict(cad or ALL1)
    cad["checkpoint"] = ckpt
    if engine.startswith("fssh"):
        cad["nonadiabatic"] = kw.pop("na", 1)
    d = {"engine": engine, "mols": mols, "molid": kw.pop("molid", list(range(len(mols)))), "steps": N, "cad": cad,
         "seed": kw.pop("seed", 0), "geom_seed": kw.pop("geom_seed", 5), "dt": 0.4, "scf_eps": 1e-8}
    d.update(kw)
    return d


CONFIGS = {
    "bomd-batch-mixed": _c("bomd", ["H2O", "H2"], 8, 3, MIXED),
    "bomd-all1": _c("bomd", ["H2O"], 8, 3),
    "bomd-noreuse": _c("bomd", ["H2O"], 8, 3, MIXED, reuse_P=False),
    "bomd-removecom": _c("bomd", ["H2O"], 8, 3, remove_com=["angular", 2]),
    "bomd-molid1": _c("bomd", ["H2O", "H2"], 8, 2, MIXED, molid=[1]),
    "bomd-ckpt1": _c("bomd", ["H2"], 8, 1),
    "bomd-ckpt5": _c("bomd", ["H2"], 12, 5, MIXED),
    "langevin": _c("langevin", ["H2O"], 8, 2),
    "langevin-batch-mixed": _c("langevin", ["H2", "H2O"], 9, 3, MIXED),
    "langevin-noreuse": _c("langevin", ["H2"], 8, 3, reuse_P=False),
    "xl-k3": _c("xl", ["H2O"], 9, 1, k=3),
    "xl-k3-ckpt3": _c("xl", ["H2O"], 10, 3, MIXED, k=3),
    "xl-k5": _c("xl", ["H2O"], 12, 5, k=5),
    "xl-k5-ckpt1": _c("xl", ["H2"], 12, 1, k=5),
    "xl-k9": _c("xl", ["H2O"], 12, 2, k=9),
    "xl-k9-ckpt1": _c("xl", ["H2"], 12, 1, k=9),
    "xl-damped": _c("xl_damped", ["H2O"], 8, 2, k=4),
    "xl-batch": _c("xl", ["H2O", "H2"], 8, 3, MIXED, k=6),
    "ksa": _c("ksa", ["H2O"], 8, 1, k=4),
    "ksa-ckpt3": _c("ksa", ["H2O"], 10, 3, MIXED, k=6),
    "cis-bomd": _c("cis_bomd", ["NH3"], 6, 2),
    "cis-bomd-ckpt1": _c("cis_bomd", ["H2O"], 6, 1, MIXED),
    "cis-xl": _c("cis_xl", ["H2O"], 8, 2, k=3),
    "fssh": _c("fssh", ["NH3"], 6, 2),
    "fssh-ckpt1": _c("fssh", ["CH2O"], 6, 1, MIXED, na=2),
    # thermostatted surface hopping with finite-difference couplings: the resumed process must neither consume random
    # numbers nor change the coupling of its first step while it re-initialises
    "fssh-damped": _c("fssh_damped", ["NH3"], 6, 2, damp=50.0),
    "ion-OH-": _c("bomd", ["OH-"], 6, 2),
    "ion-batch": _c("langevin", ["H2O", "OH-"], 6, 2, MIXED),
    "ion-H3O+": _c("xl", ["H3O+"], 6, 2, k=3),
    "radical-OH": _c("bomd", ["OH."], 6, 2, uhf=True),
    "coprime-vectors": _c("bomd", ["H2O"], 12, 4, COPRIME),
    # options of Molecular_Dynamics_Basic.run (velocity rescaling thermostat / energy-shift control)
    # periodic COM removal with a thermostat (NVE conserves momentum, so only a thermostatted engine shows the phase of
    # the stride), stride > 1, checkpoint cadence coprime to the stride
    "langevin-com-linear4": _c("langevin", ["H2O"], 9, 3, remove_com=["linear", 4]),
    "langevin-com-angular3": _c("langevin", ["H2O", "H2"], 8, 2, MIXED, remove_com=["angular", 3]),
    "xl-damped-com-linear4": _c("xl_damped", ["H2O"], 9, 3, k=3, remove_com=["linear", 4]),
    "xl-damped-com-angular3": _c("xl_damped", ["H2O"], 8, 2, k=3, remove_com=["angular", 3]),
    # damped (Langevin-thermostatted) extended-Lagrangian engines at 300 K: the thermostat visibly acts on every step
    "xl-damped-k3": _c("xl_damped", ["H2O"], 8, 3, k=3, damp=8.0),
    "ksa-damped": _c("ksa_damped", ["H2O"], 8, 3, k=4, damp=8.0),
    "bomd-scalevel": _c("bomd", ["H2O"], 6, 2, scale_vel=[2, 500.0]),
    "bomd-eshift": _c("bomd", ["H2O"], 6, 2, control_energy_shift=True),
}

LOGICAL_ALL = ["step", "h5.append_data", "h5.append_vectors", "h5.append_nonadiabatic", "h5.flush", "h5file.flush",
               "h5.close", "xyz.write", "xyz.flush", "xyz.close", "flush_all", "save_checkpoint", "atomic_save",
               "torch.save", "os.replace", "os.rename", "os.remove", "os.unlink", "shutil.move"]
CKPT_TARGETS = ["step", "flush_all", "h5.flush", "xyz.flush", "save_checkpoint", "torch.save", "os.replace",
                "os.rename", "os.remove", "os.unlink", "shutil.move"]


# ---------------------------------------------------------------------------------------
# workload
# ---------------------------------------------------------------------------------------
def gen_cases(tier, seed):
    g = gen.rng("C10", tier)
    cases = []

    def add(name, plan, weight=1.0):
        cases.append({"config": name, "cfg": CONFIGS[name], "plan": plan, "_w": weight})

    def logical(name, targets, m, mode="exit", phases=("before", "after"), w=1.0):
        for r in range(m):
            add(name, {"kind": "logical" if mode == "exit" else "exception", "targets": targets,
                       "phases": list(phases), "mod": [r, m]}, w)

    if tier == "quick":
        # The complete enumerations live in the thorough tier; quick plays a sample of every enumeration so that the
        # whole tier stays near 500 core-seconds and no case exceeds ~45 s on an idle core.
        # --- sentinels: one small case of every scenario kind that feeds a REQUIRED_MONITOR.  They run first
        #     (weight 100), so even a run cut short by its time budget has observed every kind.
        add("langevin", {"kind": "sequence", "n": 1, "seeds": [int(g.integers(0, 2 ** 31))]}, 100)
        add("bomd-all1", {"kind": "sigkill", "fracs": [0.35, 0.7]}, 100)
        add("langevin", {"kind": "syscall", "points": [["rename", 0.0]]}, 100)
        add("bomd-batch-mixed", {"kind": "exception", "targets": ["xyz.write"], "phases": ["after"], "mod": [0, 2]}, 100)
        add("ion-batch", {"kind": "logical", "targets": ["os.replace"], "phases": ["after"], "mod": [0, 2]}, 100)
        # named cell, always complete: the checkpoint-publication window of the 2nd checkpoint (kill before / after
        # every torch.save / os.replace / os.rename / os.remove / os.unlink / shutil.move made while it is written)
        add("bomd-all1", {"kind": "publication", "checkpoint": 2}, 100)
        add("langevin", {"kind": "publication", "checkpoint": 2}, 100)
        # named cell: thermostatted FSSH, killed right after each checkpoint and two steps past one
        add("fssh-damped", {"kind": "logical", "targets": ["save_checkpoint"], "phases": ["after"], "mod": [0, 1]}, 100)
        add("fssh-damped", {"kind": "logical", "targets": ["step"], "phases": ["after"], "mod": [3, 6]}, 100)

        def sample(name, targets, m, take, rotate=True, **kw):
            r0 = int(g.integers(0, m)) if rotate else 0
            for j in range(take):
                r = (r0 + j * (m // take)) % m
                add(name, {"kind": "logical", "targets": targets, "phases": list(kw.get("phases", ("before", "after"))),
                           "mod": [r, m]}, kw.get("w", 1.0))
        sample("bomd-batch-mixed", LOGICAL_ALL, 12, 3)               # ~25 of the ~100 points, residues rotate with the seed
        sample("langevin", CKPT_TARGETS, 7, 2)                        # ~19 of the 66 points of the checkpoint path
        # fixed residues below: these configurations are the deterministic witnesses of the DESIGN section 7 rows
        sample("xl-k3", ["step", "os.replace"], 3, 1, rotate=False, phases=("after",))   # resumes at all 4 buffer phases
        sample("ksa", ["step"], 2, 1, rotate=False, phases=("after",))
        sample("xl-k9", ["save_checkpoint", "torch.save"], 3, 1, rotate=False, phases=("after",))
        sample("xl-k5", ["step"], 3, 1, rotate=False, phases=("after",))
        sample("cis-bomd", ["step", "os.replace"], 3, 1, rotate=False, phases=("after",), w=2)
        sample("fssh", ["step"], 2, 1, rotate=False, phases=("after",), w=3)
        sample("ion-OH-", ["save_checkpoint"], 1, 1, rotate=False, phases=("after",))
        sample("bomd-scalevel", ["save_checkpoint"], 2, 1, rotate=False, phases=("after",))
        # thermostatted engines whose resume must restore the thermostat / the phase of the COM-removal stride
        sample("langevin-com-linear4", ["os.replace"], 1, 1, rotate=False, phases=("after",))      # resume from 3, 6, 9
        sample("xl-damped-com-angular3", ["os.replace"], 2, 1, rotate=False, phases=("after",))    # resume from 2, 6
        sample("xl-damped-k3", ["save_checkpoint"], 1, 1, rotate=False, phases=("after",))         # resume from 3, 6
        sample("ksa-damped", ["save_checkpoint"], 1, 1, rotate=False, phases=("after",))
        add("bomd-eshift", {"kind": "logical", "targets": ["os.replace"], "phases": ["before"], "mod": [1, 2]})
        add("bomd-batch-mixed", {"kind": "exception", "targets": ["step", "h5.append_data", "save_checkpoint"],
                                 "phases": ["after"], "mod": [int(g.integers(0, 3)), 3]})
        for name in ("bomd-batch-mixed", "xl-k3"):
            add(name, {"kind": "sequence", "n": 1, "seeds": [int(g.integers(0, 2 ** 31))]})
        add("langevin", {"kind": "syscall", "points": [["pwrite64", 0.36], ["pwrite64-superblock", 2], ["pwrite64", 0.97]]}, 4)
        add("langevin", {"kind": "syscall", "points": [["writev", 0.1], ["writev", 0.55]]}, 4)
        add("bomd-batch-mixed", {"kind": "syscall", "points": [["write", 0.2], ["rename", 0.99]]}, 4)
        add("langevin", {"kind": "sigkill", "seeds": [int(x) for x in g.integers(0, 2 ** 31, 3)]})
        add("bomd-batch-mixed", {"kind": "sigkill", "seeds": [int(x) for x in g.integers(0, 2 ** 31, 2)]})
    else:
        full = ["bomd-batch-mixed", "bomd-all1", "bomd-noreuse", "bomd-molid1", "langevin", "langevin-batch-mixed",
                "xl-k3-ckpt3", "xl-k5", "xl-k9", "xl-batch", "ksa-ckpt3", "cis-bomd", "cis-xl", "fssh", "ion-OH-",
                "ion-batch"]
        for name in full:
            heavy = name.startswith(("fssh", "cis"))
            logical(name, LOGICAL_ALL, 14 if not heavy else 20, w=3 if heavy else 1)
        for name in ("bomd-removecom", "bomd-ckpt1", "bomd-ckpt5", "langevin-noreuse", "xl-k3", "xl-k5-ckpt1",
                     "xl-k9-ckpt1", "xl-damped", "ksa", "cis-bomd-ckpt1", "fssh-ckpt1", "fssh-damped", "ion-H3O+",
                     "radical-OH", "coprime-vectors", "bomd-scalevel", "bomd-eshift", "langevin-com-linear4",
                     "langevin-com-angular3", "xl-damped-com-linear4", "xl-damped-com-angular3", "xl-damped-k3",
                     "ksa-damped"):
            logical(name, CKPT_TARGETS, 6, w=2 if name.startswith(("fssh", "cis")) else 1)
        for name in ("bomd-batch-mixed", "langevin", "xl-k5", "cis-bomd"):
            logical(name, LOGICAL_ALL, 8, mode="raise")
        for name in ("bomd-all1", "bomd-batch-mixed", "langevin", "xl-k5", "ksa-ckpt3", "cis-bomd", "fssh", "ion-batch"):
            for ck in (2, 3):
                add(name, {"kind": "publication", "checkpoint": ck}, 3 if name.startswith(("fssh", "cis")) else 1)
        for name in ("bomd-batch-mixed", "bomd-noreuse", "langevin", "langevin-batch-mixed", "xl-k3-ckpt3", "xl-k9",
                     "ksa-ckpt3", "cis-xl"):
            for _ in range(3):
                add(name, {"kind": "sequence", "n": 4, "seeds": [int(x) for x in g.integers(0, 2 ** 31, 4)]})
        for name in ("langevin", "bomd-batch-mixed", "xl-k5"):
            for r in range(8):
                add(name, {"kind": "syscall", "class": "pwrite64", "mod": [r, 8], "max": 14}, 5)
            add(name, {"kind": "syscall", "class": "write", "mod": [0, 1], "max": 12}, 5)
            for r in range(2):
                add(name, {"kind": "syscall", "class": "writev", "mod": [r, 2], "max": 12}, 5)
            add(name, {"kind": "syscall", "class": "rename", "mod": [0, 1], "max": 8}, 5)
        for name in ("langevin", "bomd-batch-mixed", "xl-k3-ckpt3", "ksa-ckpt3"):
            for _ in range(3):
                add(name, {"kind": "sigkill", "seeds": [int(x) for x in g.integers(0, 2 ** 31, 8)]})
    cases.sort(key=lambda c: -c["_w"])
    return cases


# ---------------------------------------------------------------------------------------
# worker side
# ---------------------------------------------------------------------------------------
def setup_worker():
    import h5py  # noqa: F401
    import torch  # noqa: F401
    import seqm.MolecularDynamics  # noqa: F401
    import seqm.NonadiabaticDynamics  # noqa: F401


def _mkcfg(case, prefix):
    from vlib import mdio
    return mdio.default_cfg(prefix=prefix, **case["cfg"])


def _inspect(cfg, d, tag):
    from vlib import mdio
    ev = os.path.join(d, tag + ".inspect.jsonl")
    mdio.fork_child({"action": "inspect", "path": mdio.ckpt_path(cfg), "events": ev, "stdout": ev + ".out"}, timeout=120)
    for e in mdio.read_events(ev):
        if e.get("ev") == "inspect":
            return e
    return {"exists": os.path.exists(mdio.ckpt_path(cfg)), "loadable": False, "error": "inspect child produced nothing"}


def _has_ion(cfg):
    for name in cfg["mols"]:
        _, _, q, m = gen.molecule(name)
        if q != 0 or m != 1:
            return True
    return False


def _vec_gate_sensitive(cfg):
    pos = [cfg["cad"][k] for k in ("coordinates", "velocities", "forces") if cfg["cad"][k] > 0]
    return bool(pos) and any(c % min(pos) for c in pos)


def _hdf5_torn(clause, detail, crash_kinds, resume_steps):
    """A SIGKILL delivered at the entry of a pwrite64 on an .h5 file (strace injection), i.e. inside an H5Fflush /
    chunk write of libhdf5, and the damage is an HDF5-level one: the final file cannot be read, the resume died
    inside HDF5 (OSError from h5py or a fatal signal), or datasets differ only in rows written after the checkpoint
    that was resumed from (the rows the torn flush covered)."""
    if not crash_kinds or any(k != "syscall:pwrite64" for k in crash_kinds):
        return False
    if clause == "h5-unreadable":
        return True
    if clause == "resume-raised":
        code = detail.get("exit")
        err, tb = detail.get("error") or "", detail.get("tb") or ""
        return (isinstance(code, int) and code < 0) or err.startswith("OSError") or "h5py" in tb
    if clause == "h5-content":
        after = min(resume_steps) if resume_steps else 0
        probs = detail.get("problems", [])
        return bool(probs) and all(p.get("what") in ("value", "steps") and p.get("first_bad_step", -1) > after
                                   for p in probs)
    return False


def classify(cfg, clause, detail, last_ckpt, resume_steps, crash_kinds=()):
    """Deterministic mechanism classifier over the witness (configuration + what the restart file on disk
    contains + which part of the oracle failed)."""
    if _hdf5_torn(clause, detail, list(crash_kinds), resume_steps):
        return "hdf5-torn-by-kill-inside-write"
    if _has_ion(cfg) and last_ckpt and last_ckpt.get("loadable") and not (last_ckpt.get("has_charge")
                                                                        and last_ckpt.get("has_mult")):
        if clause in ("resume-raised", "h5-content", "xyz-frames"):
            return "checkpoint-lacks-charge-multiplicity"
    if (cfg.get("scale_vel") and last_ckpt and last_ckpt.get("loadable") and not last_ckpt.get("has_scale_vel")) or \
            (cfg.get("control_energy_shift") and last_ckpt and last_ckpt.get("loadable")
             and not last_ckpt.get("has_energy_shift")):
        if clause in ("h5-content", "xyz-frames"):
            return "velocity-scaling-options-lost-on-resume"
    if clause == "xyz-frames":
        # only duplicates, every due frame present, and every duplicated label lies after a checkpoint that was
        # resumed from: frames between that checkpoint and the crash were on disk and got appended again
        lab = detail.get("observed", [])
        exp = detail.get("expected", [])
        dup = sorted({x for x in lab if lab.count(x) > 1})
        if dup and sorted(set(lab)) == exp and not detail.get("value_problems") and not detail.get("parse_problems") \
                and resume_steps and all(x > min(resume_steps) for x in dup):
            return "xyz-frames-duplicated-after-crash-between-checkpoints"
        return None
    if clause == "h5-content" and cfg["engine"] in ("fssh", "fssh_damped", "cis_bomd", "cis_xl"):
        # engines that carry excited-state amplitudes expressed in the sign/order-tracked orbital basis
        probs = detail.get("problems", [])
        only_values = all(p["what"] == "value" for p in probs)
        if only_values and last_ckpt and last_ckpt.get("loadable") and not last_ckpt.get("has_orbitals"):
            return "surface-hopping-checkpoint-lacks-orbitals"
    if clause in ("h5-content", "cursor-invariant") and _vec_gate_sensitive(cfg):
        probs = detail.get("problems", [])
        names = [p.get("dataset", p.get("stream", "")) for p in probs]
        if names and all(n.split("/")[0] in ("coordinates", "velocities", "forces") for n in names):
            return "vector-streams-gated-by-min-cadence"
    return None


def judge(case, cfg, ref, d, hist, mon, margins):
    """Offline oracle after the final child.  hist: list of per-child records.  -> violations list"""
    from vlib import mdio
    N = cfg["steps"]
    cad = cfg["cad"]
    viol = []
    last_ckpt = None
    resume_steps = [h["resumed_from"] for h in hist if h.get("resumed_from")]

    def v(clause, detail, mech="auto"):
        detail = dict(detail)
        detail.update(config=case["config"], engine=cfg["engine"], mols=cfg["mols"], cadences=cad, steps=N,
                      crashes=[h.get("crash_desc") for h in hist if h.get("crash_desc")],
                      resumed_from=resume_steps)
        kinds = [h.get("crash_kind") for h in hist if h.get("crash_desc")]
        m = classify(cfg, clause, detail, last_ckpt, resume_steps, kinds) if mech == "auto" else mech
        viol.append({"clause": clause, "mech": m, "detail": detail})

    # (1) whenever a restart file exists after a crash it is complete and loadable and names a step <= planned
    for h in hist:
        ck = h.get("ckpt_after")
        if ck is None:
            continue
        published = h["action"] == "resume" or any(e.get("t") == "save_checkpoint" and e.get("ph") == "after"
                                                   for e in h["events"])
        if published and not ck.get("exists"):
            # once the first checkpoint has been published, a loadable file with the final name exists at every instant
            v("checkpoint-missing-after-publication", {"inspect": ck, "files": sorted(mdio.run_files(cfg))}, mech=None)
        if ck.get("exists"):
            last_ckpt = ck
            mon["checkpoints_loaded_after_crash"] += 1
            if not ck.get("loadable"):
                v("checkpoint-unloadable-after-crash", {"inspect": ck}, mech=None)
            elif not (0 < ck["step_done"] <= N and ck["steps"] == N and ck["step_done"] % cad["checkpoint"] == 0
                      and ck.get("has_rng")):
                v("checkpoint-inconsistent-after-crash", {"inspect": ck}, mech=None)
    final = hist[-1]
    # (2) the final resume (or fresh restart) finishes
    if final["code"] != 0:
        err = [e for e in final["events"] if e.get("ev") == "error"]
        v("resume-raised" if final["action"] == "resume" else "fresh-restart-raised",
          {"exit": final["code"], "error": (err[0]["type"] + ": " + err[0]["msg"]) if err else None,
           "tb": err[0]["tb"][-600:] if err else None, "inspect": last_ckpt})
        return viol
    mon["resumes_completed"] += 1
    if cfg["engine"] == "fssh_damped" and final["action"] == "resume":
        mon["thermostatted_fssh_resumes_compared"] += 1
    # (3) ... and executes exactly the remaining planned steps
    start = final.get("resumed_from") or 0
    steps_run = [e["i"] for e in final["events"] if e.get("ev") == "call" and e.get("t") == "step"
                 and e.get("ph") == "after"]
    if final.get("log_calls", True) and steps_run != list(range(start, N)):
        v("planned-steps", {"executed": steps_run, "expected": [start, N]}, mech=None)
    # (3b) surface hopping: the step label handed to the hop logger on integrator step i, and the hop log printed at
    #      the end of the run, are those of the uninterrupted run
    if cfg["engine"].startswith("fssh") and final.get("log_calls", True):
        lab = mdio.hop_step_labels(final["events"])
        refmap = dict(ref.get("hop_labels", []))
        bad = [(i, l, refmap.get(i)) for i, l in lab if i in refmap and l != refmap[i]]
        mon["hop_step_labels_compared"] += len(lab)
        if bad:
            shifted = final["action"] == "resume" and all(l == i + start for i, l, _ in bad) and len(bad) == len(lab)
            v("hop-log-step-label", {"integrator_step,label,label_in_uninterrupted_run": bad[:6], "n": len(bad)},
              mech="hop-log-step-double-offset-after-resume" if shifted else None)
        got_log = mdio.read_hop_log(final["stdout"])
        mon["hop_events_compared"] += len(ref.get("hop_log", [])) + len(got_log)
        if got_log != ref.get("hop_log", []):
            v("hop-log-printed", {"observed": got_log[:10], "expected": ref.get("hop_log", [])[:10]}, mech=None)
    # (4) HDF5 content identical to the uninterrupted run
    files = mdio.run_files(cfg)
    for mol in cfg["molid"]:
        key = "%d.h5" % mol
        if key not in ref["h5"]:
            continue
        if key not in files:
            v("h5-content", {"problems": [{"what": "file-missing", "dataset": key}]})
            continue
        try:
            got = mdio.read_h5(cfg["prefix"] + "." + key)
        except OSError as exc:
            v("h5-unreadable", {"file": key, "error": str(exc)[:300]})
            continue
        probs, worst, bitwise, n = mdio.compare_h5_files(got, ref["h5"][key], TOL, TOL)
        mon["h5_files_compared"] += 1
        mon["h5_datasets_compared"] += n
        mon["h5_files_bitwise_equal"] += int(bitwise and not probs)
        if not any(p["what"] == "value" for p in probs):   # a violating ratio is a witness, not a margin
            margins["h5_value_vs_uninterrupted"] = max(margins.get("h5_value_vs_uninterrupted", 0.0), worst)
        if probs:
            # add the step of the first deviating row, for the witness
            for p in probs:
                if p.get("what") == "steps":
                    diff = [e for o, e in zip(p["observed"], p["expected"]) if o != e]
                    if diff:
                        p["first_bad_step"] = int(diff[0])
                    continue
                fr = p.get("first_bad_row")
                root = p["dataset"].rsplit("/", 1)[0] if "/" in p.get("dataset", "") else None
                for cand in ([root + "/steps"] if root else []) + ["data/steps"]:
                    if fr is not None and cand in got["datasets"] and fr < len(got["datasets"][cand]):
                        p["first_bad_step"] = int(got["datasets"][cand][fr])
                        break
            v("h5-content", {"file": key, "problems": probs[:10], "n_problems": len(probs)})
    # (5) XYZ: each due frame exactly once, in order, same content
    for mol in cfg["molid"]:
        key = "%d.xyz" % mol
        if key not in ref["xyz"]:
            continue
        if key not in files:
            v("xyz-frames", {"file": key, "observed": [], "expected": ref["xyz"][key]["labels"]})
            continue
        frames, fp = mdio.read_xyz(cfg["prefix"] + "." + key)
        mon["xyz_files_compared"] += 1
        labels = [f["label"] for f in frames]
        rf = {f["label"]: f for f in ref["xyz"][key]["frames"]}
        vp = []
        for f in frames:
            r = rf.get(f["label"])
            if r is None:
                continue
            mon["xyz_frames_compared"] += 1
            dx = float(np.abs(f["xyz"] - r["xyz"]).max()) if f["xyz"].shape == r["xyz"].shape else float("inf")
            de = abs(f["E"] - r["E"])
            # printed with 5 / 9 decimals: a 1e-9 difference can at most flip the last printed digit
            # NaN policy: a frame is printed text; a non-finite coordinate or energy in it always violates
            if mdio.exceeds(dx, 1.5e-5) or mdio.exceeds(de, 1.5e-9):
                vp.append({"label": f["label"], "dx": dx, "dE": de})
            else:
                margins["xyz_frame_vs_uninterrupted"] = max(margins.get("xyz_frame_vs_uninterrupted", 0.0),
                                                            dx / 1.5e-5, de / 1.5e-9)
        if labels != ref["xyz"][key]["labels"] or fp or vp:
            v("xyz-frames", {"file": key, "observed": labels, "expected": ref["xyz"][key]["labels"],
                             "parse_problems": fp[:3], "value_problems": vp[:5]})
    # (6) the restart file at the end names the last checkpoint step
    due = mdio.due_steps(cad["checkpoint"], N, initial=False)
    if due:
        ck = _inspect(cfg, d, "final")
        if not (ck.get("exists") and ck.get("loadable") and ck.get("step_done") == due[-1]):
            v("final-checkpoint", {"inspect": ck, "expected_step": due[-1]}, mech=None)
    # (7) online writer-cursor invariant, every child of the scenario
    h5cad = {k: cad[k] for k in ("data", "coordinates", "velocities", "forces", "nonadiabatic")}
    for h in hist:
        cp, n = mdio.check_cursor_log(h["events"], h5cad)
        mon["cursor_rows_logged"] += n
        if cp:
            v("cursor-invariant", {"child": h["action"], "problems": cp[:6]})
    return viol


class Player:
    """Plays one scenario = a list of crash specs; each child in its own process."""

    def __init__(self, case, ref, d, mon, margins):
        self.case, self.ref, self.d, self.mon, self.margins = case, ref, d, mon, margins
        self.n = 0

    def new_cfg(self):
        self.n += 1
        self.sdir = os.path.join(self.d, "s%03d" % self.n)
        os.makedirs(self.sdir)
        return _mkcfg(self.case, os.path.join(self.sdir, "run"))

    def cleanup(self):
        shutil.rmtree(self.sdir, ignore_errors=True)

    def child(self, cfg, action, hist, crash=None, kill_after=None, strace=None, log_calls=True, kill_at=None):
        from vlib import mdio
        k = len(hist)
        evp, outp = os.path.join(self.sdir, "c%d.ev" % k), os.path.join(self.sdir, "c%d.out" % k)
        job = {"action": action, "cfg": cfg, "events": evp, "stdout": outp, "log_calls": log_calls}
        if crash:
            job["crash"] = crash
        if strace:
            r = mdio.exec_child(job, timeout=400, strace=strace)
        else:
            r = mdio.fork_child(job, timeout=400, kill_after=kill_after, kill_at=kill_at)
        rec = {"action": action, "code": r["code"], "timed_out": r["timed_out"], "events": mdio.read_events(evp),
               "log_calls": log_calls, "stdout": outp}
        if action == "resume":
            rec["resumed_from"] = hist[-1]["ckpt_after"].get("step_done") if hist and hist[-1].get("ckpt_after") else None
        hist.append(rec)
        return rec

    def play(self, crashes):
        """crashes: list of dicts, each one of {"crash": {...logical...}} | {"kill_after": secs} |
        {"strace_cls": class, "when": N}, plus "desc".  -> (status, violations, info)"""
        from vlib import mdio
        cfg = self.new_cfg()
        hist = []
        action = "run"
        delivered = 0
        try:
            need_final = True
            for c in crashes:
                strace = _strace_spec(cfg, c["strace_cls"], c["when"]) if "strace_cls" in c else None
                rec = self.child(cfg, action, hist, crash=c.get("crash"), kill_after=c.get("kill_after"),
                                 strace=strace, log_calls=not strace, kill_at=c.get("kill_at"))
                if rec["timed_out"]:
                    return "watchdog", [], {}
                code = rec["code"]
                if code == 0:                      # crash point not reached: the child simply finished the run
                    self.mon["crash_points_not_reached"] += 1
                    need_final = False
                    break
                if code == mdio.EXIT_ERROR:
                    if action == "resume":         # the resume itself raised: judged below
                        need_final = False
                        break
                    return "fresh-run-raised-before-crash", [], {"events": rec["events"][-2:]}
                if code not in (mdio.EXIT_CRASH, mdio.EXIT_EXC_CRASH, -9):
                    return "unexpected-child-exit-%r" % code, [], {"events": rec["events"][-2:]}
                delivered += 1
                self.mon["crashes_delivered"] += 1
                rec["crash_desc"] = c["desc"]
                rec["crash_kind"] = ("syscall:" + c["strace_cls"]) if "strace_cls" in c else \
                    ("sigkill" if ("kill_at" in c or "kill_after" in c) else
                     ("exception" if (c.get("crash") or {}).get("mode") == "raise" else "logical"))
                rec["ckpt_after"] = _inspect(cfg, self.sdir, "i%d" % len(hist))
                action = "resume" if rec["ckpt_after"].get("exists") else "run"
            if need_final:
                rec = self.child(cfg, action, hist)
                if rec["timed_out"]:
                    return "watchdog", [], {}
            if not delivered:
                return "no-crash-delivered", [], {}
            viol = judge(self.case, cfg, self.ref, self.sdir, hist, self.mon, self.margins)
            states = ["ck%s" % ((h.get("ckpt_after") or {}).get("step_done")) for h in hist if h.get("crash_desc")]
            return "judged", viol, {"disk_states": states, "children": len(hist)}
        finally:
            self.cleanup()


def cfg_steps(case):
    return int(case["cfg"]["steps"])


def _logical_points(census, targets, phases):
    pts = []
    for t in targets:
        for n in range(1, census.get(t, 0) + 1):
            for ph in phases:
                pts.append((t, n, ph))
    return pts


def _syscall_census(case, d):
    """One traced run; -> {class: number of calls by the main process touching the -P files}, paths per class."""
    from vlib import mdio
    sdir = os.path.join(d, "census")
    os.makedirs(sdir)
    cfg = _mkcfg(case, os.path.join(sdir, "run"))
    job = {"action": "run", "cfg": cfg, "events": sdir + "/ev", "stdout": sdir + "/out", "log_calls": False}
    r = mdio.exec_child(job, timeout=600, strace={"census": "write,writev,pwrite64,rename"}, trace_out=sdir + "/trace")
    counts = {"pwrite64": 0, "write": 0, "writev": 0, "rename": 0}
    if r["code"] != 0:
        return None
    with open(sdir + "/trace", errors="replace") as f:
        for line in f:
            parts = line.split(None, 1)
            if len(parts) < 2 or "(" not in parts[1] or parts[1].startswith("<..."):
                continue
            name = parts[1].split("(", 1)[0]
            body = parts[1]
            if name == "pwrite64" and ".h5>" in body:
                counts["pwrite64"] += 1
                mm = re.search(r", (\d+), (\d+)\) += ", body)
                if mm and int(mm.group(2)) == 0:      # HDF5 superblock (carries the end-of-allocation address)
                    counts.setdefault("pwrite64_superblock_ordinals", []).append(counts["pwrite64"])
            elif name == "write" and ".xyz>" in body:
                counts["write"] += 1
            elif name == "writev" and (".tmp_ckpt_" in body or ".restart.pt" in body):
                counts["writev"] += 1
            elif name == "rename" and ".restart.pt" in body:
                counts["rename"] += 1
    shutil.rmtree(sdir, ignore_errors=True)
    return counts


def _strace_spec(cfg, cls, when):
    from vlib import mdio
    paths = []
    if cls == "pwrite64":
        paths = [cfg["prefix"] + ".%d.h5" % m for m in cfg["molid"]]
    elif cls == "write":
        paths = [cfg["prefix"] + ".%d.xyz" % m for m in cfg["molid"]]
    elif cls == "rename":
        paths = [mdio.ckpt_path(cfg)]
    return {"inject": cls, "when": when, "paths": paths}


def run_case(case):
    from vlib import env, mdio
    import time
    plan = case["plan"]
    mon = dict.fromkeys(REQUIRED_MONITORS + ["crash_points_not_reached", "h5_datasets_compared", "h5_files_bitwise_equal",
                                             "xyz_frames_compared", "cursor_rows_logged", "scenarios_judged",
                                             "scenarios_watchdog", "reference_runs", "hop_step_labels_compared",
                                             "hop_events_compared"], 0)
    margins, cells, viol = {}, [], []
    obs = {"config": case["config"], "plan": plan["kind"], "scenarios": []}
    with env.Scratch("c10") as d:
        # ---- uninterrupted reference
        rcfg = _mkcfg(case, os.path.join(d, "ref"))
        t0 = time.time()
        r = mdio.fork_child({"action": "run", "cfg": rcfg, "events": d + "/ref.ev", "stdout": d + "/ref.out"}, timeout=600)
        t_ref = time.time() - t0
        rev = mdio.read_events(d + "/ref.ev")
        if r["code"] != 0:
            err = [e for e in rev if e.get("ev") == "error"]
            return {"inconclusive": "uninterrupted reference run failed: %r %s" % (r, err[:1])}
        mon["reference_runs"] += 1
        miss = [e["names"] for e in rev if e.get("ev") == "missing_symbols"]
        if miss:   # a refactor renamed a wrapped internal: say which, do not guess
            return {"inconclusive": "wrapped symbols not found in the repository: %s" % miss[0]}
        census = mdio.census(rev)
        ref = {"h5": {}, "xyz": {}, "hop_labels": mdio.hop_step_labels(rev), "hop_log": mdio.read_hop_log(d + "/ref.out")}
        if any(l != i for i, l in ref["hop_labels"]):
            return {"inconclusive": "uninterrupted run labels hop-logger steps differently from the integrator index: %r"
                                    % ref["hop_labels"][:4]}
        for fn in mdio.run_files(rcfg):
            if fn.endswith(".h5"):
                ref["h5"][fn] = mdio.read_h5(rcfg["prefix"] + "." + fn)
            elif fn.endswith(".xyz"):
                fr, fp = mdio.read_xyz(rcfg["prefix"] + "." + fn)
                if fp:
                    return {"inconclusive": "reference XYZ unparsable: %r" % fp[:2]}
                ref["xyz"][fn] = {"frames": fr, "labels": [f["label"] for f in fr]}
        obs["census"] = census
        player = Player(case, ref, d, mon, margins)
        scenarios = []   # (label, [crash specs])
        kind = plan["kind"]
        if kind in ("logical", "exception"):
            pts = _logical_points(census, plan["targets"], plan["phases"])
            r0, m = plan["mod"]
            for idx, (t, n, ph) in enumerate(pts):
                if idx % m == r0:
                    mode = "exit" if kind == "logical" else "raise"
                    scenarios.append(("%s#%d/%s" % (t, n, ph),
                                      [{"crash": {"target": t, "n": n, "phase": ph, "mode": mode},
                                        "desc": "%s %s %s #%d" % (mode, ph, t, n)}]))
            obs["enumeration"] = {"points_total": len(pts), "residue": plan["mod"], "targets": plan["targets"]}
        elif kind == "publication":
            # every file operation made while the n-th checkpoint is being written, from the reference run's event log
            nck = int(plan.get("checkpoint", 2))
            inside, pts = False, []
            for e in rev:
                if e.get("ev") != "call":
                    continue
                if e.get("t") == "save_checkpoint" and e.get("n") == nck:
                    inside = e.get("ph") == "before"
                elif inside and e.get("ph") == "before" and e.get("t") in mdio.PUBLICATION_TARGETS:
                    pts.append((e["t"], int(e["n"])))
            if not pts:
                return {"inconclusive": "reference run wrote no checkpoint number %d" % nck, "monitors": mon}
            obs["enumeration"] = {"window": "save_checkpoint #%d" % nck, "calls": ["%s#%d" % p for p in pts]}
            for t, n in pts:
                for ph in ("before", "after"):
                    scenarios.append(("publication:%s#%d/%s" % (t, n, ph),
                                      [{"crash": {"target": t, "n": n, "phase": ph, "mode": "exit"},
                                        "desc": "exit %s %s #%d (while checkpoint #%d is written)" % (ph, t, n, nck)}]))
        elif kind == "sequence":
            for s in plan["seeds"]:
                g = np.random.default_rng(s)
                ncr = int(g.integers(2, 4))
                specs = []
                first = _logical_points(census, ["step", "h5.append_vectors", "xyz.write", "flush_all", "torch.save",
                                                 "os.replace"], ("before", "after"))
                t, n, ph = first[int(g.integers(0, len(first)))]
                specs.append({"crash": {"target": t, "n": n, "phase": ph, "mode": "exit"},
                              "desc": "exit %s %s #%d" % (ph, t, n)})
                for _ in range(ncr - 1):
                    # inside a resumed process the counters start again: pick an early invocation so that it is reached
                    t = ["step", "h5.append_vectors", "xyz.write", "save_checkpoint", "os.replace", "h5.append_data"][
                        int(g.integers(0, 6))]
                    n = int(g.integers(1, 3))
                    ph = ("before", "after")[int(g.integers(0, 2))]
                    mode = ("exit", "exit", "raise")[int(g.integers(0, 3))]
                    specs.append({"crash": {"target": t, "n": n, "phase": ph, "mode": mode},
                                  "desc": "%s %s %s #%d (in resumed process)" % (mode, ph, t, n)})
                scenarios.append(("seq:" + ";".join(x["desc"] for x in specs), specs))
        elif kind == "sigkill":
            # the instant is random but anchored to the child's own progress (number of event-log lines written)
            # plus a random delay of up to ~1.5 integrator steps, so that machine load cannot move it past the end
            nlines = sum(1 for e in rev if e.get("ev") == "call")
            t_step = t_ref / max(1, cfg_steps(case))
            for f in plan.get("fracs", []):      # sentinel: fixed position inside the run, tiny delay
                k = max(1, int(float(f) * nlines))
                scenarios.append(("sigkill@event%d" % k, [{"kill_at": [k, 0.003], "desc": "SIGKILL 3 ms after event-log "
                                                           "line %d of %d" % (k, nlines)}]))
            for s in plan.get("seeds", []):
                g = np.random.default_rng(s)
                k = int(g.integers(1, max(2, nlines - 4)))
                delay = float(g.uniform(0.0, 1.5 * t_step))
                scenarios.append(("sigkill@event%d+%.0fms" % (k, 1e3 * delay),
                                  [{"kill_at": [k, delay], "desc": "SIGKILL %.0f ms after event-log line %d of %d"
                                    % (1e3 * delay, k, nlines)}]))
        elif kind == "syscall":
            counts = _syscall_census(case, d)
            if counts is None:
                return {"inconclusive": "strace census run failed", "monitors": mon}
            obs["syscall_census"] = counts
            if "points" in plan:          # quick tier: [[class, fraction of that class' census], ...]
                todo = []
                for cls, f in plan["points"]:
                    if cls == "pwrite64-superblock":
                        # the f-th (0-based, negative from the end) write of the HDF5 superblock: the last write of
                        # an H5Fflush that moved the end-of-allocation address
                        ords = counts.get("pwrite64_superblock_ordinals", [])
                        if -len(ords) <= int(f) < len(ords):
                            todo.append(("pwrite64", ords[int(f)], counts["pwrite64"]))
                        continue
                    total = counts.get(cls, 0)
                    if total:
                        todo.append((cls, min(total, max(1, 1 + int(float(f) * total))), total))
                if not todo:
                    return {"inconclusive": "census saw none of the requested syscalls on the run's files: %r" % counts,
                            "monitors": mon}
            else:                          # thorough tier: one residue class of one syscall class
                cls = plan["class"]
                total = counts.get(cls, 0)
                if total == 0:
                    return {"inconclusive": "census saw no %s call on the run's files" % cls, "monitors": mon}
                r0, m = plan["mod"]
                allw = [w for w in range(1, total + 1) if w % m == r0]
                if len(allw) > plan.get("max", 10 ** 6):      # spread instead of taking a prefix
                    allw = [allw[int(i)] for i in np.linspace(0, len(allw) - 1, plan["max"]).round()]
                todo = [(cls, w, total) for w in allw]
            for cls, w, total in todo:
                scenarios.append(("%s@%d/%d" % (cls, w, total), [{"strace_cls": cls, "when": int(w),
                                                                  "desc": "SIGKILL at entry of %s #%d of %d" % (cls, w, total)}]))
        # ---- play
        nontrivial = False
        for label, specs in scenarios:
            status, vv, info = player.play(specs)
            entry = {"scenario": label, "status": status}
            entry.update(info)
            obs["scenarios"].append(entry)
            if status == "watchdog":
                mon["scenarios_watchdog"] += 1
                continue
            if status != "judged":
                continue
            mon["scenarios_judged"] += 1
            nontrivial = True
            mon[{"logical": "logical_crash_points", "exception": "exception_crashes", "sequence": "sequence_scenarios",
                 "syscall": "syscall_kills", "sigkill": "random_sigkills",
                 "publication": "publication_window_points"}[kind]] += 1
            if kind in ("logical", "exception", "publication"):
                t = specs[0]["crash"]
                cells.append("%s/%s/%s/%s" % (case["config"], kind, t["target"], t["phase"]))
            else:
                cells.append("%s/%s" % (case["config"], kind))
            for st in info.get("disk_states", []):
                cells.append("%s/state-at-crash/%s" % (case["config"], st))
            for x in vv:
                x["detail"]["scenario"] = label
            viol += vv
        if len(obs["scenarios"]) > 12:
            obs["scenarios"] = obs["scenarios"][:12] + ["... %d more" % (len(obs["scenarios"]) - 12)]
    res = {"nontrivial": nontrivial, "violations": viol, "margins": margins, "monitors": mon,
           "cells": sorted(set(cells)), "obs": obs}
    if scenarios and mon["scenarios_watchdog"] > len(scenarios) // 2:
        res["inconclusive"] = "watchdog fired in %d of %d scenarios" % (mon["scenarios_watchdog"], len(scenarios))
    return res


def summarize(cases, results, report):
    """Per configuration: was the logical enumeration complete (every residue class of every target list ran)?"""
    per = {}
    for c, r in zip(cases, results):
        if c["plan"]["kind"] != "logical" or not r:
            continue
        key = (c["config"], tuple(c["plan"]["targets"]), tuple(c["plan"]["phases"]), c["plan"]["mod"][1])
        ent = per.setdefault(key, {"residues_done": set(), "points": None, "judged": 0})
        if r.get("monitors") and not r.get("inconclusive") and not r.get("harness_error") and not r.get("skipped"):
            ent["residues_done"].add(c["plan"]["mod"][0])
            ent["judged"] += r["monitors"].get("scenarios_judged", 0)
            ent["points"] = ((r.get("obs") or {}).get("enumeration") or {}).get("points_total")
    out = []
    for (cfgname, targets, phases, m), ent in sorted(per.items()):
        out.append({"config": cfgname, "targets": list(targets) if len(targets) < 15 else "all wrapped functions",
                    "phases": list(phases), "crash_points": ent["points"], "scenarios_judged": ent["judged"],
                    "complete": len(ent["residues_done"]) == m and ent["judged"] == ent["points"]})
    return {"logical_enumerations": out}
